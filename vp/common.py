"""Shared infrastructure: evidence files, known findings, overlay build of /repo, replay
bookkeeping, parallel job runner, exit codes."""
import json, os, sys, time, subprocess, tempfile, shutil, atexit, hashlib, concurrent.futures, multiprocessing, traceback

VERIF = os.path.dirname(os.path.dirname(os.path.abspath(__file__)))
REPO = os.environ.get('VP_REPO', '/repo')
VENV_PY = '/venv/bin/python'
EXIT_OK, EXIT_VIOLATION, EXIT_HARNESS = 0, 1, 3

def tier():
    t = os.environ.get('VERIF_TIER', '')
    return t if t in ('quick', 'thorough') else None

def seed():
    try: return int(os.environ.get('VERIF_SEED', '0'))
    except ValueError: return 0

# ------------------------------------------------------------------ overlay build (real build of /repo)
_overlay = None
def overlay():
    """Builds (once per process) an importable cvxopt from REPO's working tree in a scratch
    directory under /var/tmp; removed at exit."""
    global _overlay
    if _overlay: return _overlay
    env_ov = os.environ.get('VP_OVERLAY')
    if env_ov and os.path.isdir(os.path.join(env_ov, 'cvxopt')):
        _overlay = env_ov
        return _overlay
    d = tempfile.mkdtemp(prefix='vp.ov.', dir='/var/tmp')
    atexit.register(shutil.rmtree, d, True)
    r = subprocess.run([os.path.join(VERIF, 'tools', 'build_overlay.sh'), d, REPO],
                       capture_output=True, text=True)
    if r.returncode != 0:
        raise HarnessError('overlay build of %s failed:\n%s' % (REPO, r.stderr[-2000:]))
    _overlay = d
    os.environ['VP_OVERLAY'] = d
    return d

def run_conc(script_args, input_obj=None, timeout=600, extra_path=()):
    """Run a script under /venv/bin/python against the overlay build; returns parsed JSON
    from the last line of stdout."""
    ov = overlay()
    env = dict(os.environ)
    env['PYTHONPATH'] = os.pathsep.join([ov, VERIF] + list(extra_path))
    env['VP_REPO'] = REPO
    env.setdefault('OMP_NUM_THREADS', '1'); env.setdefault('OPENBLAS_NUM_THREADS', '1')
    r = subprocess.run([VENV_PY] + list(script_args), input=(json.dumps(input_obj) if input_obj is not None else None),
                       capture_output=True, text=True, timeout=timeout, env=env)
    return r

class HarnessError(Exception):
    pass

# ------------------------------------------------------------------ known findings
def known_findings(pid):
    p = os.path.join(VERIF, 'known_findings.json')
    if not os.path.exists(p): return {}
    with open(p) as f: data = json.load(f)
    return {e['key']: e for e in data.get('findings', []) if e.get('property') == pid}

# ------------------------------------------------------------------ replay files
def replay_path(pid, tag):
    d = os.path.join(VERIF, 'replay', pid)
    os.makedirs(d, exist_ok=True)
    h = hashlib.sha1(tag.encode()).hexdigest()[:10]
    return os.path.join(d, '%s.json' % h)

def write_replay(pid, tag, obj):
    p = replay_path(pid, tag)
    with open(p, 'w') as f: json.dump(obj, f, indent=1, sort_keys=True)
    return p

# ------------------------------------------------------------------ evidence
class Evidence(object):
    def __init__(self, pid, level, tier_):
        self.pid, self.level, self.tier = pid, level, tier_
        self.t0 = time.time()
        self.cov = {'samples': []}
        self.assumptions = []
        self.obl = {'total': 0, 'unsat': 0, 'sat': 0, 'unknown': 0}
        self.solver_s = 0.0
        self.violations = 0
        self.extra = {}
    def add_obl(self, verdict, secs=0.0, n=1):
        self.obl['total'] += n; self.obl[verdict] += n; self.solver_s += secs
    def sample(self, s, cap=12):
        if len(self.cov['samples']) < cap: self.cov['samples'].append(s)
    def write(self):
        cov = dict(self.cov)
        cov['obligations'] = self.obl['total']
        cov['discharged'] = self.obl['unsat']
        cov['obligation_verdicts'] = dict(self.obl)
        cov['solver_time_s'] = round(self.solver_s, 3)
        cov.update(self.extra)
        if not cov['samples']: cov['samples'] = ['(no sample recorded)']
        ev = {'property_id': self.pid, 'tier': self.tier, 'seed': seed(), 'level': self.level,
              'coverage': cov, 'assumptions': self.assumptions,
              'wall_s': round(time.time() - self.t0, 2), 'violations': self.violations}
        d = os.path.join(VERIF, 'evidence'); os.makedirs(d, exist_ok=True)
        tmp = os.path.join(d, self.pid + '.json.tmp')
        with open(tmp, 'w') as f: json.dump(ev, f, indent=1, default=str)
        os.replace(tmp, os.path.join(d, self.pid + '.json'))
        return ev

# ------------------------------------------------------------------ parallel jobs
def _job_wrapper(args):
    modname, fname, cfg = args
    try:
        import importlib
        mod = importlib.import_module(modname)
        return {'cfg': cfg, 'ok': True, 'res': getattr(mod, fname)(cfg)}
    except BaseException as e:
        return {'cfg': cfg, 'ok': False, 'err': '%s: %s' % (type(e).__name__, e), 'tb': traceback.format_exc()[-3000:]}

def _orphan_watchdog(parent_pid):
    """worker initializer: a worker whose parent (the check process) is gone exits instead of burning a core for hours"""
    import threading
    def watch():
        while True:
            time.sleep(2.0)
            if os.getppid() != parent_pid: os._exit(9)
    t = threading.Thread(target=watch, daemon=True); t.start()

def run_jobs(modname, fname, cfgs, workers=None, timeout=None):
    """Run importable function modname.fname(cfg) for every cfg in fresh (spawned) worker
    processes; returns list of result dicts in input order."""
    if workers is None: workers = min(16, os.cpu_count() or 4, max(1, len(cfgs)))
    if os.environ.get('VP_SERIAL') or len(cfgs) <= 1:
        return [_job_wrapper((modname, fname, c)) for c in cfgs]
    ctx = multiprocessing.get_context('spawn')
    out = [None] * len(cfgs)
    with concurrent.futures.ProcessPoolExecutor(max_workers=workers, mp_context=ctx, initializer=_orphan_watchdog, initargs=(os.getpid(),)) as ex:
        futs = {ex.submit(_job_wrapper, (modname, fname, c)): i for i, c in enumerate(cfgs)}
        for fu in concurrent.futures.as_completed(futs, timeout=timeout):
            i = futs[fu]
            try: out[i] = fu.result()
            except BaseException as e:
                out[i] = {'cfg': cfgs[i], 'ok': False, 'err': 'worker died: %r' % (e,), 'tb': ''}
    return out

def finish(ev, violations, known_hits, harness_errors, inconclusive):
    """Common epilogue: prints the protocol lines, writes the evidence, returns exit code.
    violations: list of (key, replay_path, text) reproduced on the real build and not listed.
    known_hits: list of (key, text)."""
    for key, text in known_hits:
        print('KNOWN-FINDING: property=%s %s [%s]' % (ev.pid, text, key))
    ev.violations = len(violations)
    ev.extra['known_findings_hit'] = [k for k, _ in known_hits]
    ev.extra['harness_errors'] = harness_errors[:20]
    ev.extra['inconclusive'] = inconclusive[:20]
    ev.write()
    for key, path, text in violations:
        print('VIOLATION property=%s replay=%s  # %s: %s' % (ev.pid, path, key, text))
    if violations: return EXIT_VIOLATION
    if harness_errors or inconclusive:
        for h in harness_errors[:10]: print('HARNESS-ERROR: %s' % (h,), file=sys.stderr)
        for h in inconclusive[:10]: print('INCONCLUSIVE: %s' % (h,), file=sys.stderr)
        return EXIT_HARNESS
    return EXIT_OK
