"""C06 (one sentence of it) - "A KKT solver name an entry point does not support is rejected with ValueError
before solving."

Engine P with a symbolic string: the real conelp, lp, socp, sdp, coneqp, qp, cpl, cp are called on a tiny concrete
problem with kktsolver = an arbitrary str (a z3 String behind a str subclass whose comparisons fork).  The KKT
factories of misc.py are replaced by markers.  For every path z3 (theory of strings) decides:
  * a path that raises ValueError does so for names outside the set the entry point dispatches to a factory, and
    before any factory or user function F(x) was called;
  * a path that reaches a factory reaches the factory of that name;
  * no other outcome exists: in particular no name runs into the solver and fails there with some other exception.
The set of supported names per entry point is read off the paths that reach a factory (it is not assumed).
The rest of C06 (agreement of two presentations to solver tolerance) is not decidable by an SMT solver and is not
claimed."""
import json, sys, os, time

ENTRY = ['conelp', 'lp', 'socp', 'sdp', 'coneqp', 'qp', 'cpl', 'cp']

class Reached(Exception):
    def __init__(self, what): Exception.__init__(self, what); self.what = what

def make_symstr(z3, sym, var):
    class SymStr(str):
        """an arbitrary Python str: equality with concrete strings forks on a z3 string constraint"""
        def __new__(cls): return str.__new__(cls, '<symbolic kktsolver name>')
        def __eq__(self, other):
            if isinstance(other, SymStr): return True
            if isinstance(other, str): return sym.SymBool(var == z3.StringVal(str.__str__(other)))
            return False
        def __ne__(self, other):
            r = self.__eq__(other)
            return sym.SymBool(z3.Not(r.t)) if isinstance(r, sym.SymBool) else (not r)
        __hash__ = str.__hash__
    return SymStr()

def job(cfg):
    import z3
    from vp.pysym import sym, loader
    ep = cfg['entry']
    Wd = loader.load('sym', transform_solvers=False, modules=('misc', 'coneprog', 'cvxprog'))
    M = Wd.matrix
    res = {'entry': ep, 'paths': 0, 'obl': {'total': 0, 'unsat': 0, 'sat': 0, 'unknown': 0}, 'solver_s': 0.0, 'findings': [], 'errors': [], 'supported': [], 'sample': None}
    name = z3.String('kktsolver')
    state = {}
    FACT = {'kkt_ldl': 'ldl', 'kkt_ldl2': 'ldl2', 'kkt_qr': 'qr', 'kkt_chol': 'chol', 'kkt_chol2': 'chol2'}
    import inspect
    saved = {}
    for fn in FACT:
        saved[fn] = getattr(Wd.misc, fn)
        def mk(fn_, orig):
            npos = len([p for p in inspect.signature(orig).parameters.values() if p.default is inspect.Parameter.empty])
            allp = list(inspect.signature(orig).parameters)
            def stub(*a, **k):
                # the real factory's own signature still applies (a call it would refuse with TypeError is no dispatch)
                try: inspect.signature(orig).bind(*a, **k)
                except TypeError as e: raise TypeError('%s() %s' % (fn_, e))
                raise Reached(fn_)
            return stub
        setattr(Wd.misc, fn, mk(fn, saved[fn]))
    realtype = type
    def vp_type(*a):
        if len(a) == 1 and isinstance(a[0], str): return str
        return realtype(*a)
    Wd.cvxprog.type = vp_type; Wd.coneprog.type = vp_type
    for md in (Wd.cvxprog, Wd.coneprog):
        if isinstance(getattr(md, 'options', None), dict): md.options['show_progress'] = False
    def run_one():
        s = make_symstr(z3, sym, name)
        state['F_calls'] = 0
        def F(x=None, z=None):
            if x is None: return 0, M([1.0], (1, 1), 'd')
            state['F_calls'] += 1
            raise Reached('F(x)')
        def Fl(x=None, z=None):
            if x is None: return 0, M([1.0], (1, 1), 'd')
            state['F_calls'] += 1
            raise Reached('F(x)')
        c = M([1.0], (1, 1), 'd'); G = M([-1.0], (1, 1), 'd'); h = M([0.0], (1, 1), 'd')
        P = M([1.0], (1, 1), 'd')
        cp_, cq = Wd.coneprog, Wd.cvxprog
        if ep == 'conelp': return cp_.conelp(c, G, h, kktsolver=s)
        if ep == 'lp': return cp_.lp(c, G, h, kktsolver=s)
        if ep == 'socp': return cp_.socp(c, Gl=G, hl=h, kktsolver=s)
        if ep == 'sdp': return cp_.sdp(c, Gl=G, hl=h, kktsolver=s)
        if ep == 'coneqp': return cp_.coneqp(P, c, G, h, kktsolver=s)
        if ep == 'qp': return cp_.qp(P, c, G, h, kktsolver=s)
        if ep == 'cpl': return cq.cpl(c, Fl, G, h, kktsolver=s)
        if ep == 'cp': return cq.cp(F, G, h, kktsolver=s)
        raise KeyError(ep)
    outcomes = []
    def on_path(kind, val, ctx):
        res['paths'] += 1
        outcomes.append((kind, val, list(ctx.pc), state.get('F_calls', 0)))
    sym.explore(run_one, on_path=on_path, max_paths=200)
    def check(fs):
        t0 = time.time(); s = z3.Solver(); s.set('timeout', 20000)
        for f in fs: s.add(f)
        r = s.check(); res['solver_s'] += time.time() - t0
        v = str(r); res['obl']['total'] += 1; res['obl'][v if v in ('sat', 'unsat') else 'unknown'] += 1
        return v, (s.model() if r == z3.sat else None)
    # supported names = names of the paths that reach a factory
    supported = []
    for kind, val, pc, fc in outcomes:
        if kind == 'exception' and isinstance(val, Reached) and val.what in FACT:
            r, m = check(pc)
            if r == 'sat':
                nm = m.eval(name, model_completion=True).as_string()
                supported.append((nm, val.what))
    res['supported'] = sorted(set(n for n, _ in supported))
    insup = z3.Or(*[name == z3.StringVal(n) for n in res['supported']]) if supported else z3.BoolVal(False)
    for kind, val, pc, fc in outcomes:
        if kind == 'exception' and isinstance(val, Reached) and val.what in FACT:
            # the factory reached is the factory of that name, for every name on this path
            r, m = check(pc + [name != z3.StringVal(FACT[val.what])])
            if r == 'sat': res['findings'].append({'key': '%s:wrong-factory' % ep, 'text': 'name %r is dispatched to %s' % (m.eval(name).as_string(), val.what), 'name': m.eval(name, model_completion=True).as_string()})
        elif kind == 'exception' and isinstance(val, ValueError) and 'kktsolver' in str(val):
            r, m = check(pc + [insup])
            if r == 'sat': res['findings'].append({'key': '%s:rejects-supported' % ep, 'text': 'a supported name is rejected', 'name': m.eval(name, model_completion=True).as_string()})
            if fc: res['findings'].append({'key': '%s:late-rejection' % ep, 'text': 'ValueError only after the user function was evaluated', 'name': None})
        else:
            # anything else: a name that is neither dispatched nor rejected with ValueError
            r, m = check(pc)
            if r == 'sat':
                nm = m.eval(name, model_completion=True).as_string()
                what = ('%s: %s' % (type(val).__name__, str(val)[:80])) if kind == 'exception' else kind
                res['findings'].append({'key': '%s:not-rejected' % ep, 'text': 'kktsolver=%r is neither dispatched to a KKT factory nor rejected with ValueError (%s)' % (nm, what), 'name': nm})
            elif r != 'unsat': res['errors'].append('path feasibility undecided')
    res['sample'] = {'entry': ep, 'supported_names_found': res['supported'], 'paths': res['paths']}
    for fn, f in saved.items(): setattr(Wd.misc, fn, f)
    return res

REPLAY_PROG = r'''
import sys, json
from cvxopt import matrix, solvers
solvers.options['show_progress'] = False
d = json.loads(sys.argv[1]); ep, nm = d['entry'], d['name']
c = matrix([1.0]); G = matrix([-1.0]); h = matrix([0.0]); P = matrix([1.0])
def F(x=None, z=None):
    if x is None: return 0, matrix([1.0])
    f = x**2; Df = 2*x.T
    if z is None: return f, Df
    return f, Df, 2*z[0]*matrix([1.0])
try:
    if ep == 'conelp': solvers.conelp(c, G, h, kktsolver=nm)
    elif ep == 'lp': solvers.lp(c, G, h, kktsolver=nm)
    elif ep == 'socp': solvers.socp(c, Gl=G, hl=h, kktsolver=nm)
    elif ep == 'sdp': solvers.sdp(c, Gl=G, hl=h, kktsolver=nm)
    elif ep == 'coneqp': solvers.coneqp(P, c, G, h, kktsolver=nm)
    elif ep == 'qp': solvers.qp(P, c, G, h, kktsolver=nm)
    elif ep == 'cpl': solvers.cpl(c, F, G, h, kktsolver=nm)
    elif ep == 'cp': solvers.cp(F, G, h, kktsolver=nm)
    out = 'returns'
except ValueError as e: out = 'ValueError'
except Exception as e: out = '%s: %s' % (type(e).__name__, str(e)[:80])
print('RESULT ' + json.dumps(out))
'''

def replay_name(ep, nm, timeout=120):
    import subprocess
    from vp import common
    ov = common.overlay()
    env = dict(os.environ); env['PYTHONPATH'] = ov
    try: r = subprocess.run([common.VENV_PY, '-c', REPLAY_PROG, json.dumps({'entry': ep, 'name': nm})], capture_output=True, text=True, timeout=timeout, env=env)
    except subprocess.TimeoutExpired: return None, 'replay timed out'
    for l in r.stdout.splitlines():
        if l.startswith('RESULT '):
            out = json.loads(l[7:])
            if out in ('ValueError', 'returns'): return None, 'solvers.%s(..., kktsolver=%r): %s' % (ep, nm, out)
            return 'solvers.%s(..., kktsolver=%r) fails inside the solver with %s instead of being rejected with ValueError' % (ep, nm, out), None
    return None, 'replay failed: %s' % r.stderr[-300:]

def replay_main(path):
    d = json.load(open(path))
    rep, why = replay_name(d['entry'], d['name'])
    if rep: print('REPRODUCED on the real build: %s' % rep); return 1
    print(why); return 0

def main(tier):
    from vp import common
    from vp.pysym import loader
    pid = 'C06'
    ev = common.Evidence(pid, 'model_checking', tier)
    cfgs = [{'entry': e} for e in ENTRY]
    results = common.run_jobs('vp.checks.c06', 'job', cfgs)
    known = common.known_findings(pid)
    violations, known_hits, herr, inconc = [], [], [], []
    paths = 0; sup = {}
    for r in results:
        if not r['ok']: herr.append('%s: %s' % (r['cfg']['entry'], r['err'])); continue
        res = r['res']; paths += res['paths']; sup[res['entry']] = res['supported']
        for key in ('total', 'unsat', 'sat', 'unknown'): ev.obl[key] += res['obl'][key]
        ev.solver_s += res['solver_s']
        if res['sample']: ev.sample(res['sample'], cap=8)
        for e in res['errors']: herr.append('%s: %s' % (res['entry'], e))
        if not res['supported']: herr.append('%s: no path reaches a KKT factory (vacuous)' % res['entry'])
        seen = set()
        for f in res['findings']:
            k = f['key']
            if k in seen: continue
            seen.add(k)
            rp = common.write_replay(pid, k + str(f.get('name')), {'property': pid, 'key': k, 'entry': res['entry'], 'name': f.get('name'), 'text': f['text']})
            rep, why = replay_name(res['entry'], f['name']) if f.get('name') is not None else (None, 'no name')
            if rep is None: herr.append('%s: %s - not reproduced (%s) %s' % (k, f['text'], why, rp)); continue
            if k in known: known_hits.append((k, known[k]['what'])); continue
            violations.append((k, rp, '%s -> %s' % (f['text'], rep)))
    # obligation counts: 'sat' answers of the name-extraction queries are not violations
    ev.obl['sat'] = len(violations) + len(known_hits); ev.obl['unsat'] = ev.obl['total'] - ev.obl['sat'] - ev.obl['unknown']
    ev.cov.update({'states': max(1, paths), 'transitions': max(1, ev.obl['total']), 'traces_validated_against_impl': 0, 'configurations': len(cfgs),
                   'functions_encoded': ['coneprog.conelp/lp/socp/sdp/coneqp/qp and cvxprog.cpl/cp: argument validation and kktsolver dispatch'],
                   'source_hash': loader.src_hash(['coneprog', 'cvxprog']), 'supported_names_per_entry_point': sup,
                   'bounds': 'kktsolver an arbitrary Python str (z3 String, unbounded length); one tiny concrete problem per entry point (n = 1, one linear inequality); gp is not run (it passes kktsolver unchanged to cp)'})
    ev.assumptions += ['only the name-rejection sentence of C06 is decided; agreement of presentations / solver paths to solver tolerance is a floating-point statement and is not claimed',
                       'the KKT factories are replaced by markers (reaching one = dispatched); the factory stubs keep the real signatures', "type(x) is str is shadowed so that the symbolic str subclass counts as str"]
    return common.finish(ev, violations, sorted(dict(known_hits).items()), herr, inconc)
