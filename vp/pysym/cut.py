class Cut(BaseException):
    """Ends a path on purpose (BaseException: not catchable by the repo's `except Exception`/ArithmeticError)."""
