"""Engine P shim: a pure-Python reference model of cvxopt.base.matrix / spmatrix and of
the blas / lapack / base functions the solver and modeling modules call, with cvxopt's
calling convention, over arbitrary cell types (python numbers or SymReal).

Written from doc/source/matrices.rst and doc/source/blas.rst; kept honest by differential
validation against a real build of /repo on every run (vp/pysym/validate.py).
Any feature that is not modelled raises NotImplementedError (-> harness error, never a
silent guess).
"""
import types, builtins, math as _math
from . import sym
from .sym import SymReal, SymInt, is_sym, T

class ReadOnlyViolation(Exception):
    """A matrix marked read-only (a caller's input) was written."""

def _isnum(v):
    return isinstance(v, (int, float)) and not isinstance(v, bool) or isinstance(v, bool)

def _tc_of(v):
    if isinstance(v, bool): return 'i'
    if isinstance(v, SymInt): return 'i'
    if isinstance(v, int): return 'i'
    if isinstance(v, float): return 'd'
    if isinstance(v, complex): return 'z'
    raise TypeError('invalid type in list')

def _conv(v, tc):
    if tc == 'd':
        if isinstance(v, float): return v
        if isinstance(v, SymInt): return SymReal(T(v))
        if isinstance(v, int): return float(v)
        raise TypeError('cannot convert to d')
    if tc == 'i':
        if isinstance(v, float): raise TypeError('cannot convert float to int')
        return v
    raise NotImplementedError('typecode %r' % tc)

def sdiv(a, b):
    """C-level division: never raises (division by zero is inf/nan in C; here the z3 term
    a/b, total and unconstrained at b = 0)."""
    if is_sym(a) or is_sym(b):
        return SymReal(T(a) / T(b))
    if b == 0:
        if a == 0 or a != a: return float('nan')
        return float('inf') if (a > 0) else float('-inf')
    return a / b

class matrix(object):
    __slots__ = ('v', '_size', 'typecode', '_ro', '__weakref__')
    __array_priority__ = 0

    def __init__(self, x=None, size=None, tc=None):
        self._ro = False
        if tc not in (None, 'i', 'd'):
            if tc == 'z': raise NotImplementedError('complex matrices are not modelled')
            raise TypeError("tc must be 'i', 'd' or 'z'")
        if size is not None:
            if not (isinstance(size, tuple) and len(size) == 2 and
                    all(isinstance(k, int) for k in size)):
                raise TypeError('invalid dimension tuple')
            if size[0] < 0 or size[1] < 0: raise TypeError('dimensions must be non-negative')
        if x is None:
            self.v = []; self._size = size or (0, 1) if size is None else size
            if size is not None and size[0]*size[1] != 0:
                raise NotImplementedError
            self.typecode = tc or 'i'
            return
        if isinstance(x, spmatrix):
            x = x._dense()
        if isinstance(x, matrix):
            t = tc or x.typecode
            if x.typecode == 'd' and t == 'i': raise TypeError('illegal type conversion')
            self.v = [_conv(e, t) for e in x.v]
            self.typecode = t
            if size is None: size = x.size
            if size[0]*size[1] != len(self.v): raise TypeError('wrong matrix dimensions')
            self._size = size
            return
        if isinstance(x, (int, float)) or is_sym(x):
            t = tc or _tc_of(x)
            if size is None: size = (1, 1)
            self.v = [_conv(x, t)] * (size[0]*size[1])
            self.typecode = t; self._size = size
            return
        if isinstance(x, (range, tuple)) or (hasattr(x, '__iter__') and not isinstance(x, (list, str))):
            x = list(x)
        if isinstance(x, list):
            if len(x) > 0 and all(isinstance(e, (list, tuple, matrix, spmatrix, range)) for e in x) \
                    and not all(isinstance(e, matrix) and False for e in x):
                # list of lists: each inner list is a column; list of matrices: block columns
                if all(isinstance(e, (list, tuple, range)) for e in x):
                    cols = [list(e) for e in x]
                    m = len(cols[0])
                    if any(len(c) != m for c in cols): raise TypeError('invalid list')
                    flat = [e for c in cols for e in c]
                    t = tc or ('d' if any(_tc_of(e) == 'd' for e in flat) else 'i')
                    self.v = [_conv(e, t) for e in flat]; self.typecode = t
                    sz = (m, len(cols))
                    if size is not None:
                        if size[0]*size[1] != len(flat): raise TypeError('wrong matrix dimensions')
                        sz = size
                    self._size = sz
                    return
                # block column of matrices stacked vertically
                blocks = [e._dense() if isinstance(e, spmatrix) else e for e in x]
                if not all(isinstance(b, matrix) for b in blocks): raise TypeError('invalid list')
                n = blocks[0].size[1]
                if any(b.size[1] != n for b in blocks): raise TypeError('incompatible dimensions')
                t = tc or ('d' if any(b.typecode == 'd' for b in blocks) else 'i')
                m = builtins.sum(b.size[0] for b in blocks)
                v = []
                for j in range(n):
                    for b in blocks:
                        v.extend(_conv(e, t) for e in b.v[j*b.size[0]:(j+1)*b.size[0]])
                self.v = v; self.typecode = t; self._size = (m, n)
                if size is not None:
                    if size[0]*size[1] != len(v): raise TypeError('wrong matrix dimensions')
                    self._size = size
                return
            t = tc or ('d' if any(_tc_of(e) == 'd' for e in x) else 'i')
            self.v = [_conv(e, t) for e in x]; self.typecode = t
            if size is None: size = (len(x), 1)
            if size[0]*size[1] != len(x): raise TypeError('wrong matrix dimensions')
            self._size = size
            return
        raise TypeError('invalid matrix initialization from %r' % type(x))

    # --- basic protocol
    def _get_size(self): return self._size
    def _set_size(self, sz):
        if not (isinstance(sz, tuple) and len(sz) == 2): raise TypeError('can only assign a 2-tuple to size')
        if sz[0]*sz[1] != len(self.v): raise TypeError('number of elements in matrix cannot change')
        self._size = (sz[0], sz[1])
    size = property(_get_size, _set_size)
    def __len__(self): return len(self.v)
    def __iter__(self): return iter(list(self.v))
    def __bool__(self): return len(self.v) > 0 and builtins.any(bool(e != 0) for e in self.v)
    def __repr__(self): return '<shim %dx%d %s %r>' % (self._size[0], self._size[1], self.typecode, self.v)
    __hash__ = object.__hash__
    def _w(self):
        if self._ro: raise ReadOnlyViolation('write to a read-only (input) matrix')
    @property
    def T(self): return self.trans()
    def trans(self):
        m, n = self._size
        r = matrix.__new__(matrix); r._ro = False; r.typecode = self.typecode
        r.v = [self.v[i + j*m] for i in range(m) for j in range(n)]
        r._size = (n, m)
        return r
    ctrans = trans
    @property
    def H(self): return self.trans()
    def real(self): return +self
    def imag(self): return matrix(0.0 if self.typecode == 'd' else 0, self._size)
    def __copy__(self): return matrix(self)
    def __deepcopy__(self, memo): return matrix(self)

    # --- indexing
    def _norm_index(self, k, dim):
        if isinstance(k, SymInt): raise sym.NaNLeak('symbolic index')
        if isinstance(k, bool): k = int(k)
        if isinstance(k, int):
            if k < -dim or k >= dim: raise IndexError('index out of range')
            return [k % dim] if dim else [], True
        if isinstance(k, slice):
            return list(range(*k.indices(dim))), False
        if isinstance(k, matrix):
            if k.typecode != 'i': raise TypeError('not an integer index list')
            k = list(k.v)
        if isinstance(k, (list, tuple, range)):
            out = []
            for i in k:
                if not isinstance(i, int): raise TypeError('non-integer index')
                if i < -dim or i >= dim: raise IndexError('index out of range')
                out.append(i % dim)
            return out, False
        raise TypeError('invalid index argument')

    def __getitem__(self, key):
        m, n = self._size
        if isinstance(key, tuple):
            if len(key) != 2: raise TypeError('invalid index')
            I, si = self._norm_index(key[0], m)
            J, sj = self._norm_index(key[1], n)
            if si and sj: return self.v[I[0] + J[0]*m]
            r = matrix.__new__(matrix); r._ro = False; r.typecode = self.typecode
            r.v = [self.v[i + j*m] for j in J for i in I]; r._size = (len(I), len(J))
            return r
        I, scalar = self._norm_index(key, len(self.v))
        if scalar: return self.v[I[0]]
        r = matrix.__new__(matrix); r._ro = False; r.typecode = self.typecode
        r.v = [self.v[i] for i in I]; r._size = (len(I), 1)
        return r

    def __setitem__(self, key, val):
        self._w()
        m, n = self._size
        if isinstance(val, spmatrix): val = val._dense()
        if isinstance(val, list): val = matrix(val)
        if isinstance(key, tuple):
            I, si = self._norm_index(key[0], m)
            J, sj = self._norm_index(key[1], n)
            idx = [i + j*m for j in J for i in I]
            shape = (len(I), len(J))
        else:
            idx, _ = self._norm_index(key, len(self.v))
            shape = (len(idx), 1)
        if isinstance(val, matrix):
            if val.typecode == 'd' and self.typecode == 'i': raise TypeError('invalid type in assignment')
            if val.size == (1, 1) and len(val.v) == 1 and shape != (1, 1):
                for p in idx: self.v[p] = _conv(val.v[0], self.typecode)
                return
            if val.size != shape:
                raise TypeError('incompatible size of assignment')
            for q, p in enumerate(idx): self.v[p] = _conv(val.v[q], self.typecode)
            return
        if isinstance(val, (int, float)):
            c = _conv(val, self.typecode)
            for p in idx: self.v[p] = c
            return
        raise TypeError('invalid type in assignment')

    # --- arithmetic
    @staticmethod
    def _res_tc(a, b):
        return 'd' if 'd' in (a, b) else 'i'
    def _binary(self, other, op, rev=False):
        if isinstance(other, spmatrix): other = other._dense()
        if isinstance(other, matrix):
            t = matrix._res_tc(self.typecode, other.typecode)
            if other.size == self.size:
                pairs = zip(self.v, other.v); size = self.size
            elif len(other.v) == 1:
                pairs = ((a, other.v[0]) for a in self.v); size = self.size
            elif len(self.v) == 1:
                pairs = ((self.v[0], b) for b in other.v); size = other.size
            else:
                raise TypeError('incompatible dimensions')
        elif isinstance(other, (int, float)):
            t = matrix._res_tc(self.typecode, _tc_of(other))
            pairs = ((a, other) for a in self.v); size = self.size
        else:
            return NotImplemented
        r = matrix.__new__(matrix); r._ro = False; r.typecode = t
        if rev: r.v = [op(_conv(b, t), _conv(a, t)) for a, b in pairs]
        else: r.v = [op(_conv(a, t), _conv(b, t)) for a, b in pairs]
        r._size = size
        return r
    def __add__(self, o): return self._binary(o, lambda a, b: a + b)
    def __radd__(self, o): return self._binary(o, lambda a, b: a + b, rev=True)
    def __sub__(self, o): return self._binary(o, lambda a, b: a - b)
    def __rsub__(self, o): return self._binary(o, lambda a, b: a - b, rev=True)
    def __neg__(self):
        r = matrix.__new__(matrix); r._ro = False; r.typecode = self.typecode
        r.v = [-a for a in self.v]; r._size = self.size; return r
    def __pos__(self): return matrix(self)
    def __abs__(self):
        r = matrix.__new__(matrix); r._ro = False; r.typecode = self.typecode
        r.v = [abs(a) for a in self.v]; r._size = self.size; return r
    def __mul__(self, o):
        if isinstance(o, spmatrix): o = o._dense()
        if isinstance(o, matrix):
            if len(o.v) == 1 and o.size == (1, 1) and self.size[1] != 1:
                return self._binary(o.v[0], lambda a, b: a * b)
            if len(self.v) == 1 and self.size == (1, 1) and o.size[0] != 1:
                return o._binary(self.v[0], lambda a, b: a * b, rev=True)
            if self.size[1] != o.size[0]: raise TypeError('incompatible dimensions')
            t = matrix._res_tc(self.typecode, o.typecode)
            m, k = self.size; n = o.size[1]
            r = matrix.__new__(matrix); r._ro = False; r.typecode = t
            zero = 0.0 if t == 'd' else 0
            v = []
            for j in range(n):
                for i in range(m):
                    acc = zero
                    for l in range(k):
                        acc = acc + _conv(self.v[i + l*m], t) * _conv(o.v[l + j*k], t)
                    v.append(acc)
            r.v = v; r._size = (m, n)
            return r
        if isinstance(o, (int, float)):
            return self._binary(o, lambda a, b: a * b)
        return NotImplemented
    def __rmul__(self, o):
        if isinstance(o, (int, float)):
            return self._binary(o, lambda a, b: a * b, rev=True)
        return NotImplemented
    def __truediv__(self, o):
        if isinstance(o, matrix):
            if len(o.v) != 1: raise TypeError('divisor must be a scalar or 1x1 matrix')
            o = o.v[0]
        if isinstance(o, (int, float)):
            if self.typecode == 'i' and _tc_of(o) == 'i':
                if o == 0: raise ZeroDivisionError('division by zero')
                return self._binary(o, lambda a, b: a // b)   # C integer division (validated for >=0)
            if not is_sym(o) and o == 0: raise ZeroDivisionError('division by zero')
            return self._binary(o, lambda a, b: sdiv(a, b))
        return NotImplemented
    def __pow__(self, k):
        if not isinstance(k, (int, float)): return NotImplemented
        r = matrix.__new__(matrix); r._ro = False
        r.typecode = matrix._res_tc(self.typecode, _tc_of(k))
        if k == -1 and r.typecode == 'd':
            r.v = [sdiv(1.0, _conv(a, 'd')) for a in self.v]
        else:
            r.v = [_conv(a, r.typecode) ** k for a in self.v]
        r._size = self.size
        return r
    def _inplace(self, o, op):
        self._w()
        r = op(o)
        if r is NotImplemented: return r
        if r.typecode != self.typecode or r.size != self.size:
            raise TypeError('in-place operation would change type or size')
        self.v = r.v
        return self
    def __iadd__(self, o): return self._inplace(o, self.__add__)
    def __isub__(self, o): return self._inplace(o, self.__sub__)
    def __imul__(self, o): return self._inplace(o, self.__mul__)
    def __itruediv__(self, o): return self._inplace(o, self.__truediv__)


class spmatrix(object):
    """Sparse shim: dense image (column-major list) + structural pattern."""
    __slots__ = ('v', 'pat', '_size', 'typecode', '_ro', '__weakref__')
    def __init__(self, V, I, J, size=None, tc=None):
        self._ro = False
        if isinstance(V, matrix): V = list(V.v)
        elif isinstance(V, (int, float)): V = [V] * len(list(I))
        else: V = list(V)
        I = list(I.v) if isinstance(I, matrix) else list(I)
        J = list(J.v) if isinstance(J, matrix) else list(J)
        if not (len(V) == len(I) == len(J)): raise TypeError('dimensions of V, I, J not consistent')
        if size is None:
            size = (builtins.max(I) + 1 if I else 0, builtins.max(J) + 1 if J else 0)
        m, n = size
        for i, j in zip(I, J):
            if not (0 <= i < m and 0 <= j < n): raise TypeError('index out of range')
        t = tc or 'd'
        if t != 'd': raise NotImplementedError('sparse typecode %r' % t)
        self.typecode = 'd'
        self._size = (m, n)
        self.v = [0.0] * (m*n); self.pat = [False] * (m*n)
        for a, i, j in zip(V, I, J):
            p = i + j*m
            self.v[p] = (self.v[p] + _conv(a, 'd')) if self.pat[p] else _conv(a, 'd')
            self.pat[p] = True
    size = property(lambda self: self._size)
    def __len__(self): return builtins.sum(1 for p in self.pat if p)
    def _dense(self):
        r = matrix.__new__(matrix); r._ro = False; r.typecode = 'd'
        r.v = list(self.v); r._size = self._size
        return r
    @classmethod
    def _from_dense(cls, M, pat=None):
        r = cls([], [], [], M.size)
        r.v = [_conv(e, 'd') for e in M.v]
        r.pat = list(pat) if pat is not None else [True] * len(M.v)
        return r
    def trans(self):
        d = self._dense().trans()
        m, n = self._size
        pat = [self.pat[i + j*m] for i in range(m) for j in range(n)]
        return spmatrix._from_dense(d, pat)
    T = property(trans)
    ctrans = trans
    def __getitem__(self, key):
        d = self._dense()
        r = d[key]
        if isinstance(r, matrix):
            pm = matrix.__new__(matrix); pm._ro = False; pm.typecode = 'i'
            pm.v = [1 if p else 0 for p in self.pat]; pm._size = self._size
            pp = pm[key]
            return spmatrix._from_dense(r, [bool(e) for e in pp.v])
        return r
    def __setitem__(self, key, val):
        if self._ro: raise ReadOnlyViolation('write to a read-only (input) matrix')
        d = self._dense()
        pm = matrix.__new__(matrix); pm._ro = False; pm.typecode = 'i'
        pm.v = [1 if p else 0 for p in self.pat]; pm._size = self._size
        if isinstance(val, spmatrix):
            vp = matrix.__new__(matrix); vp._ro = False; vp.typecode = 'i'
            vp.v = [1 if p else 0 for p in val.pat]; vp._size = val._size
            d[key] = val._dense(); pm[key] = vp
        else:
            d[key] = val
            pm[key] = 1
        self.v = [_conv(e, 'd') for e in d.v]; self.pat = [bool(e) for e in pm.v]
    def __iadd__(self, o):
        r = self.__add__(o)
        if isinstance(r, spmatrix): self.v, self.pat = r.v, r.pat; return self
        raise TypeError('in-place operation would change type')
    def __isub__(self, o):
        r = self.__sub__(o)
        if isinstance(r, spmatrix): self.v, self.pat = r.v, r.pat; return self
        raise TypeError('in-place operation would change type')
    def __imul__(self, o):
        r = self.__mul__(o)
        if isinstance(r, spmatrix) and r._size == self._size: self.v, self.pat = r.v, r.pat; return self
        raise TypeError('in-place operation would change type or size')
    def __itruediv__(self, o):
        r = self.__truediv__(o)
        if isinstance(r, spmatrix): self.v, self.pat = r.v, r.pat; return self
        raise TypeError('in-place operation would change type')
    def __abs__(self):
        return spmatrix._from_dense(abs(self._dense()), self.pat)
    def __iter__(self):
        return iter([self.v[p] for p in range(len(self.v)) if self.pat[p]])
    def __bool__(self): return any(self.pat)
    @property
    def V(self):
        return matrix([self.v[p] for p in range(len(self.v)) if self.pat[p]], tc='d') if any(self.pat) else matrix(0.0, (0, 1))
    @property
    def I(self):
        m = self._size[0]
        return matrix([p % m for p in range(len(self.v)) if self.pat[p]], tc='i') if any(self.pat) else matrix(0, (0, 1))
    @property
    def J(self):
        m = self._size[0]
        return matrix([p // m for p in range(len(self.v)) if self.pat[p]], tc='i') if any(self.pat) else matrix(0, (0, 1))
    def __neg__(self):
        return spmatrix._from_dense(-self._dense(), self.pat)
    def __pos__(self):
        return spmatrix._from_dense(self._dense(), self.pat)
    def __mul__(self, o):
        if isinstance(o, matrix) and o.size == (1, 1) and self._size[1] != 1:
            o = o.v[0]                      # 1x1 dense matrix acts as a scalar: result stays sparse
        if isinstance(o, (int, float)):
            return spmatrix._from_dense(self._dense() * o, self.pat)
        if isinstance(o, spmatrix):
            if self._size == (1, 1) or o._size == (1, 1): raise NotImplementedError
            d = self._dense() * o._dense()
            m, k = self._size; n = o._size[1]
            pat = [builtins.any(self.pat[i + l*m] and o.pat[l + j*k] for l in range(k))
                   for j in range(n) for i in range(m)]
            return spmatrix._from_dense(d, pat)
        if isinstance(o, matrix):
            return self._dense() * o
        return NotImplemented
    def __rmul__(self, o):
        if isinstance(o, matrix) and o.size == (1, 1) and self._size[0] != 1:
            o = o.v[0]
        if isinstance(o, (int, float)):
            return spmatrix._from_dense(o * self._dense(), self.pat)
        if isinstance(o, matrix):
            return o * self._dense()
        return NotImplemented
    def __add__(self, o):
        if isinstance(o, spmatrix):
            if self._size != o._size: raise TypeError('incompatible dimensions')
            return spmatrix._from_dense(self._dense() + o._dense(),
                                        [a or b for a, b in zip(self.pat, o.pat)])
        if isinstance(o, (matrix, int, float)):
            return self._dense() + o
        return NotImplemented
    def __radd__(self, o):
        if isinstance(o, (matrix, int, float)): return o + self._dense()
        return NotImplemented
    def __sub__(self, o):
        if isinstance(o, spmatrix):
            if self._size != o._size: raise TypeError('incompatible dimensions')
            return spmatrix._from_dense(self._dense() - o._dense(),
                                        [a or b for a, b in zip(self.pat, o.pat)])
        if isinstance(o, (matrix, int, float)):
            return self._dense() - o
        return NotImplemented
    def __rsub__(self, o):
        if isinstance(o, (matrix, int, float)): return o - self._dense()
        return NotImplemented
    def __truediv__(self, o):
        if isinstance(o, matrix) and len(o.v) == 1: o = o.v[0]
        if isinstance(o, (int, float)):
            return spmatrix._from_dense(self._dense() / o, self.pat)
        return NotImplemented
    def __repr__(self): return '<shim sparse %dx%d>' % self._size
    __hash__ = object.__hash__


# ------------------------------------------------------------------------------- blas

def _dflt_n(n, L, off, inc):
    if inc == 0: raise ValueError('inc must be a nonzero integer')
    if off < 0: raise ValueError('offset must be a nonnegative integer')
    if n is None or n < 0:
        n = 1 + (L - off - 1)//abs(inc) if L >= off + 1 else 0
    return n

def _chk(M, off, n, inc, what='x'):
    if inc < 0: raise NotImplementedError('negative increments are not modelled')
    if n > 0 and len(M.v) < off + 1 + (n - 1)*abs(inc):
        raise ValueError('length of %s is too small' % what)

def _dmat(x, nm='x'):
    if not isinstance(x, matrix): raise TypeError('%s must be a matrix' % nm)
    if x.typecode != 'd': raise TypeError("%s must be a 'd' matrix" % nm)

def b_copy(x, y, n=-1, incx=1, incy=1, offsetx=0, offsety=0):
    _dmat(x); _dmat(y, 'y')
    n = _dflt_n(n, len(x.v), offsetx, incx)
    if n == 0: return
    _chk(x, offsetx, n, incx); _chk(y, offsety, n, incy, 'y')
    y._w()
    vals = [x.v[offsetx + i*incx] for i in range(n)]
    for i in range(n): y.v[offsety + i*incy] = vals[i]

def b_scal(alpha, x, n=-1, inc=1, offset=0):
    _dmat(x)
    if not isinstance(alpha, (int, float)): raise TypeError('incompatible type for alpha')
    if inc <= 0: raise ValueError('inc must be a positive integer')
    n = _dflt_n(n, len(x.v), offset, inc)
    if n == 0: return
    _chk(x, offset, n, inc)
    x._w()
    a = _conv(alpha, 'd')
    for i in range(n):
        p = offset + i*inc
        x.v[p] = a * x.v[p]

def b_axpy(x, y, alpha=1.0, n=-1, incx=1, incy=1, offsetx=0, offsety=0):
    _dmat(x); _dmat(y, 'y')
    n = _dflt_n(n, len(x.v), offsetx, incx)
    if n == 0: return
    _chk(x, offsetx, n, incx); _chk(y, offsety, n, incy, 'y')
    y._w()
    a = _conv(alpha, 'd')
    vals = [x.v[offsetx + i*incx] for i in range(n)]
    for i in range(n):
        p = offsety + i*incy
        y.v[p] = y.v[p] + a * vals[i]

def b_dot(x, y, n=-1, incx=1, incy=1, offsetx=0, offsety=0):
    _dmat(x); _dmat(y, 'y')
    if n is None or n < 0:
        nx = _dflt_n(-1, len(x.v), offsetx, incx)
        ny = _dflt_n(-1, len(y.v), offsety, incy)
        if nx != ny: raise ValueError('arrays have unequal default lengths')
        n = nx
    if n == 0: return 0.0
    _chk(x, offsetx, n, incx); _chk(y, offsety, n, incy, 'y')
    acc = 0.0
    for i in range(n):
        acc = acc + x.v[offsetx + i*incx] * y.v[offsety + i*incy]
    return acc
b_dotu = b_dot

def b_nrm2(x, n=-1, inc=1, offset=0):
    _dmat(x)
    if inc <= 0: raise ValueError('inc must be a positive integer')
    n = _dflt_n(n, len(x.v), offset, inc)
    if n == 0: return 0.0
    _chk(x, offset, n, inc)
    acc = 0.0
    for i in range(n):
        e = x.v[offset + i*inc]
        acc = acc + e * e
    return sym.sym_sqrt(acc)

def b_asum(x, n=-1, inc=1, offset=0):
    _dmat(x)
    n = _dflt_n(n, len(x.v), offset, inc)
    acc = 0.0
    for i in range(n): acc = acc + abs(x.v[offset + i*inc])
    return acc

def b_tbmv(A, x, uplo='L', trans='N', diag='N', n=-1, k=-1, ldA=0, incx=1, offsetA=0, offsetx=0):
    _dmat(A, 'A'); _dmat(x)
    if n is None or n < 0: n = A.size[1]
    if n == 0: return
    if k is None or k < 0: k = builtins.max(0, A.size[0] - 1)
    if ldA == 0: ldA = A.size[0]
    if ldA < k + 1: raise ValueError('illegal value of ldA')
    if k != 0: raise NotImplementedError('tbmv with k > 0')
    if len(A.v) < offsetA + (n - 1)*ldA + k + 1: raise ValueError('length of A is too small')
    _chk(x, offsetx, n, incx)
    x._w()
    for i in range(n):
        p = offsetx + i*incx
        x.v[p] = (A.v[offsetA + i*ldA] * x.v[p]) if diag == 'N' else x.v[p]

def b_tbsv(A, x, uplo='L', trans='N', diag='N', n=-1, k=-1, ldA=0, incx=1, offsetA=0, offsetx=0):
    _dmat(A, 'A'); _dmat(x)
    if n is None or n < 0: n = A.size[1]
    if n == 0: return
    if k is None or k < 0: k = builtins.max(0, A.size[0] - 1)
    if ldA == 0: ldA = A.size[0]
    if ldA < k + 1: raise ValueError('illegal value of ldA')
    if k != 0: raise NotImplementedError('tbsv with k > 0')
    if len(A.v) < offsetA + (n - 1)*ldA + k + 1: raise ValueError('length of A is too small')
    _chk(x, offsetx, n, incx)
    x._w()
    for i in range(n):
        p = offsetx + i*incx
        x.v[p] = sdiv(x.v[p], A.v[offsetA + i*ldA]) if diag == 'N' else x.v[p]

def b_gemv(A, x, y, trans='N', alpha=1.0, beta=0.0, m=-1, n=-1, ldA=0, incx=1, incy=1,
           offsetA=0, offsetx=0, offsety=0):
    _dmat(A, 'A'); _dmat(x); _dmat(y, 'y')
    if trans not in ('N', 'T', 'C'): raise ValueError("possible values of trans are: 'N', 'T', 'C'")
    if m is None or m < 0: m = A.size[0]
    if n is None or n < 0: n = A.size[1]
    if (m == 0 and trans == 'N') or (n == 0 and trans != 'N'): return
    if ldA == 0: ldA = builtins.max(1, A.size[0])
    if ldA < builtins.max(1, m): raise ValueError('illegal value of ldA')
    if n > 0 and m > 0 and len(A.v) < offsetA + (n - 1)*ldA + m: raise ValueError('length of A is too small')
    lx, ly = (n, m) if trans == 'N' else (m, n)
    _chk(x, offsetx, lx, incx); _chk(y, offsety, ly, incy, 'y')
    y._w()
    a, b = _conv(alpha, 'd'), _conv(beta, 'd')
    xs = [x.v[offsetx + i*incx] for i in range(lx)]
    out = []
    for i in range(ly):
        acc = 0.0
        for j in range(lx):
            e = A.v[offsetA + i + j*ldA] if trans == 'N' else A.v[offsetA + j + i*ldA]
            acc = acc + e * xs[j]
        p = offsety + i*incy
        if not is_sym(b) and b == 0.0: out.append(a * acc)
        else: out.append(a * acc + b * y.v[p])
    for i in range(ly): y.v[offsety + i*incy] = out[i]

def b_ger(x, y, A, alpha=1.0, m=-1, n=-1, incx=1, incy=1, ldA=0, offsetx=0, offsety=0, offsetA=0):
    _dmat(A, 'A'); _dmat(x); _dmat(y, 'y')
    if m is None or m < 0: m = A.size[0]
    if n is None or n < 0: n = A.size[1]
    if m == 0 or n == 0: return
    if ldA == 0: ldA = builtins.max(1, A.size[0])
    if ldA < builtins.max(1, m): raise ValueError('illegal value of ldA')
    if len(A.v) < offsetA + (n - 1)*ldA + m: raise ValueError('length of A is too small')
    _chk(x, offsetx, m, incx); _chk(y, offsety, n, incy, 'y')
    A._w()
    a = _conv(alpha, 'd')
    xs = [x.v[offsetx + i*incx] for i in range(m)]
    ys = [y.v[offsety + j*incy] for j in range(n)]
    for j in range(n):
        for i in range(m):
            p = offsetA + i + j*ldA
            A.v[p] = A.v[p] + a * xs[i] * ys[j]

def _tri(A, offA, ldA, n, uplo, diag, i, j):
    """entry (i,j) of the triangular matrix stored in A."""
    if i == j: return 1.0 if diag == 'U' else A.v[offA + i + j*ldA]
    if (uplo == 'L' and i > j) or (uplo == 'U' and i < j): return A.v[offA + i + j*ldA]
    return 0.0

def b_trmm(A, B, side='L', uplo='L', transA='N', diag='N', alpha=1.0, m=-1, n=-1, ldA=0, ldB=0,
           offsetA=0, offsetB=0):
    _dmat(A, 'A'); _dmat(B, 'B')
    if n is None or n < 0:
        n = A.size[0] if side == 'R' else B.size[1]
    if m is None or m < 0:
        m = A.size[0] if side == 'L' else B.size[0]
    if m == 0 or n == 0: return
    if ldA == 0: ldA = builtins.max(1, A.size[0])
    if ldB == 0: ldB = builtins.max(1, B.size[0])
    k = m if side == 'L' else n
    if ldA < builtins.max(1, k): raise ValueError('illegal value of ldA')
    if ldB < builtins.max(1, m): raise ValueError('illegal value of ldB')
    if len(A.v) < offsetA + (k - 1)*ldA + k: raise ValueError('length of A is too small')
    if len(B.v) < offsetB + (n - 1)*ldB + m: raise ValueError('length of B is too small')
    B._w()
    a = _conv(alpha, 'd')
    def opA(i, j):
        return _tri(A, offsetA, ldA, k, uplo, diag, i, j) if transA == 'N' else \
               _tri(A, offsetA, ldA, k, uplo, diag, j, i)
    Bv = [[B.v[offsetB + i + j*ldB] for j in range(n)] for i in range(m)]
    out = [[0.0]*n for _ in range(m)]
    for i in range(m):
        for j in range(n):
            acc = 0.0
            if side == 'L':
                for l in range(m):
                    e = opA(i, l)
                    if not is_sym(e) and e == 0.0: continue
                    acc = acc + e * Bv[l][j]
            else:
                for l in range(n):
                    e = opA(l, j)
                    if not is_sym(e) and e == 0.0: continue
                    acc = acc + Bv[i][l] * e
            out[i][j] = a * acc
    for i in range(m):
        for j in range(n): B.v[offsetB + i + j*ldB] = out[i][j]

def b_trsm(A, B, side='L', uplo='L', transA='N', diag='N', alpha=1.0, m=-1, n=-1, ldA=0, ldB=0,
           offsetA=0, offsetB=0):
    """B := alpha * op(A)^{-1} B (side L) or alpha * B op(A)^{-1} (side R): forward/back
    substitution on the cells (divisions are C-level, non-raising)."""
    _dmat(A, 'A'); _dmat(B, 'B')
    if n is None or n < 0:
        n = A.size[0] if side == 'R' else B.size[1]
    if m is None or m < 0:
        m = A.size[0] if side == 'L' else B.size[0]
    if m == 0 or n == 0: return
    if ldA == 0: ldA = builtins.max(1, A.size[0])
    if ldB == 0: ldB = builtins.max(1, B.size[0])
    k = m if side == 'L' else n
    if len(A.v) < offsetA + (k - 1)*ldA + k: raise ValueError('length of A is too small')
    if len(B.v) < offsetB + (n - 1)*ldB + m: raise ValueError('length of B is too small')
    B._w()
    a = _conv(alpha, 'd')
    def opA(i, j):
        return _tri(A, offsetA, ldA, k, uplo, diag, i, j) if transA == 'N' else \
               _tri(A, offsetA, ldA, k, uplo, diag, j, i)
    lower = (uplo == 'L') == (transA == 'N')      # op(A) lower triangular?
    if side == 'L':
        for j in range(n):
            col = [a * B.v[offsetB + i + j*ldB] for i in range(m)]
            order = range(m) if lower else range(m - 1, -1, -1)
            sol = [None]*m
            for i in order:
                acc = col[i]
                rng = range(0, i) if lower else range(i + 1, m)
                for l in rng: acc = acc - opA(i, l) * sol[l]
                sol[i] = sdiv(acc, opA(i, i))
            for i in range(m): B.v[offsetB + i + j*ldB] = sol[i]
    else:
        # X op(A) = alpha B  ->  op(A)' X' = alpha B'
        for i in range(m):
            row = [a * B.v[offsetB + i + j*ldB] for j in range(n)]
            # op(A)' is lower iff op(A) is upper
            lowT = not lower
            order = range(n) if lowT else range(n - 1, -1, -1)
            sol = [None]*n
            for j in order:
                acc = row[j]
                rng = range(0, j) if lowT else range(j + 1, n)
                for l in rng: acc = acc - opA(l, j) * sol[l]
                sol[j] = sdiv(acc, opA(j, j))
            for j in range(n): B.v[offsetB + i + j*ldB] = sol[j]

def b_trsv(A, x, uplo='L', trans='N', diag='N', n=-1, ldA=0, incx=1, offsetA=0, offsetx=0):
    _dmat(A, 'A'); _dmat(x)
    if n is None or n < 0: n = A.size[0]
    if n == 0: return
    if ldA == 0: ldA = builtins.max(1, A.size[0])
    _chk(x, offsetx, n, incx)
    X = matrix([x.v[offsetx + i*incx] for i in range(n)], (n, 1))
    b_trsm(A, X, side='L', uplo=uplo, transA=trans, diag=diag, m=n, n=1, ldA=ldA, ldB=builtins.max(1, n),
           offsetA=offsetA)
    x._w()
    for i in range(n): x.v[offsetx + i*incx] = X.v[i]

def b_gemm(A, B, C, transA='N', transB='N', alpha=1.0, beta=0.0, m=-1, n=-1, k=-1, ldA=0, ldB=0,
           ldC=0, offsetA=0, offsetB=0, offsetC=0):
    _dmat(A, 'A'); _dmat(B, 'B'); _dmat(C, 'C')
    if m is None or m < 0: m = A.size[0] if transA == 'N' else A.size[1]
    if n is None or n < 0: n = B.size[1] if transB == 'N' else B.size[0]
    if k is None or k < 0:
        k = A.size[1] if transA == 'N' else A.size[0]
        kb = B.size[0] if transB == 'N' else B.size[1]
        if k != kb: raise TypeError('dimensions of A and B do not match')
    if m == 0 or n == 0: return
    if ldA == 0: ldA = builtins.max(1, A.size[0])
    if ldB == 0: ldB = builtins.max(1, B.size[0])
    if ldC == 0: ldC = builtins.max(1, C.size[0])
    C._w()
    a, b = _conv(alpha, 'd'), _conv(beta, 'd')
    def ea(i, l): return A.v[offsetA + i + l*ldA] if transA == 'N' else A.v[offsetA + l + i*ldA]
    def eb(l, j): return B.v[offsetB + l + j*ldB] if transB == 'N' else B.v[offsetB + j + l*ldB]
    if k > 0:
        na = (k - 1)*ldA + m if transA == 'N' else (m - 1)*ldA + k
        nb = (n - 1)*ldB + k if transB == 'N' else (k - 1)*ldB + n
        if len(A.v) < offsetA + na: raise ValueError('length of A is too small')
        if len(B.v) < offsetB + nb: raise ValueError('length of B is too small')
    if len(C.v) < offsetC + (n - 1)*ldC + m: raise ValueError('length of C is too small')
    out = {}
    for j in range(n):
        for i in range(m):
            acc = 0.0
            for l in range(k): acc = acc + ea(i, l) * eb(l, j)
            p = offsetC + i + j*ldC
            out[p] = a*acc if (not is_sym(b) and b == 0.0) else a*acc + b*C.v[p]
    for p, val in out.items(): C.v[p] = val

def b_syrk(A, C, uplo='L', trans='N', alpha=1.0, beta=0.0, n=-1, k=-1, ldA=0, ldC=0, offsetA=0, offsetC=0):
    _dmat(A, 'A'); _dmat(C, 'C')
    if n is None or n < 0: n = A.size[0] if trans == 'N' else A.size[1]
    if k is None or k < 0: k = A.size[1] if trans == 'N' else A.size[0]
    if n == 0: return
    if ldA == 0: ldA = builtins.max(1, A.size[0])
    if ldC == 0: ldC = builtins.max(1, C.size[0])
    C._w()
    a, b = _conv(alpha, 'd'), _conv(beta, 'd')
    def ea(i, l): return A.v[offsetA + i + l*ldA] if trans == 'N' else A.v[offsetA + l + i*ldA]
    out = {}
    for j in range(n):
        for i in range(n):
            if (uplo == 'L' and i < j) or (uplo == 'U' and i > j): continue
            acc = 0.0
            for l in range(k): acc = acc + ea(i, l) * ea(j, l)
            p = offsetC + i + j*ldC
            out[p] = a*acc if (not is_sym(b) and b == 0.0) else a*acc + b*C.v[p]
    for p, val in out.items(): C.v[p] = val

def b_syr2k(A, B, C, uplo='L', trans='N', alpha=1.0, beta=0.0, n=-1, k=-1, ldA=0, ldB=0, ldC=0,
            offsetA=0, offsetB=0, offsetC=0):
    _dmat(A, 'A'); _dmat(B, 'B'); _dmat(C, 'C')
    if n is None or n < 0: n = A.size[0] if trans == 'N' else A.size[1]
    if k is None or k < 0: k = A.size[1] if trans == 'N' else A.size[0]
    if n == 0: return
    if ldA == 0: ldA = builtins.max(1, A.size[0])
    if ldB == 0: ldB = builtins.max(1, B.size[0])
    if ldC == 0: ldC = builtins.max(1, C.size[0])
    C._w()
    a, b = _conv(alpha, 'd'), _conv(beta, 'd')
    def ea(M, off, ld, i, l): return M.v[off + i + l*ld] if trans == 'N' else M.v[off + l + i*ld]
    out = {}
    for j in range(n):
        for i in range(n):
            if (uplo == 'L' and i < j) or (uplo == 'U' and i > j): continue
            acc = 0.0
            for l in range(k):
                acc = acc + ea(A, offsetA, ldA, i, l) * ea(B, offsetB, ldB, j, l) \
                          + ea(B, offsetB, ldB, i, l) * ea(A, offsetA, ldA, j, l)
            p = offsetC + i + j*ldC
            out[p] = a*acc if (not is_sym(b) and b == 0.0) else a*acc + b*C.v[p]
    for p, val in out.items(): C.v[p] = val

def make_blas():
    m = types.ModuleType('cvxopt.blas')
    for k, f in list(globals().items()):
        if k.startswith('b_'): setattr(m, k[2:], f)
    return m

# ------------------------------------------------------------------------------- base

def base_gemv(A, x, y, trans='N', alpha=1.0, beta=0.0, m=-1, n=-1, incx=1, incy=1,
              offsetA=0, offsetx=0, offsety=0):
    if isinstance(A, spmatrix):
        Ad = A._dense()
    elif isinstance(A, matrix):
        Ad = A
    else:
        raise TypeError('A must be a dense or sparse matrix')
    _dmat(x); _dmat(y, 'y')
    if Ad.typecode != 'd': raise TypeError('conflicting types for matrix arguments')
    if trans not in ('N', 'T', 'C'): raise ValueError("possible values of trans are: 'N', 'T', 'C'")
    if incx == 0: raise ValueError('incx must be a nonzero integer')
    if incy == 0: raise ValueError('incy must be a nonzero integer')
    if m is None or m < 0: m = Ad.size[0]
    if n is None or n < 0: n = Ad.size[1]
    if (m == 0 and trans == 'N') or (n == 0 and trans != 'N'): return
    if offsetA < 0: raise ValueError('offsetA must be a nonnegative integer')
    ldA = builtins.max(1, Ad.size[0])
    if isinstance(A, spmatrix):
        if offsetA != 0 and False: raise NotImplementedError
        # sparse: offsetA addresses (offsetA % nrows, offsetA // nrows) sub-block
        i0, j0 = (offsetA % Ad.size[0], offsetA // Ad.size[0]) if Ad.size[0] else (0, 0)
        if i0 + m > Ad.size[0] or j0 + n > Ad.size[1]: raise ValueError('length of A is too small')
    else:
        if n > 0 and m > 0 and offsetA + (n - 1)*ldA + m > len(Ad.v): raise ValueError('length of A is too small')
    if offsetx < 0: raise ValueError('offsetx must be a nonnegative integer')
    if offsety < 0: raise ValueError('offsety must be a nonnegative integer')
    lx, ly = (n, m) if trans == 'N' else (m, n)
    if lx > 0 and offsetx + (lx - 1)*abs(incx) + 1 > len(x.v): raise ValueError('length of x is too small')
    if ly > 0 and offsety + (ly - 1)*abs(incy) + 1 > len(y.v): raise ValueError('length of y is too small')
    b_gemv(Ad, x, y, trans=trans, alpha=alpha, beta=beta, m=m, n=n, ldA=ldA, incx=incx, incy=incy,
           offsetA=offsetA, offsetx=offsetx, offsety=offsety)

def base_symv(A, x, y, uplo='L', alpha=1.0, beta=0.0, n=-1, ldA=0, incx=1, incy=1,
              offsetA=0, offsetx=0, offsety=0):
    Ad = A._dense() if isinstance(A, spmatrix) else A
    _dmat(Ad, 'A'); _dmat(x); _dmat(y, 'y')
    if Ad.size[0] != Ad.size[1]: raise ValueError('A must be square')
    if n is None or n < 0: n = Ad.size[0]
    if n == 0: return
    if ldA == 0: ldA = builtins.max(1, Ad.size[0])
    _chk(x, offsetx, n, incx); _chk(y, offsety, n, incy, 'y')
    y._w()
    a, b = _conv(alpha, 'd'), _conv(beta, 'd')
    def e(i, j):
        if (uplo == 'L') == (i >= j): return Ad.v[offsetA + i + j*ldA]
        return Ad.v[offsetA + j + i*ldA]
    xs = [x.v[offsetx + i*incx] for i in range(n)]
    out = []
    for i in range(n):
        acc = 0.0
        for j in range(n): acc = acc + e(i, j) * xs[j]
        p = offsety + i*incy
        out.append(a*acc if (not is_sym(b) and b == 0.0) else a*acc + b*y.v[p])
    for i in range(n): y.v[offsety + i*incy] = out[i]

def base_gemm(A, B, C, transA='N', transB='N', alpha=1.0, beta=0.0, partial=False):
    Ad = A._dense() if isinstance(A, spmatrix) else A
    Bd = B._dense() if isinstance(B, spmatrix) else B
    if isinstance(C, spmatrix): raise NotImplementedError('sparse C in base.gemm')
    b_gemm(Ad, Bd, C, transA=transA, transB=transB, alpha=alpha, beta=beta)

def base_syrk(A, C, uplo='L', trans='N', alpha=1.0, beta=0.0, partial=False):
    Ad = A._dense() if isinstance(A, spmatrix) else A
    if isinstance(C, spmatrix): raise NotImplementedError('sparse C in base.syrk')
    b_syrk(Ad, C, uplo=uplo, trans=trans, alpha=alpha, beta=beta)

def _elementwise(f):
    def g(x):
        if isinstance(x, matrix):
            r = matrix.__new__(matrix); r._ro = False; r.typecode = 'd'
            r.v = [f(_conv(e, 'd')) for e in x.v]; r._size = x.size
            return r
        return f(x)
    return g

def _sqrt1(v):
    if is_sym(v): return sym.sym_sqrt(v)
    if v < 0: raise ValueError('domain error')
    return _math.sqrt(v)
base_sqrt = _elementwise(_sqrt1)

def base_mul(x, y=None):
    if y is None: raise NotImplementedError
    return x._binary(y, lambda a, b: a * b)

def base_div(x, y):
    if isinstance(x, matrix): return x._binary(y, lambda a, b: sdiv(a, b))
    return y._binary(x, lambda a, b: sdiv(a, b), rev=True)

def base_sparse(x, tc=None):
    if isinstance(x, spmatrix): return spmatrix._from_dense(x._dense(), x.pat)
    if isinstance(x, matrix):
        pat = [bool(is_sym(e) or e != 0) for e in x.v]
        return spmatrix._from_dense(x, pat)
    if isinstance(x, list):
        # list of lists of blocks: each inner list is a block column
        cols = []
        for col in x:
            if not isinstance(col, list): col = [col]
            blocks = [b if isinstance(b, spmatrix) else base_sparse(b) for b in col]
            n = blocks[0].size[1]
            if any(b.size[1] != n for b in blocks): raise TypeError('incompatible dimensions')
            cols.append(blocks)
        m = builtins.sum(b.size[0] for b in cols[0])
        if any(builtins.sum(b.size[0] for b in c) != m for c in cols): raise TypeError('incompatible dimensions')
        v, pat = [], []
        ncols = 0
        for blocks in cols:
            n = blocks[0].size[1]; ncols += n
            for j in range(n):
                for b in blocks:
                    mb = b.size[0]
                    v.extend(b.v[j*mb:(j+1)*mb]); pat.extend(b.pat[j*mb:(j+1)*mb])
        r = spmatrix([], [], [], (m, ncols)); r.v = v; r.pat = pat
        return r
    raise TypeError('invalid argument to sparse()')

def base_spdiag(x):
    if isinstance(x, matrix):
        n = len(x.v)
        return spmatrix(list(x.v), list(range(n)), list(range(n)), (n, n))
    raise NotImplementedError('spdiag of %r' % type(x))

def make_base():
    m = types.ModuleType('cvxopt.base')
    m.matrix = matrix; m.spmatrix = spmatrix
    m.gemv = base_gemv; m.symv = base_symv; m.gemm = base_gemm; m.syrk = base_syrk
    m.sqrt = base_sqrt; m.mul = base_mul; m.div = base_div
    m.sparse = base_sparse; m.spdiag = base_spdiag
    def _exp(x): raise NotImplementedError('base.exp on the shim')
    m.exp = _exp; m.log = _exp
    return m

# ------------------------------------------------------------------------------- lapack (contract stubs)

def l_syevr(A, W, jobz='N', range='A', uplo='L', vl=0.0, vu=0.0, il=1, iu=1, Z=None, n=-1, ldA=0,
            ldZ=0, abstol=0.0, offsetA=0, offsetW=0, offsetZ=0):
    """Only the use in misc.max_step is modelled: smallest eigenvalue (range='I', il=iu=1,
    jobz='N') of the symmetric matrix in the lower triangle.  Orders 0,1 exact, order 2 in
    closed form; larger orders are outside the encoding."""
    if n is None or n < 0: n = A.size[0]
    if n == 0: return 0
    if not (jobz == 'N' and range == 'I' and il == 1 and iu == 1 and uplo == 'L'):
        raise NotImplementedError('syevr configuration')
    if ldA == 0: ldA = builtins.max(1, A.size[0])
    W._w(); A._w()
    if n == 1:
        W.v[offsetW] = A.v[offsetA]
    elif n == 2:
        a, b, c = A.v[offsetA], A.v[offsetA + 1], A.v[offsetA + 1 + ldA]
        d = sym.sym_sqrt((a - c)*(a - c) + 4.0*b*b)
        W.v[offsetW] = 0.5*((a + c) - d)
    else:
        raise NotImplementedError('syevr of order %d' % n)
    return 1

def l_potrf(A, uplo='L', n=-1, ldA=0, offsetA=0):
    """Cholesky factor in closed form for orders <= 2 (lower storage); ArithmeticError when a pivot is not positive."""
    if n is None or n < 0: n = A.size[0]
    if n == 0: return
    if uplo != 'L' or n > 2: raise NotImplementedError('potrf of order %d / uplo %s' % (n, uplo))
    if ldA == 0: ldA = builtins.max(1, A.size[0])
    A._w()
    a = A.v[offsetA]
    if not (a > 0.0): raise ArithmeticError(1)
    l11 = sym.sym_sqrt(a); A.v[offsetA] = l11
    if n == 2:
        l21 = A.v[offsetA + 1] / l11; A.v[offsetA + 1] = l21
        c = A.v[offsetA + 1 + ldA] - l21*l21
        if not (c > 0.0): raise ArithmeticError(2)
        A.v[offsetA + 1 + ldA] = sym.sym_sqrt(c)

def l_gesvd(A, S, jobu='N', jobvt='N', U=None, Vt=None, m=-1, n=-1, ldA=0, ldU=0, ldVt=0, offsetA=0,
            offsetS=0, offsetU=0, offsetVt=0):
    """1 x 1 only: A = u*s*v with s = |a|, u = sign(a) (u = 1 for a = 0), v = 1; jobu='O' stores u in A."""
    if m is None or m < 0: m = A.size[0]
    if n is None or n < 0: n = A.size[1]
    if m == 0 or n == 0: return
    if m != 1 or n != 1 or jobvt != 'N' or jobu not in ('N', 'O'): raise NotImplementedError('gesvd configuration')
    A._w(); S._w()
    a = A.v[offsetA]
    if a >= 0.0: S.v[offsetS] = a; u = 1.0
    else: S.v[offsetS] = -a; u = -1.0
    if jobu == 'O': A.v[offsetA] = u

def make_lapack():
    m = types.ModuleType('cvxopt.lapack')
    m.syevr = l_syevr
    m.potrf = l_potrf; m.gesvd = l_gesvd
    def _ni(name):
        def f(*a, **k): raise NotImplementedError('lapack.%s on the shim' % name)
        return f
    for nm in ('syevd', 'potrs', 'sytrf', 'sytrs', 'trtrs', 'geqrf', 'ormqr',
               'gesv', 'posv', 'getrf', 'getrs', 'gels'):
        setattr(m, nm, _ni(nm))
    return m
