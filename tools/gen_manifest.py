#!/usr/bin/env python3
"""Generates MANIFEST.json from tools/manifest_src.py (single source of truth)."""
import json, os, sys
here = os.path.dirname(os.path.abspath(__file__))
sys.path.insert(0, here)
import manifest_src as S
props = [json.loads(l) for l in open(os.path.join(here, '..', 'properties.jsonl'))]
ids = [p['id'] for p in props]
checks = []
for pid in ids:
    if pid in S.CHECKS:
        c = S.CHECKS[pid]
        checks.append({
            'property_id': pid,
            'quick_cmd': 'python3-vt vp/run.py %s --tier quick' % pid,
            'thorough_cmd': 'python3-vt vp/run.py %s --tier thorough' % pid,
            'evidence_file': 'evidence/%s.json' % pid,
            'replay_cmd_template': 'python3-vt vp/run.py %s --replay {path}' % pid,
            'engine': c['engine'],
            'level_claimed': {'category': c['category'], 'text': c['text'], 'design_ref': c['design_ref']},
            'level_note': c['note'],
            'technique': c['technique'],
        })
na = [{'property_id': pid, 'reason': S.NOT_APPLICABLE.get(pid, 'no check built yet for this property in this round (see DESIGN.md section 7 for the plan)')}
      for pid in ids if pid not in S.CHECKS]
m = {'version': 1,
     'setup_cmd': S.SETUP,
     'hooks': {'guard': 'CVXOPT_VERIF', 'enable': 'no source hooks: all instrumentation is load-time AST transformation of the sources read from /repo, IR interpretation, or monkey-patching inside the harness process', 'baseline_off_cmd': 'cd /repo && /venv/bin/python -m pytest -ra -q -p no:cacheprovider --timeout=900 --continue-on-collection-errors tests', 'source_commits': [], 'add_only': True},
     'engines': S.ENGINES,
     'checks': checks,
     'notes': S.NOTES,
     'not_applicable': na}
json.dump(m, open(os.path.join(here, '..', 'MANIFEST.json'), 'w'), indent=1)
print('checks:', [c['property_id'] for c in checks], 'n/a:', [n['property_id'] for n in na])
