#!/bin/bash
# mk_mut.sh <seed-name> : scratch worktree of /repo HEAD with seeded/<seed>/patch.diff applied, at /tmp/vpm/<seed>
S="$1"; D=/tmp/vpm/$S
mkdir -p /tmp/vpm
[ -d "$D" ] && { git -C /repo worktree remove --force "$D" >/dev/null 2>&1; rm -rf "$D"; }
git -C /repo worktree add --detach "$D" HEAD >/dev/null 2>&1 || exit 2
git -C "$D" apply /verif/seeded/$S/patch.diff || exit 3
echo "$D"
