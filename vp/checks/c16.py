"""C16 - sparse kernels of sparse.c against the dense definition (engine L, kernel scenarios).
Each kernel is executed from the clang -O0 LLVM IR of /repo/src/C/sparse.c on an ARBITRARY VALID compressed-column
matrix (symbolic column pointers, row indices and values within small stated size bounds) and symbolic dense
operands; z3 decides per path: (Q_val) every cell of the output equals the dense definition of the operation applied
to the dense image, (Q_frame) no other cell changed, (Q_mem) every array access is inside its array (shared with
C19), (Q_int) no machine-integer overflow is possible within the bounds.  The caller's argument checks
(base.c wrappers) are transcribed as the precondition of each kernel - they are not executed."""
import os, sys, json, time, tempfile, shutil, itertools
import z3

BOUNDS = {'quick': dict(R=2, C=2, NNZ=3, M=2, L=5, INC=2, OFF=1), 'thorough': dict(R=3, C=2, NNZ=3, M=2, L=6, INC=3, OFF=2)}       # (NNZ = 4 / M = 3 were probed: the value obligations of the transposed gemv are then not decided within minutes)

def _abs(v): return z3.If(v >= 0, v, -v)
def _max(a, b): return z3.If(a >= b, a, b)

def pos(base, i, ln, inc):
    """BLAS position of element i of a strided vector of ln elements"""
    return z3.If(inc > 0, base + i*inc, base + (ln - 1 - i)*(-inc))

# ------------------------------------------------------------------------------------------ gemv

def build_gemv(mod, B, tA, six, siy):
    from vp.llsym import scen_kernel as K, exec as X
    sc = K.KernelScenario(mod, nmax_scal=B['M'])
    I = z3.Int
    nrows, ncols, m, n, oA, ix, iy, ox, oy, LX, LY = [I(v) for v in ('nrows', 'ncols', 'm', 'n', 'oA', 'ix', 'iy', 'ox', 'oy', 'LX', 'LY')]
    alpha, beta = z3.Real('alpha'), z3.Real('beta')
    A = sc.new_ccs('A', nrows, ncols, B['NNZ'], B['C'])
    x = sc.array('x', 'real', LX); y = sc.array('y', 'real', LY)
    N = tA == 'N'
    P = [nrows <= B['R'], m >= 0, n >= 0, m <= B['M'], n <= B['M'], LX >= 0, LY >= 0, LX <= B['L'], LY <= B['L'],
         ox <= B['OFF'], oy <= B['OFF'], oA <= B['R']*B['C'] + 1]
    P += [(ix > 0) if six > 0 else (ix < 0), (iy > 0) if siy > 0 else (iy < 0), _abs(ix) <= B['INC'], _abs(iy) <= B['INC']]
    # ---- contract transcribed from base_gemv (base.c): what the wrapper has checked before it calls sp_gemv[id]
    P += [z3.Not(m == 0) if N else z3.Not(n == 0), oA >= 0,
          z3.Implies(z3.And(n > 0, m > 0), oA + (n - 1)*_max(1, nrows) + m <= nrows*ncols), ox >= 0, oy >= 0]
    P += [z3.Implies(n > 0, ox + (n - 1)*_abs(ix) + 1 <= LX), oy + (m - 1)*_abs(iy) + 1 <= LY] if N else \
         [z3.Implies(m > 0, ox + (m - 1)*_abs(ix) + 1 <= LX), oy + (n - 1)*_abs(iy) + 1 <= LY]
    sc.pre += P
    args = [78 if N else 84, m, n, alpha, z3.RealVal(0), A, oA, X.Ptr('arr:x', 8*ox), ix, sc.num('beta', beta), X.Ptr('arr:y', 8*oy), iy]
    info = dict(nrows=nrows, ncols=ncols, m=m, n=n, oA=oA, ix=ix, iy=iy, ox=ox, oy=oy, LX=LX, LY=LY, alpha=alpha, beta=beta, N=N)
    return sc, 'sp_dgemv', args, info

def oracle_gemv(sc, B, info, final):
    """list of (label, formula) for the final array state of y; dense semantics of dgemv on the dense image of A
    (column-major, ld = max(1, nrows), offset oA) - the block is assumed not to wrap around a column (stated bound)"""
    from vp.llsym import scen_kernel as K
    g = info; N = g['N']
    nrows, m, n, oA = g['nrows'], g['m'], g['n'], g['oA']
    y0 = sc.arrays['y']['init']; x0 = sc.arrays['x']['init']
    yf = final.get(('arr', 'y'), y0)
    oi = z3.If(nrows > 0, oA % _max(1, nrows), 0); oj = z3.If(nrows > 0, oA / _max(1, nrows), 0)
    leny = m if N else n; lenx = n if N else m
    obl = []
    touched = []
    for i in range(B['M']):
        py = pos(g['oy'], i, leny, g['iy'])
        tot = z3.RealVal(0)
        for j in range(B['M']):
            px = pos(g['ox'], j, lenx, g['ix'])
            xj = z3.Select(x0, px)
            # (alpha*a_ij)*x_j, entry by entry: the order of the C source, so that the uninterpreted-product form matches syntactically
            term = (lambda xj_: (lambda v: K.fm(K.fm(g['alpha'], v), xj_)))(xj)
            a_ij = sc.dense_entry('A', oi + i, oj + j, B['C'], times=term) if N else sc.dense_entry('A', oi + j, oj + i, B['C'], times=term)
            tot = tot + z3.If(j < lenx, a_ij, z3.RealVal(0))
        want = K.fm(g['beta'], z3.Select(y0, py)) + tot
        obl.append(('y[%d] = beta*y[%d] + alpha*(op(A) x)[%d]' % (i, i, i), z3.Implies(i < leny, z3.Select(yf, py) == want)))
        touched.append((i < leny, py))
    for c in range(B['L']):
        untouched = z3.And(*[z3.Not(z3.And(t, p == c)) for t, p in touched])
        obl.append(('cell %d of y outside the vector is unchanged' % c, z3.Implies(z3.And(c < g['LY'], untouched), z3.Select(yf, c) == z3.Select(y0, c))))
    return obl

def sum_entry(sc, B, i, j):
    return sc.dense_entry('A', i, j, B['C'])

def genuine_block(info):
    """the m x n block addressed by offsetA lies inside A without wrapping around a column"""
    nrows, ncols, m, n, oA = info['nrows'], info['ncols'], info['m'], info['n'], info['oA']
    oi = oA % _max(1, nrows); oj = oA / _max(1, nrows)
    return z3.Implies(nrows > 0, z3.And(oi + m <= nrows, oj + n <= ncols))

# ------------------------------------------------------------------------------------------ symv

def build_symv(mod, B, uplo, six, siy):
    from vp.llsym import scen_kernel as K, exec as X
    sc = K.KernelScenario(mod, nmax_scal=B['M'])
    I = z3.Int
    nrows, ncols, n, oA, ix, iy, ox, oy, LX, LY = [I(v) for v in ('nrows', 'ncols', 'n', 'oA', 'ix', 'iy', 'ox', 'oy', 'LX', 'LY')]
    alpha, beta = z3.Real('alpha'), z3.Real('beta')
    A = sc.new_ccs('A', nrows, ncols, B['NNZ'], B['C'])
    sc.array('x', 'real', LX); sc.array('y', 'real', LY)
    P = [nrows <= B['R'], n <= B['M'], LX >= 0, LY >= 0, LX <= B['L'], LY <= B['L'], ox <= B['OFF'], oy <= B['OFF']]
    P += [(ix > 0) if six > 0 else (ix < 0), (iy > 0) if siy > 0 else (iy < 0), _abs(ix) <= B['INC'], _abs(iy) <= B['INC']]
    # ---- contract transcribed from base_symv (base.c)
    P += [n > 0, oA >= 0, oA + (n - 1)*_max(1, nrows) + n <= nrows*ncols, ox >= 0, ox + (n - 1)*_abs(ix) + 1 <= LX, oy >= 0, oy + (n - 1)*_abs(iy) + 1 <= LY]
    sc.pre += P
    args = [85 if uplo == 'U' else 76, n, alpha, z3.RealVal(0), A, oA, X.Ptr('arr:x', 8*ox), ix, sc.num('beta', beta), X.Ptr('arr:y', 8*oy), iy]
    info = dict(nrows=nrows, ncols=ncols, m=n, n=n, oA=oA, ix=ix, iy=iy, ox=ox, oy=oy, LX=LX, LY=LY, alpha=alpha, beta=beta, uplo=uplo)
    return sc, 'sp_dsymv', args, info

def oracle_symv(sc, B, info, final):
    """y := alpha*S*x + beta*y with S the symmetric matrix whose `uplo` triangle is the n x n block of A at offsetA"""
    from vp.llsym import scen_kernel as K
    g = info; U = g['uplo'] == 'U'
    nrows, n, oA = g['nrows'], g['n'], g['oA']
    y0 = sc.arrays['y']['init']; x0 = sc.arrays['x']['init']
    yf = final.get(('arr', 'y'), y0)
    oi = oA % _max(1, nrows); oj = oA / _max(1, nrows)
    obl = []; touched = []
    for i in range(B['M']):
        py = pos(g['oy'], i, n, g['iy'])
        tot = z3.RealVal(0)
        for j in range(B['M']):
            xj = z3.Select(x0, pos(g['ox'], j, n, g['ix']))
            term = (lambda xj_: (lambda v: K.fm(K.fm(g['alpha'], v), xj_)))(xj)
            r_, c_ = (min(i, j), max(i, j)) if U else (max(i, j), min(i, j))
            tot = tot + z3.If(j < n, sc.dense_entry('A', oi + r_, oj + c_, B['C'], times=term), z3.RealVal(0))
        want = K.fm(g['beta'], z3.Select(y0, py)) + tot
        obl.append(('y[%d] = beta*y[%d] + alpha*(S x)[%d]' % (i, i, i), z3.Implies(i < n, z3.Select(yf, py) == want)))
        touched.append((i < n, py))
    for c in range(B['L']):
        untouched = z3.And(*[z3.Not(z3.And(t, p == c)) for t, p in touched])
        obl.append(('cell %d of y outside the vector is unchanged' % c, z3.Implies(z3.And(c < g['LY'], untouched), z3.Select(yf, c) == z3.Select(y0, c))))
    return obl

# ------------------------------------------------------------------------------------------ gemm, C sparse, partial=True, A sparse (transposed), B dense

def build_gemm_p(mod, B_, tB):
    from vp.llsym import scen_kernel as K, exec as X
    sc = K.KernelScenario(mod, nmax_scal=1)
    I = z3.Int
    m, n, k = I('m'), I('n'), I('k')
    alpha, beta = z3.Real('alpha'), z3.Real('beta')
    A = sc.new_ccs('A', k, m, B_['NNZ'], B_['C'])            # a is k x m; op(A) = a^T is m x k (transA = 'T': no temporary transpose)
    C = sc.new_ccs('C', m, n, B_['NNZ'], B_['C'])
    sc.array('B', 'real', k*n)
    # ---- contract transcribed from base_gemm (base.c): dimensions agree, C is m x n (checked since e158143), m, n > 0
    sc.pre += [m >= 1, n >= 1, k >= 0, m <= B_['C'], n <= B_['C'], k <= B_['R']]
    args = [84, 78 if tB == 'N' else 84, alpha, z3.RealVal(0), A, X.Ptr('arr:B', 0), beta, z3.RealVal(0), C, 1, 0, 1, 1, X.Ptr('zout', 0), m, n, k]
    info = dict(m=m, n=n, k=k, alpha=alpha, beta=beta, tB=tB)
    return sc, 'sp_dgemm', args, info

def oracle_gemm_p(sc, B_, info, final):
    """every stored entry (i, j) of C becomes alpha*(a^T op(B))[i, j] + beta*C[i, j]; the pattern of C, the rest of its value array and A, B are unchanged"""
    from vp.llsym import scen_kernel as K
    g = info; m, n, k = g['m'], g['n'], g['k']
    V0 = sc.arrays['C.values']['init']; Vf = final.get(('arr', 'C.values'), V0)
    R = sc.arrays['C.rowind']['init']; CP = sc.arrays['C.colptr']['init']; B0 = sc.arrays['B']['init']
    obl = []
    nnzC = sc.ccs['C'].nnz
    for o in range(B_['NNZ']):
        i = z3.Select(R, o)
        cases = []
        for j in range(B_['C']):
            incol = z3.And(z3.Select(CP, j) <= o, o < z3.Select(CP, j + 1), j < n)
            val = z3.RealVal(0)
            for l in range(B_['R']):
                b_lj = z3.Select(B0, l + j*k) if g['tB'] == 'N' else z3.Select(B0, j + l*n)
                term = (lambda b_: (lambda v: K.fm(v, b_)))(b_lj)
                val = val + z3.If(l < k, sc.dense_entry('A', l, i, B_['C'], times=term), z3.RealVal(0))
            want = K.fm(g['alpha'], val) + K.fm(g['beta'], z3.Select(V0, o))
            cases.append(z3.Implies(incol, z3.Select(Vf, o) == want))
        obl.append(('stored entry %d of C = alpha*(op(A) op(B))[i,j] + beta*C[i,j]' % o, z3.Implies(o < nnzC, z3.And(*cases))))
        obl.append(('value cell %d of C beyond its entries is unchanged' % o, z3.Implies(o >= nnzC, z3.Select(Vf, o) == z3.Select(V0, o))))
    for nm in ('C.colptr', 'C.rowind', 'A.colptr', 'A.rowind', 'A.values', 'B'):
        obl.append(('%s is not written' % nm, z3.BoolVal(('arr', nm) not in final)))
    return obl

# ------------------------------------------------------------------------------------------ element lookup (binary search)

def build_getitem(mod, B_):
    from vp.llsym import scen_kernel as K, exec as X
    sc = K.KernelScenario(mod)
    I = z3.Int
    nrows, ncols, i, j = I('nrows'), I('ncols'), I('i'), I('j')
    sc.new_ccs('A', nrows, ncols, B_['NNZ'] + 1, B_['C'])
    # callers (indexing code) pass 0 <= i < nrows, 0 <= j < ncols
    sc.pre += [nrows <= B_['R'] + 2, i >= 0, i < nrows, j >= 0, j < ncols]
    sc.nums['out'] = z3.Real('out_before')
    args = [X.Ptr('spm:A', 0), i, j, X.Ptr('num:out', 0)]
    return sc, 'spmatrix_getitem_ij', args, dict(i=i, j=j, nrows=nrows, ncols=ncols)

def oracle_getitem(sc, B_, info, final, ret=None):
    i, j = info['i'], info['j']
    c = sc.ccs['A']
    R = sc.arrays['A.rowind']['init']; C = sc.arrays['A.colptr']['init']
    stored = z3.Or(*[z3.And(z3.Select(C, j) <= k, k < z3.Select(C, j + 1), z3.Select(R, k) == i) for k in range(c.nnz_cap)])
    val = final.get(('num:out', 0))
    obl = [('returns 1 exactly when (i, j) is a stored entry', (ret == 1) == stored if not isinstance(ret, int) else (z3.BoolVal(ret == 1) == stored)),
           ('the value is the stored value, or zero for an entry that is not stored', z3.BoolVal(False) if val is None else val == sc.dense_entry('A', i, j, B_['C']))]
    for nm in ('A.colptr', 'A.rowind', 'A.values'):
        obl.append(('%s is not written' % nm, z3.BoolVal(('arr', nm) not in final)))
    return obl

KERNELS = {'getitem': (build_getitem, oracle_getitem, [()]),
           'gemm_p': (build_gemm_p, oracle_gemm_p, [('N',), ('T',)]),
           'gemv': (build_gemv, oracle_gemv, [(t, a, b) for t in 'NT' for a in (1, -1) for b in (1, -1)]),
           'symv': (build_symv, oracle_symv, [(t, a, b) for t in 'UL' for a in (1, -1) for b in (1, -1)])}

# ------------------------------------------------------------------------------------------ job

def job(cfg):
    from vp.llsym import ir, exec as X, scen_kernel as K
    t0 = time.time()
    mod = ir.Module(open(cfg['ll']).read())
    B = BOUNDS[cfg['tier']]
    if cfg['kernel'] == 'gemm_p' and cfg['tier'] == 'thorough': B = dict(B, R=2, C=2, NNZ=4)      # two symbolic CCS operands: 2 x 2 including full patterns
    build, oracle, _ = KERNELS[cfg['kernel']]
    sc, fname, args, info = build(mod, B, *cfg['variant'])
    extra_pre = [genuine_block(info)] if cfg['kernel'] in ('gemv', 'symv') else []
    ex = X.Executor(mod, sc, max_paths=cfg.get('max_paths', 20000), branch_timeout_ms=3000, loop_bound=((B['NNZ'] + 1)*(B['NNZ'] + 1) + 2) if cfg['kernel'] == 'gemm_p' else (B['NNZ'] + B['M'] + 2))
    ex.math_ints = True; ex.fmul = K.fm
    if cfg['kernel'] == 'getitem': ex.inline = {'bsearch_int'}
    res = {'kernel': cfg['kernel'], 'variant': cfg['variant'], 'paths': 0, 'kinds': {}, 'obl': {'total': 0, 'unsat': 0, 'sat': 0, 'unknown': 0},
           'solver_s': 0.0, 'findings': [], 'unsupported': [], 'sample': None, 'instructions': 0}
    st = X.State()
    for f in sc.pre + extra_pre: ex.assume(st, f)
    try: ex.run(fname, args, st)
    except X.PathEnd as e: res['unsupported'].append('path budget exhausted: %s' % e)
    res['instructions'] = ex.stats['instructions']
    tmo = cfg.get('timeout_ms', 20000)
    def query(fs):
        t1 = time.time()
        # phase 1: products as an uninterpreted function (sound for unsat); phase 2: real arithmetic
        s = z3.Solver(); s.set('timeout', tmo)
        for f in fs: s.add(f)
        r = s.check()
        if r != z3.unsat:
            fs2 = [K.real_form(f) for f in fs]
            for budget in (tmo, 4*tmo):
                s = z3.Solver(); s.set('timeout', budget)
                for f in fs2: s.add(f)
                r = s.check()
                if r != z3.unknown: break
        dt = time.time() - t1; res['solver_s'] += dt
        v = str(r); res['obl']['total'] += 1; res['obl'][v if v in ('sat', 'unsat') else 'unknown'] += 1
        return v, (s.model() if r == z3.sat else None)
    names = sorted(set(['nrows', 'ncols', 'm', 'n', 'oA', 'ix', 'iy', 'ox', 'oy', 'LX', 'LY', 'alpha', 'beta', 'A_cap']))
    def render(model):
        if cfg['kernel'] == 'gemm_p': return render_gemm(model)
        if cfg['kernel'] == 'getitem': return render_getitem(model)
        d = {}
        for nm in names:
            v = model.eval(z3.Int(nm) if nm not in ('alpha', 'beta') else z3.Real(nm), model_completion=True); d[nm] = str(v)
        nc = int(d['ncols']); cap = int(d['A_cap'])
        ev = lambda a, k: str(model.eval(z3.Select(sc.arrays[a]['init'], k), model_completion=True))
        d['colptr'] = [ev('A.colptr', j) for j in range(nc + 1)]
        nnz = int(d['colptr'][-1]) if d['colptr'] else 0
        d['rowind'] = [ev('A.rowind', k) for k in range(nnz)]; d['values'] = [ev('A.values', k) for k in range(nnz)]
        d['x'] = [ev('x', k) for k in range(int(d['LX']))]; d['y'] = [ev('y', k) for k in range(int(d['LY']))]
        return d
    def render_getitem(model):
        d = {nm: str(model.eval(z3.Int(nm), model_completion=True)) for nm in ('nrows', 'ncols', 'i', 'j', 'A_cap')}
        ev = lambda a, k_: str(model.eval(z3.Select(sc.arrays[a]['init'], k_), model_completion=True))
        cp = [ev('A.colptr', t) for t in range(int(d['ncols']) + 1)]; nnz = int(cp[-1])
        d['colptr'] = cp; d['rowind'] = [ev('A.rowind', t) for t in range(nnz)]; d['values'] = [ev('A.values', t) for t in range(nnz)]
        return d
    def render_gemm(model):
        d = {}
        for nm in ('m', 'n', 'k', 'A_cap', 'C_cap'): d[nm] = str(model.eval(z3.Int(nm), model_completion=True))
        for nm in ('alpha', 'beta'): d[nm] = str(model.eval(z3.Real(nm), model_completion=True))
        ev = lambda a, k_: str(model.eval(z3.Select(sc.arrays[a]['init'], k_), model_completion=True))
        for pref, nc in (('A', int(d['m'])), ('C', int(d['n']))):
            cp = [ev(pref + '.colptr', j) for j in range(nc + 1)]; nnz = int(cp[-1])
            d[pref + 'colptr'] = cp; d[pref + 'rowind'] = [ev(pref + '.rowind', k_) for k_ in range(nnz)]; d[pref + 'values'] = [ev(pref + '.values', k_) for k_ in range(nnz)]
        d['Anrows'], d['Ancols'], d['Cnrows'], d['Cncols'] = d['k'], d['m'], d['m'], d['n']
        d['B'] = [ev('B', t) for t in range(int(d['k'])*int(d['n']))]
        return d
    for p in ex.paths:
        res['paths'] += 1; res['kinds'][p['kind']] = res['kinds'].get(p['kind'], 0) + 1
        if p['kind'] == 'infeasible': continue
        if p['kind'] != 'return':
            if p['kind'] == 'unsupported' and 'division by zero' in str(p['why']):
                r, mdl = query(p['pc'])
                if r == 'sat': res['findings'].append({'key': '%s:division-by-zero' % cfg['kernel'], 'text': 'integer division by zero (%s)' % p['why'][:80], 'model': render(mdl), 'variant': cfg['variant']})
                continue
            res['unsupported'].append('%s: %s' % (p['kind'], str(p['why'])[:200])); continue
        # Q_div: no division by zero
        if p.get('divz'):
            r, mdl = query(p['pc'] + [z3.Or(*[c for c, _ in p['divz']])])
            if r == 'sat': res['findings'].append({'key': '%s:division-by-zero' % cfg['kernel'], 'text': 'integer division by zero inside the kernel (SIGFPE)', 'model': render(mdl), 'variant': cfg['variant'], 'crash': True}); continue
            elif r != 'unsat': res['unsupported'].append('Q_div undecided')
        # Q_int: no machine-integer overflow within the bounds
        if p['ovf']:
            r, mdl = query(p['pc'] + [z3.Or(*p['ovf'])])
            if r == 'sat': res['findings'].append({'key': '%s:int-overflow-in-bounds' % cfg['kernel'], 'text': 'C int overflow inside the kernel', 'model': render(mdl), 'variant': cfg['variant']})
            elif r != 'unsat': res['unsupported'].append('Q_int undecided')
        # Q_mem
        bad = []
        for a in p['acc']:
            nm, idx, kind, npc = a[0], a[1], a[2], a[3]
            g = a[4] if len(a) > 4 else z3.BoolVal(True)
            ln = sc.arrays[nm]['len']
            bad.append(z3.And(g, z3.Or(idx < 0, idx >= ln)))
        if bad:
            r, mdl = query(p['pc'] + [z3.Or(*bad)])
            if r == 'sat':
                which = [a for a, b in zip(p['acc'], bad) if z3.is_true(mdl.eval(b, model_completion=True))]
                res['findings'].append({'key': '%s:%s:out-of-bounds' % (cfg['kernel'], which[0][0] if which else '?'), 'text': 'access outside array %s (index %s)' % (which[0][0], mdl.eval(which[0][1])) if which else 'access outside an array',
                                        'model': render(mdl), 'variant': cfg['variant'], 'mem': True})
            elif r != 'unsat': res['unsupported'].append('Q_mem undecided')
        # Q_val / Q_frame
        for label, f in (oracle(sc, B, info, p['mem'], p['ret']) if cfg['kernel'] == 'getitem' else oracle(sc, B, info, p['mem'])):
            r, mdl = query(p['pc'] + [z3.Not(f)])
            if r == 'sat':
                res['findings'].append({'key': '%s:value' % cfg['kernel'], 'text': label, 'model': render(mdl), 'variant': cfg['variant']})
                break
            elif r != 'unsat': res['unsupported'].append('undecided: ' + label)
        # inputs are not written
        for a in p['acc']:
            if a[2] == 'w' and a[0] not in ('y', 'C.values'):
                res['findings'].append({'key': '%s:writes-input' % cfg['kernel'], 'text': 'writes into input array %s' % a[0], 'model': None, 'variant': cfg['variant']})
        if res['sample'] is None:
            res['sample'] = {'kernel': fname, 'variant': cfg['variant'], 'path_condition_size': len(p['pc']), 'accesses': len(p['acc'])}
    res['wall'] = round(time.time() - t0, 1)
    return res

# ------------------------------------------------------------------------------------------ replay on the real build

REPLAY_PROG = r'''
import sys, json
from fractions import Fraction as F
from cvxopt import matrix, spmatrix, base
d = json.loads(sys.argv[1]); m = d['model']; kern = d['kernel']; var = d['variant']
fl = lambda s: float(F(s))
def mk_sp(pref=''):
    cp = [int(v) for v in m[pref + 'colptr']]; ri = [int(v) for v in m[pref + 'rowind']]; vs = [fl(v) for v in m[pref + 'values']]
    if not ri: return spmatrix([], [], [], (int(m[pref + 'nrows']), int(m[pref + 'ncols'])), 'd')
    J = [j for j in range(len(cp) - 1) for _ in range(cp[j + 1] - cp[j])]
    return spmatrix(vs, ri, J, (int(m[pref + 'nrows']), int(m[pref + 'ncols'])), 'd')
def vec(name, L):
    v = [fl(t) for t in m[name]]
    return matrix(v, (len(v), 1), 'd') if v else matrix(0.0, (0, 1))
if kern == 'getitem':
    A = mk_sp(); i, j = int(m['i']), int(m['j'])
    print('CALL A[%d, %d] with A = %s sparse %r' % (i, j, A.size, list(zip(A.I, A.J, A.V))), flush=True)
    ref = matrix(A)[i, j]
    print('REF ' + json.dumps([ref]), flush=True)
    try: got = [A[i, j]]
    except Exception as e: got = 'raises %s' % type(e).__name__
    print('GOT ' + json.dumps(got), flush=True)
if kern == 'gemm_p':
    A = mk_sp('A'); C = mk_sp('C'); k, n, mm = int(m['k']), int(m['n']), int(m['m'])
    tB = var[0]
    Bv = [fl(t) for t in m['B']]
    B = matrix(Bv, (k, n) if tB == 'N' else (n, k), 'd') if Bv else matrix(0.0, (k, n) if tB == 'N' else (n, k))
    al, be = fl(m['alpha']), fl(m['beta'])
    print('CALL base.gemm(A, B, C, transA=\'T\', transB=%r, alpha=%r, beta=%r, partial=True) with A = %s sparse %r, B = %r, C = %s sparse %r' % (tB, al, be, A.size, list(zip(A.I, A.J, A.V)), list(B), C.size, list(zip(C.I, C.J, C.V))), flush=True)
    Ad, Bd, Cd = matrix(A), (B if tB == 'N' else B.T), matrix(C)
    D = al*(Ad.T*Bd) + be*Cd if k else be*Cd
    ref = [D[i, j] for i, j in zip(C.I, C.J)]
    pat = (list(C.I), list(C.J))
    print('REF ' + json.dumps(ref), flush=True)
    try:
        base.gemm(A, B, C, transA='T', transB=tB, alpha=al, beta=be, partial=True)
        got = list(C.V) if (list(C.I), list(C.J)) == pat else 'pattern changed'
    except Exception as e: got = 'raises %s' % type(e).__name__
    print('GOT ' + json.dumps(got), flush=True)
if kern == 'symv':
    A = mk_sp(); x = vec('x', 'LX'); y = vec('y', 'LY'); y2 = matrix(y)
    kw = dict(uplo=var[0], alpha=fl(m['alpha']), beta=fl(m['beta']), n=int(m['n']), incx=int(m['ix']), incy=int(m['iy']),
              offsetA=int(m['oA']), offsetx=int(m['ox']), offsety=int(m['oy']))
    call = 'base.symv(A, x, y, **%r) with A = %s sparse %r, x = %r, y = %r' % (kw, A.size, list(zip(A.I, A.J, A.V)), list(x), list(y))
    print('CALL ' + call, flush=True)
    try: base.symv(matrix(A), x, y2, **kw); ref = list(y2)
    except Exception as e: ref = 'raises %s' % type(e).__name__
    print('REF ' + json.dumps(ref), flush=True)
    try: base.symv(A, x, y, **kw); got = list(y)
    except Exception as e: got = 'raises %s' % type(e).__name__
    print('GOT ' + json.dumps(got), flush=True)
if kern == 'gemv':
    A = mk_sp(); x = vec('x', 'LX'); y = vec('y', 'LY'); y2 = matrix(y)
    kw = dict(trans=var[0], alpha=fl(m['alpha']), beta=fl(m['beta']), m=int(m['m']), n=int(m['n']), incx=int(m['ix']), incy=int(m['iy']),
              offsetA=int(m['oA']), offsetx=int(m['ox']), offsety=int(m['oy']))
    call = 'base.gemv(A, x, y, **%r) with A = %s sparse %r, x = %r, y = %r' % (kw, A.size, list(zip(A.I, A.J, A.V)), list(x), list(y))
    print('CALL ' + call, flush=True)
    try: base.gemv(matrix(A), x, y2, **kw); ref = list(y2)
    except Exception as e: ref = 'raises %s' % type(e).__name__
    print('REF ' + json.dumps(ref), flush=True)
    try: base.gemv(A, x, y, **kw); got = list(y)
    except Exception as e: got = 'raises %s' % type(e).__name__
    print('GOT ' + json.dumps(got), flush=True)
'''

def replay_model(kernel, variant, model, memcheck=False, timeout=300):
    """returns (description, None) when the real build misbehaves on the instance, else (None, why)"""
    import subprocess
    from vp import common
    ov = common.overlay()
    env = dict(os.environ); env['PYTHONPATH'] = ov
    cmd = [common.VENV_PY, '-c', REPLAY_PROG, json.dumps({'kernel': kernel, 'variant': variant, 'model': model})]
    if memcheck: cmd = ['valgrind', '-q', '--error-exitcode=97', '--leak-check=no'] + cmd
    try: r = subprocess.run(cmd, capture_output=True, text=True, timeout=timeout, env=env)
    except subprocess.TimeoutExpired: return None, 'replay timed out'
    out = {l.split(' ', 1)[0]: l.split(' ', 1)[1] for l in r.stdout.splitlines() if ' ' in l}
    call = out.get('CALL', '?')
    if r.returncode < 0 or r.returncode in (136, 139):
        return 'the interpreter dies with signal %d in %s' % (abs(r.returncode) if r.returncode < 0 else r.returncode - 128, call), None
    if memcheck:
        from vp.checks import c17
        errs = c17.memcheck_errors(r.stderr) if hasattr(c17, 'memcheck_errors') else []
        if errs: return 'memcheck: %s in %s' % (errs[0], call), None
    if 'REF' in out and 'GOT' in out:
        ref, got = json.loads(out['REF']), json.loads(out['GOT'])
        if isinstance(ref, list) and isinstance(got, list):
            bad = [i for i, (a, b) in enumerate(zip(ref, got)) if abs(a - b) > 1e-9*(1 + abs(a) + abs(b))]
            if bad or len(ref) != len(got): return 'sparse result %r differs from the result on the dense copy %r in %s' % (got, ref, call), None
            return None, 'sparse and dense results agree (%r)' % (got,)
        if ref != got: return 'sparse operand: %r, dense copy: %r in %s' % (got, ref, call), None
        return None, 'both raise/return the same (%r)' % (got,)
    return None, 'replay produced no comparison (rc=%s, stderr=%s)' % (r.returncode, r.stderr[-200:])

def replay_main(path):
    d = json.load(open(path))
    rep, why = replay_model(d['kernel'], d['variant'], d['model'], memcheck=d.get('mem', False))
    if rep: print('REPRODUCED on the real build: %s' % rep); return 1
    print(why); return 0

def main(tier, pid='C16', ev=None):
    from vp import common
    from vp.llsym import ir
    shared = ev is not None
    if ev is None: ev = common.Evidence(pid, 'model_checking', tier)
    work = tempfile.mkdtemp(prefix='vp.ir.', dir='/var/tmp')
    try:
        cfile = os.path.join(common.REPO, 'src', 'C', 'sparse.c')
        ll = ir.compile_to_ir(cfile, common.REPO, work)
        cfgs = []
        for kern, (_, _, variants) in KERNELS.items():
            for v in variants:
                cfgs.append({'ll': ll, 'tier': tier, 'kernel': kern, 'variant': v, 'timeout_ms': 20000 if tier == 'quick' else 60000})
        results = common.run_jobs('vp.checks.c16', 'job', cfgs)
        known = common.known_findings(pid)
        violations, known_hits, herr, inconc = [], [], [], []
        paths = instr = 0; groups = {}
        for r in results:
            if not r['ok']: herr.append('%s %s: %s' % (r['cfg']['kernel'], r['cfg']['variant'], r['err'])); continue
            res = r['res']; paths += res['paths']; instr += res['instructions']
            for key in ('total', 'unsat', 'sat', 'unknown'): ev.obl[key] += res['obl'][key]
            ev.solver_s += res['solver_s']
            if res['sample']: ev.sample(res['sample'], cap=5)
            for u in res['unsupported']: herr.append('%s %s: %s' % (res['kernel'], res['variant'], u))
            for f in res['findings']:
                ismem = 'out-of-bounds' in f['key']
                if (pid == 'C19') != ismem: continue
                groups.setdefault('sparse.' + f['key'], []).append(f)
        for k in sorted(groups):
            fs = groups[k]
            rep = why = None; rp = None
            for f in fs[:4]:
                if f['model'] is None: continue
                rp = common.write_replay(pid, k + json.dumps(f['variant']), {'property': pid, 'key': k, 'kernel': k.split('.')[1].split(':')[0], 'variant': f['variant'], 'model': f['model'], 'text': f['text'], 'mem': bool(f.get('mem'))})
                rep, why = replay_model(k.split('.')[1].split(':')[0], f['variant'], f['model'], memcheck=bool(f.get('mem')))
                if rep: break
            if rep is None: herr.append('%s: counterexample not reproduced on the real build (%s) %s' % (k, why, rp)); continue
            if k in known: known_hits.append((k, known[k]['what'])); continue
            violations.append((k, rp, '%s -> %s' % (fs[0]['text'], rep)))
        ev.cov.update({'states': max(1, paths), 'transitions': max(1, ev.obl['total']), 'traces_validated_against_impl': 0, 'instructions_interpreted': instr,
                       'functions_encoded': ['sparse.c: sp_dgemv, sp_dsymv, sp_dgemm (A sparse transposed, B dense, C sparse, partial update), spmatrix_getitem_ij + bsearch_int'], 'source_hash': ir.src_hash(cfile),
                       'bounds': json.dumps(BOUNDS[tier]) + ' (R rows, C columns, NNZ stored entries, M = max m,n, L = max vector length, INC = max |increment|, OFF = max vector offset); loops unrolled to these bounds'})
        ev.assumptions += ["the argument checks of the base.c wrapper (base_gemv) are transcribed as the kernel's precondition, the wrapper itself is not executed",
                           'offsetA addresses a genuine m x n block (no wrap-around of a column): for wrapped blocks the dense BLAS call reads across columns, which the sparse kernel does not imitate (outside)',
                           'real arithmetic for the values (no rounding); products first as an uninterpreted function, then as real products when that does not prove the obligation',
                           "dscal follows the reference BLAS: no operation for n <= 0 or incx <= 0"]
        if shared: return violations, sorted(dict(known_hits).items()), herr, inconc
        return common.finish(ev, violations, sorted(dict(known_hits).items()), herr, inconc)
    finally:
        shutil.rmtree(work, True)
