"""Scenario for the Python-callable wrappers of blas.c / lapack.c: symbolic matrix objects,
PyArg_ParseTupleAndKeywords as a solver case split (omitted => the default already stored in
the local, given => a fresh value of the C type), contract stubs for the CPython API,
external BLAS/LAPACK calls recorded as events."""
import re
import z3
from .exec import Ptr, NULL, Unsupported, Event, is_conc, PathEndMarker, simp_int
from .ir import parse_type, split_top

INT_MIN, INT_MAX = -(1 << 31), (1 << 31) - 1

class Matrix(object):
    def __init__(self, name):
        self.name = name
        self.nrows, self.ncols = z3.Int('nrows_' + name), z3.Int('ncols_' + name)
        self.id = z3.Int('id_' + name)
        self.len = z3.Int('len_' + name)
    def constraints(self):
        return [self.nrows >= 0, self.ncols >= 0, self.nrows <= INT_MAX, self.ncols <= INT_MAX, self.len == self.nrows*self.ncols,
                self.len >= 0, self.len <= INT_MAX, self.id >= 0, self.id <= 2]
    def esize(self):
        return z3.If(self.id == 2, 16, 8)

class WrapScenario(object):
    def __init__(self, mod, given_objects=(), id_fixed=None):
        self.mod = mod
        self.given_objects = set(given_objects)     # optional 'O' keywords that are supplied
        self.mats = {}
        self.kw = {}            # keyword name -> ('O'|'i'|'C'|'d'..., value / given flag)
        self.parsed = None
        self.id_fixed = id_fixed
        mt = mod.structs['%struct.matrix']
        self.off_buffer = mod.field_offset(mt, 1); self.off_nrows = mod.field_offset(mt, 2)
        self.off_ncols = mod.field_offset(mt, 3); self.off_id = mod.field_offset(mt, 4)
        self.pre = []

    def matrix(self, ex, name):
        if name not in self.mats:
            m = Matrix(name); self.mats[name] = m
            cs = m.constraints()
            if self.id_fixed is not None: cs.append(m.id == self.id_fixed)
            for c in cs: self.pre.append(c); ex.solver.add(c)
            ex.aliases[(m.nrows.get_id(), m.ncols.get_id())] = m.len
            ex.keep += [m.nrows, m.ncols, m.len]
        return self.mats[name]

    # ---- memory of symbolic objects
    def initial_value(self, ex, st, region, off, ty):
        if region.startswith('obj:'):
            name = region[4:]
            if name in ('self', 'args', 'kwrds', 'None', 'result'): return None
            m = self.matrix(ex, name)
            if off == self.off_buffer: return Ptr('buf:' + name, 0)
            if off == self.off_nrows: return m.nrows
            if off == self.off_ncols: return m.ncols
            if off == self.off_id: return m.id if self.id_fixed is None else self.id_fixed
            return None
        if ('zero', region) in st.mem:
            return NULL if ty.kind in ('ptr', 'func') else (z3.RealVal(0) if ty.kind in ('double', 'float') else 0)
        return None

    # ---- calls
    def call(self, ex, st, name, args, rt):
        vals = [v for _, v in args]
        if name == 'PyArg_ParseTupleAndKeywords': return self.parse_args(ex, st, vals)
        if name.startswith('api#'):
            k = int(name[4:])
            if k == 3:      # Matrix_Check
                o = vals[0]
                return Ptr('nonnull', 0) if isinstance(o, Ptr) and str(o.region).startswith('obj:') and o.region[4:] in self.mats or \
                    (isinstance(o, Ptr) and str(o.region).startswith('obj:') and o.region[4:] not in ('None', 'result') and self._is_matrix_kw(o.region[4:])) else NULL
            if k == 7:      # SpMatrix_Check
                return NULL
            raise Unsupported('cvxopt_API[%d]' % k)
        if name in ('PyErr_SetString', 'PyErr_Format'):
            exc = vals[0].region[4:] if isinstance(vals[0], Ptr) and str(vals[0].region).startswith('exc:') else str(vals[0])
            try: msg = ex.cstring(vals[1])
            except Unsupported: msg = '?'
            st.exc = (exc, msg); return None
        if name == 'PyErr_NoMemory': st.exc = ('PyExc_MemoryError', ''); return NULL
        if name in ('Py_BuildValue', 'PyFloat_FromDouble', 'PyComplex_FromDoubles', 'PyLong_FromLong', 'PyLong_FromLongLong'):
            return Ptr('obj:result', 0)
        if name == 'PyEval_SaveThread': return Ptr('ts', 0)
        if name in ('PyEval_RestoreThread', '_Py_Dealloc', 'free', 'Py_DecRef', 'Py_IncRef'): return None
        if name == 'abs':
            v = vals[0]; return abs(v) if is_conc(v) else z3.If(v >= 0, v, -v)
        if name in ('fabs',):
            v = vals[0]; return z3.If(v >= 0, v, -v)
        if name == 'number_from_pyobject':
            r = ex.fresh('numconv'); ex.assume(st, z3.Or(r == 0, r == -1))
            a = vals[1]
            if isinstance(a, Ptr) and a.region:
                st.mem[(a.region, a.off if is_conc(a.off) else 0)] = ex.fresh('num_re', 'real')
                st.mem[(a.region, (a.off if is_conc(a.off) else 0) + 8)] = ex.fresh('num_im', 'real')
            return r
        if name.startswith('llvm.memset'):
            p, val, n = vals[0], vals[1], vals[2]
            if isinstance(p, Ptr) and p.region and p.region.startswith('a:') and is_conc(val) and val == 0:
                for key in [k_ for k_ in st.mem if k_[0] == p.region]: del st.mem[key]
                st.mem[('zero', p.region)] = True; return None
            if isinstance(p, Ptr) and p.region and p.region.startswith('buf:'):
                st.writes.append((p.region, p.off, n)); return None
            raise Unsupported('memset %r' % (p,))
        if name.startswith('llvm.memcpy'):
            d, s_, n = vals[0], vals[1], vals[2]
            if isinstance(d, Ptr) and d.region.startswith('a:') and isinstance(s_, Ptr) and str(s_.region).startswith('g:'):
                t, init, _ = ex.const_init(s_.region[2:])
                t = self.mod.resolve(t)
                if t.kind == 'arr' and init and init.startswith('['):
                    esz = self.mod.size_of(t.to)
                    for i, e in enumerate(split_top(init[1:-1])):
                        e = e.strip(); et, j = parse_type(e)
                        st.mem[(d.region, d.off + i*esz)] = ex.eval_operand(st, et, e[j:])
                    return None
            if isinstance(d, Ptr) and str(d.region).startswith('buf:'):
                st.writes.append((d.region, d.off, n)); return None
            raise Unsupported('memcpy %r <- %r' % (d, s_))
        if name.startswith('llvm.'): return None
        if name.endswith('_') and name in self.mod.declares:
            return self.extern_event(ex, st, name, args, rt)
        if name in self.mod.functions and name in ('Py_TYPE', 'Py_IS_TYPE', 'PyObject_TypeCheck', 'PyType_HasFeature'):
            raise Unsupported('type inspection helper ' + name)
        raise Unsupported('call to unmodelled function ' + name)

    def _is_matrix_kw(self, nm):
        return self.kw.get(nm, (None,))[0] == 'O' and nm not in self.scalar_objects()

    def scalar_objects(self):
        # optional objects converted with number_from_pyobject (alpha/beta): by convention their local is named 'ao','bo'
        return set(n for n in self.kw if n in ('alpha', 'beta'))

    def read_kwlist(self, ex, st, kwl):
        from .ir import T
        names = []; i = 0
        pt = T('ptr', to=T('int', bits=8))
        while i < 40:
            try: p = ex.load(st, pt, Ptr(kwl.region, kwl.off + 8*i))
            except Unsupported: break
            if not isinstance(p, Ptr) or p.region is None: break
            names.append(ex.cstring(p)); i += 1
        return names

    def parse_args(self, ex, st, vals):
        fmt = ex.cstring(vals[2])
        kwl = vals[3]
        names = self.read_kwlist(ex, st, kwl)
        outs = vals[4:]
        units = []; optional = False
        for ch in fmt.split(':')[0]:
            if ch == '|': optional = True; continue
            units.append((ch, optional))
        if len(units) != len(names) or len(outs) != len(units):
            raise Unsupported('format %r / kwlist %r / %d outputs mismatch' % (fmt, names, len(outs)))
        self.parsed = {'fmt': fmt, 'names': names}
        for (ch, opt), nm, out in zip(units, names, outs):
            if ch == 'O':
                given = (not opt) or nm in self.given_objects
                self.kw[nm] = ('O', given)
                if given: st.mem[(out.region, out.off)] = Ptr('obj:' + nm, 0)
            elif ch in ('i', 'n', 'l'):
                bits = 32 if ch == 'i' else 64
                v = z3.Int('arg_' + nm); g = z3.Bool('given_' + nm)
                ex.assume(st, v >= -(1 << (bits-1))); ex.assume(st, v < (1 << (bits-1)))
                cur = st.mem.get((out.region, out.off))
                if cur is None and opt: raise Unsupported('default of %s not initialised' % nm)
                val = z3.If(g, v, cur) if opt else v
                st.mem[(out.region, out.off)] = val
                self.kw[nm] = ('i', g if opt else True, v, cur)
            elif ch in ('C', 'c'):
                v = z3.Int('arg_' + nm); g = z3.Bool('given_' + nm)
                ex.assume(st, v >= 0); ex.assume(st, v <= 127)
                cur = st.mem.get((out.region, out.off))
                if cur is None: raise Unsupported('default of %s not initialised' % nm)
                st.mem[(out.region, out.off)] = z3.If(g, v, cur) if opt else v
                self.kw[nm] = ('C', g if opt else True, v, cur)
            elif ch == 'd':
                v = z3.Real('arg_' + nm); st.mem[(out.region, out.off)] = v; self.kw[nm] = ('d', True, v, None)
            else:
                raise Unsupported('format unit %r' % ch)
        return 1

    def extern_event(self, ex, st, name, args, rt):
        evargs = []
        for (t, v) in args:
            if isinstance(v, Ptr):
                if v.region and v.region.startswith('a:'):
                    off = v.off if is_conc(v.off) else None
                    val = st.mem.get((v.region, off))
                    if val is None and ('zero', v.region) in st.mem: val = 0
                    evargs.append(('ref', v.region[2:], val, off))
                elif v.region and v.region.startswith('buf:'):
                    evargs.append(('buf', v.region[4:], simp_int(v.off)))
                elif v.region is None: evargs.append(('null',))
                else: evargs.append(('ptr', v.region, v.off))
            else:
                evargs.append(('val', v))
        st.events.append(Event(name, evargs))
        if rt.kind == 'void': return None
        if rt.kind in ('double', 'float'): return ex.fresh('blasret', 'real')
        if rt.kind == 'int': return ex.fresh('blasret')
        return None
