"""C17 / C19 (blas.c part) - BLAS wrappers address exactly the data their arguments describe.

Engine L: every Python-callable wrapper of /repo/src/C/blas.c is compiled to LLVM IR (clang
-O0, regenerated on every run) and executed symbolically: matrix shapes and typecodes, every
integer keyword (given or omitted, as a solver case split over the default), flag characters
and optional scalar objects are solver variables.  At every call of an external BLAS routine
(the assertion point) z3 decides, against a footprint table transcribed from the reference
BLAS documentation:
  Q_small  accepted arguments => pointer + footprint inside the argument's buffer, on paths
           without C-int overflow                                          (C19, must be unsat)
  Q_wrap   the same allowing `int` wrap-around in the wrapper's own length checks
           (C19; satisfiable instances are the known int-overflow class)
  Q_ptr    the array pointer handed to BLAS is buffer + offset<X> * element size     (C17)
  Q_rej    a call that returns an error raised an exception and made no BLAS call and no
           buffer write before                                                       (C17)
Counterexamples are rendered as Python calls and replayed on the real build (valgrind /
differential against the reference model).
"""
import json, sys, os, re, time, tempfile, shutil, subprocess

def wrapper_names(mod):
    out = []
    for name, fn in mod.functions.items():
        if len(fn.params) == 3 and [p[1] for p in fn.params] == ['%self', '%args', '%kwrds']:
            out.append(name)
    return out

def scenarios_for(mod, fname):
    """subsets of the optional object keywords (alpha/beta/...) that are supplied"""
    fn = mod.functions[fname]
    txt = '\n'.join(l for b in fn.order for l in fn.blocks[b])
    m = re.search(r'@PyArg_ParseTupleAndKeywords\([^\n]*?\(\[\d+ x i8\], \[\d+ x i8\]\* (@\.str[\.\d]*)', txt)
    if not m: return [()]
    t, init, _ = mod.globals[m.group(1)]
    fmt = re.match(r'c"(.*?)\\00"', init).group(1)
    nopt_obj = fmt.split('|')[1].count('O') if '|' in fmt else 0
    # names of the optional objects are not known before parsing: scenarios are bitmasks resolved by the stub
    return list(range(1 << nopt_obj))

def job(cfg):
    import z3
    from vp.llsym import ir, exec as X, scen_wrap as S, blas_specs as B
    t0 = time.time()
    mod = ir.Module(open(cfg['ll']).read())
    fname = cfg['fn']
    res = {'fn': fname, 'paths': 0, 'kinds': {}, 'obl': {'total': 0, 'unsat': 0, 'sat': 0, 'unknown': 0}, 'solver_s': 0.0,
           'findings': [], 'unsupported': [], 'events': 0, 'sample': None, 'branch_queries': 0, 'by_prop': {}}
    def count(prop, v, secs=0.0):
        res['obl']['total'] += 1; res['obl'][v] += 1; res['solver_s'] += secs
        bp = res['by_prop'].setdefault(prop, {'total': 0, 'unsat': 0, 'sat': 0, 'unknown': 0}); bp['total'] += 1; bp[v] += 1
    wrap_found = set()
    for mask in cfg['masks']:
        sc = BaseMaskScenario(mod, mask) if cfg.get('scenario') == 'base' else MaskScenario(mod, mask)
        ex = X.Executor(mod, sc, max_paths=cfg.get('max_paths', 4000))
        try:
            ex.run(fname, [X.Ptr('obj:self'), X.Ptr('obj:args'), X.Ptr('obj:kwrds')])
        except X.PathEnd:
            res['unsupported'].append('path budget exhausted (mask %d)' % mask)
        res['branch_queries'] += ex.stats['branch_queries']
        pre = list(sc.pre)
        tmo = cfg.get('timeout_ms', 10000)
        def query(pc, extra):
            t1 = time.time()
            for budget in (tmo, 6*tmo):            # an 'unknown' under load is retried once with a larger budget
                s = z3.Solver(); s.set('timeout', budget)
                for f in pre + pc + extra: s.add(f)
                r = s.check()
                if r != z3.unknown: break
            return str(r), (s.model() if r == z3.sat else None), time.time() - t1
        for p in ex.paths:
            res['paths'] += 1
            res['kinds'][p['kind']] = res['kinds'].get(p['kind'], 0) + 1
            if p['kind'] == 'infeasible': continue
            if p['kind'] != 'return':
                res['unsupported'].append('%s: %s' % (p['kind'], p['why'])); continue
            isnull = isinstance(p['ret'], X.Ptr) and p['ret'].region is None
            if isnull:
                # Q_rej
                bad = []
                if p['exc'] is None: bad.append('NULL returned without an exception set')
                if p['events']: bad.append('BLAS routine %s called before the call was rejected' % p['events'][0].name)
                if p['writes']: bad.append('matrix buffer written before the call was rejected')
                if bad:
                    r, m, dt = query(p['pc'], [])
                    count('C17', 'sat' if r == 'sat' else ('unsat' if r == 'unsat' else 'unknown'), dt)
                    if r == 'sat': res['findings'].append(finding(fname, 'C17', 'Q_rej', '; '.join(bad), m, sc, mask))
                else: count('C17', 'unsat')
                continue
            if p['exc'] is not None:
                r, m, dt = query(p['pc'], [])
                count('C17', 'sat' if r == 'sat' else 'unsat', dt)
                if r == 'sat': res['findings'].append(finding(fname, 'C17', 'Q_rej', 'exception %s set but a result is returned' % (p['exc'],), m, sc, mask))
            noovf = [z3.Not(o) for o in p['ovf']]
            if not p['events']:
                # Q_zero: a successful return without any BLAS call is legitimate only where the reference routine
                # itself has nothing to do (documented zero-dimension handling)
                qc = quick_return_condition(fname, p['mem'])
                if qc is None:
                    res['unsupported'].append('no quick-return rule for wrapper %s' % fname)
                else:
                    r, m, dt = query(p['pc'], noovf + [z3.Not(qc)])
                    count('C17', r if r in ('unsat', 'sat') else 'unknown', dt)
                    if r == 'sat': res['findings'].append(finding(fname, 'C17', 'Q_zero', 'returns successfully without calling BLAS although the reference operation is not a no-op (zero-dimension handling)', m, sc, mask, key='%s:zero-dim' % fname))
            for ev in p['events']:
                res['events'] += 1
                base, es = B.base_name(ev.name)
                if base is None:
                    res['unsupported'].append('no footprint specification for %s' % ev.name); continue
                formals = B.SIG[base].split()
                if len(formals) != len(ev.args):
                    res['unsupported'].append('%s: %d actual arguments, specification has %d' % (ev.name, len(ev.args), len(formals))); continue
                a = {}; arrays = {}
                okargs = True
                for f, arg in zip(formals, ev.args):
                    if arg[0] == 'ref':
                        v = arg[2]
                        if v is None: okargs = False; res['unsupported'].append('%s: argument %s is an uninitialised local' % (ev.name, f)); break
                        a[f] = v if not X.is_conc(v) else z3.IntVal(v)
                    elif arg[0] == 'buf': arrays[f] = (arg[1], arg[2])
                    elif arg[0] == 'val': a[f] = arg[1] if not X.is_conc(arg[1]) else z3.IntVal(arg[1])
                    elif arg[0] == 'ptr' and str(arg[1]) == 'g:@intOne': a[f] = z3.IntVal(1)
                    elif arg[0] == 'ptr' and f in ('ALPHA', 'BETA') and str(arg[1]).startswith('g:@'): pass     # scalar constant of base.c (One/Zero): not part of any footprint
                    else:
                        okargs = False; res['unsupported'].append('%s: argument %s is %r' % (ev.name, f, arg[:2])); break
                if not okargs: continue
                try:
                    fps, pres = B.footprints(base, a)
                except KeyError as e:
                    res['unsupported'].append('%s: footprint needs %s' % (ev.name, e)); continue
                oks, okps, per = [], [], []
                for arr, (mname, off) in arrays.items():
                    M = sc.mats[mname]
                    size = M.len * M.esize()
                    fp = fps[arr]
                    offt = off if not X.is_conc(off) else z3.IntVal(off)
                    # the reference routine validates its own arguments first (XERBLA, return without touching memory)
                    ok = z3.Or(z3.Not(z3.And(*pres)) if pres else z3.BoolVal(False), fp <= 0, z3.And(offt >= 0, offt + fp*es <= size))
                    oks.append(ok)
                    offkw = sc.offset_kw(mname)
                    okp = None
                    if offkw is not None:
                        want = M.esize() * offkw
                        okp = z3.Or(offt == want, z3.And(es < M.esize(), offt == want + 8))
                        okps.append(okp)
                    per.append((arr, mname, ok, okp))
                # Q_small: one query for all arrays of this call; split only if it is not unsat
                r, m, dt = query(p['pc'], noovf + [z3.Not(z3.And(*oks))])
                if r == 'unsat':
                    for _ in per: count('C19', 'unsat', dt/len(per))
                else:
                    for arr, mname, ok, okp in per:
                        r, m, dt = query(p['pc'], noovf + [z3.Not(ok)])
                        count('C19', r if r in ('unsat', 'sat') else 'unknown', dt)
                        if r == 'sat':
                            r2, m2, _ = query(p['pc'], noovf + [z3.Not(ok)] + [z3.And(M2.nrows >= 1, M2.ncols >= 1, M2.nrows <= 4, M2.ncols <= 4) for M2 in sc.mats.values()])   # prefer an instance that replays quickly
                            if r2 == 'sat': m = m2
                        if r == 'sat': res['findings'].append(finding(fname, 'C19', 'Q_small', '%s: array %s (matrix %s) footprint outside the buffer without integer overflow' % (ev.name, arr, mname), m, sc, mask, key='%s:%s:footprint' % (fname, mname)))
                        elif r != 'unsat': res['unsupported'].append('%s %s: Q_small undecided' % (ev.name, arr))
                # Q_ptr
                if okps:
                    r, m, dt = query(p['pc'], noovf + [z3.Not(z3.And(*okps))])
                    if r == 'unsat':
                        for _ in okps: count('C17', 'unsat', dt/len(okps))
                    else:
                        for arr, mname, ok, okp in per:
                            if okp is None: continue
                            r, m, dt = query(p['pc'], noovf + [z3.Not(okp)])
                            count('C17', r if r in ('unsat', 'sat') else 'unknown', dt)
                            if r == 'sat': res['findings'].append(finding(fname, 'C17', 'Q_ptr', '%s: pointer for array %s is not buffer(%s) + offset*elementsize' % (ev.name, arr, mname), m, sc, mask, key='%s:%s:pointer' % (fname, mname)))
                # Q_ld / Q_def: documented defaults of omitted keywords
                if cfg.get('scenario') != 'base':
                    check_documented_defaults(fname, 'C17', p, sc, mask, a, {arr: mname for arr, (mname, off) in arrays.items()}, query, noovf, count, res,
                                              first_event=(ev is p['events'][0]))
                # Q_scal: gemv / gbmv replace the routine by y := beta*y when A has no columns (rows): the vector scaled has the length of y
                if fname in ('gemv', 'gbmv') and base == 'scal' and 'N' in a:
                    try:
                        env = _Env(sc, p['mem'])
                        mloc, nloc = env.flag('m'), env.flag('n')
                        want = z3.If(env.flag('trans') == _N, mloc, nloc)
                        bad = [a['N'] != want]
                        r, m, dt = query(p['pc'], noovf + bad)
                        count('C17', r if r in ('unsat', 'sat') else 'unknown', dt)
                        if r == 'sat':
                            r2, m2, _ = query(p['pc'], noovf + bad + [z3.And(M2.nrows <= 4, M2.ncols <= 4) for M2 in sc.mats.values()] + [want >= 2, want <= 3])
                            if r2 == 'sat': m = m2
                            res['findings'].append(finding(fname, 'C17', 'Q_scal', '%s: y := beta*y for an empty A scales a vector whose length is not the length of y' % fname, m, sc, mask,
                                                           key='%s:empty-A-scaling' % fname, diff={'scaled': 'y', 'count': model_int(m, want), 'module': 'blas'}))
                    except KeyError: pass
                # Q_wrap (bounded sizes so that a model is a replayable call); once per (wrapper, matrix)
                small = [z3.And(M2.nrows <= 64, M2.ncols <= 64) for M2 in sc.mats.values()]
                for arr, mname, ok, okp in per:
                    wkey = '%s:%s:int-overflow' % (fname, mname)
                    res.setdefault('pairs', {})[wkey] = res.get('pairs', {}).get(wkey, 0) + 1
                    if wkey in wrap_found: continue
                    # prefer a non-degenerate instance (non-unit diagonal, dimensions >= 2, nonzero scalars) so that
                    # the reference routine really touches the array; fall back to any instance
                    hints = []
                    for nm_, lo_ in (('N', 2), ('M', 2), ('K', 1)):
                        if nm_ in a: hints.append(a[nm_] >= lo_)
                    if 'DIAG' in a: hints.append(a['DIAG'] == ord('N'))
                    r, m, dt = query(p['pc'], small + hints + [z3.Not(ok)])
                    if r != 'sat': r, m, dt = query(p['pc'], small + [z3.Not(ok)])
                    count('C19', r if r in ('unsat', 'sat') else 'unknown', dt)
                    if r == 'sat':
                        wrap_found.add(wkey)
                        res['findings'].append(finding(fname, 'C19', 'Q_wrap', '%s: array %s (matrix %s) footprint outside the buffer after C int wrap-around in the wrapper\'s length check' % (ev.name, arr, mname), m, sc, mask, key=wkey))
                if res['sample'] is None:
                    res['sample'] = {'wrapper': fname, 'event': ev.name, 'formals': formals, 'actuals': [str(x)[:80] for x in ev.args], 'path_constraints': len(p['pc'])}
    res['wall'] = round(time.time() - t0, 1)
    return res

# ---- documented defaults (transcribed from the docstrings / doc/source/blas.rst): dimension keywords that are omitted (negative)
_N, _L = ord('N'), ord('L')
DEFAULT_DIMS = {
    'gemm': {'m': lambda e: e.ite(e.flag('transA') == _N, e.rows('A'), e.cols('A')), 'n': lambda e: e.ite(e.flag('transB') == _N, e.cols('B'), e.rows('B')),
             'k': lambda e: e.ite(e.flag('transA') == _N, e.cols('A'), e.rows('A'))},
    'syrk': {'n': lambda e: e.ite(e.flag('trans') == _N, e.rows('A'), e.cols('A')), 'k': lambda e: e.ite(e.flag('trans') == _N, e.cols('A'), e.rows('A'))},
    'trmm': {'m': lambda e: e.ite(e.flag('side') == _L, e.rows('A'), e.rows('B')), 'n': lambda e: e.ite(e.flag('side') == _L, e.cols('B'), e.rows('A'))},
}
DEFAULT_DIMS['herk'] = DEFAULT_DIMS['syrk']; DEFAULT_DIMS['syr2k'] = DEFAULT_DIMS['syrk']; DEFAULT_DIMS['her2k'] = DEFAULT_DIMS['syrk']
DEFAULT_DIMS['trsm'] = DEFAULT_DIMS['trmm']

class _Env(object):
    def __init__(self, sc, mem):
        self.sc, self.mem = sc, mem
    def ite(self, c, a, b):
        import z3
        return z3.If(c, a, b)
    def flag(self, nm):
        import z3
        from vp.llsym.exec import is_conc
        v = self.mem.get(('a:%' + nm, 0))
        if v is None: raise KeyError(nm)
        return z3.IntVal(v) if is_conc(v) else v
    def rows(self, nm): return self.sc.mats[nm].nrows
    def cols(self, nm): return self.sc.mats[nm].ncols

def kw_value(sc, nm):
    import z3
    if nm not in sc.kw or sc.kw[nm][0] != 'i': return None
    _, g, v, cur = sc.kw[nm]
    if isinstance(g, bool): return v
    return z3.If(g, v, z3.IntVal(cur) if isinstance(cur, int) else cur)

def model_int(m, t):
    import z3
    try:
        v = m.eval(t, model_completion=True)
        return v.as_long() if z3.is_int_value(v) else None
    except Exception: return None

DEFAULT_PATHS = 12
def _budget(res, key):
    """the default of an omitted keyword is computed in the straight-line prefix of a wrapper, before the error-exit chain of the
    buffer checks fans out: the obligation is decided on the first DEFAULT_PATHS accepted paths of each (wrapper, scenario, keyword)
    (stated bound) instead of on each of the thousands of paths that share that prefix"""
    d = res.setdefault('_defcount', {})
    d[key] = d.get(key, 0) + 1
    return d[key] <= DEFAULT_PATHS

_SLICE_CACHE = {}
def sliced_unsat(key, hyps_all, bad, timeout_ms=10000):
    """is `bad` refuted already by the cone of influence of its variables inside hyps_all?  (sound: a subset of the hypotheses.)
    The refuting subset is remembered per key (ids of the terms involved) and reused on every later path whose hypotheses
    contain it - the defaults are computed in the common prefix of a wrapper's paths, so one solver call serves thousands"""
    import z3
    def consts_of(f):       # uninterpreted constants of a formula (no global cache: nothing is kept alive)
        out = set(); seen = set(); work = [f]
        while work:
            t = work.pop()
            i = t.get_id()
            if i in seen: continue
            seen.add(i)
            if z3.is_const(t) and t.decl().kind() == z3.Z3_OP_UNINTERPRETED: out.add(t.decl().name())
            else: work.extend(t.children())
        return out
    ids = set(f.get_id() for f in hyps_all)
    ent = _SLICE_CACHE.get(key)
    if ent is not None and ent[0] <= ids: return True
    want = set()
    for f in bad: want |= consts_of(f)
    rest = [(f, consts_of(f)) for f in hyps_all]
    hyps = []
    changed = True
    while changed:
        changed = False
        keep = []
        for f, cs in rest:
            if cs & want:
                hyps.append(f); want |= cs; changed = True
            else: keep.append((f, cs))
        rest = keep
    s_ = z3.Solver(); s_.set('timeout', timeout_ms)
    for f in hyps + list(bad): s_.add(f)
    if s_.check() == z3.unsat:
        _SLICE_CACHE[key] = (frozenset(f.get_id() for f in hyps), hyps)      # the terms are kept alive: ids are recycled otherwise
        return True
    return False

def check_documented_defaults(fname, prop, p, sc, mask, a, arrays, query, noovf, count, res, module='blas', first_event=True):
    """Q_ld: an omitted leading dimension (0) reaches the routine as max(1, <matrix>.size[0]);
    Q_def: an omitted dimension keyword (negative) gets its documented default (tables above, blas level 3).
    a: formal -> term of the call event; arrays: formal -> matrix name (only arrays that are the caller's buffers)"""
    import z3
    from vp.llsym.exec import is_conc
    small = [z3.And(M2.nrows >= 2, M2.ncols >= 2, M2.nrows <= 4, M2.ncols <= 4) for M2 in sc.mats.values()]
    for arr, mname in arrays.items():
        ldf, kwn = 'LD' + arr, 'ld' + mname
        kv = kw_value(sc, kwn)
        if ldf not in a or kv is None or mname not in sc.mats: continue
        M = sc.mats[mname]
        want = z3.If(M.nrows >= 1, M.nrows, z3.IntVal(1))
        bad = [kv == 0, a[ldf] != want]
        if not _budget(res, ('ld', kwn)): continue
        r, m, dt = query(p['pc'], noovf + bad)
        count(prop, r if r in ('unsat', 'sat') else 'unknown', dt)
        if r == 'sat':
            hints = [a[x] >= 2 for x in ('N', 'M', 'NRHS') if x in a]
            r2, m2, _ = query(p['pc'], noovf + bad + small + hints)
            if r2 != 'sat': r2, m2, _ = query(p['pc'], noovf + bad + small)
            if r2 == 'sat': m = m2
            res['findings'].append(finding(fname, prop, 'Q_ld', '%s: with %s omitted the routine gets a leading dimension different from the documented default max(1, %s.size[0])' % (fname, kwn, mname),
                                           m, sc, mask, key='%s:%s:default' % (fname, kwn), diff={'kw': kwn, 'value': model_int(m, want), 'module': module}))
    if first_event and fname in DEFAULT_DIMS:
        env = _Env(sc, p['mem'])
        for dim, fdef in DEFAULT_DIMS[fname].items():
            kv = kw_value(sc, dim); loc = p['mem'].get(('a:%' + dim, 0))
            if kv is None or loc is None: continue
            try: want = fdef(env)
            except KeyError: continue
            loc = z3.IntVal(loc) if is_conc(loc) else loc
            bad = [kv < 0, loc != want]
            if not _budget(res, ('def', dim)): continue
            r, m, dt = query(p['pc'], noovf + bad)
            count(prop, r if r in ('unsat', 'sat') else 'unknown', dt)
            if r == 'sat':
                r2, m2, _ = query(p['pc'], noovf + bad + [z3.And(M2.nrows >= 1, M2.ncols >= 1, M2.nrows <= 4, M2.ncols <= 4) for M2 in sc.mats.values()])
                if r2 == 'sat': m = m2
                res['findings'].append(finding(fname, prop, 'Q_def', '%s: with %s omitted the wrapper does not use the documented default dimension' % (fname, dim),
                                               m, sc, mask, key='%s:%s:default' % (fname, dim), diff={'kw': dim, 'value': model_int(m, want), 'module': module}))

BASE_WRAPPERS = ('base_gemm', 'base_gemv', 'base_syrk', 'base_symv', 'base_axpy')
QUICK = {  # wrapper -> locals whose vanishing makes the reference operation a no-op ('any' of them == 0 / <= 0)
    'swap': ['n'], 'scal': ['n'], 'copy': ['n'], 'axpy': ['n'], 'dot': ['n'], 'dotu': ['n'], 'nrm2': ['n'], 'asum': ['n'], 'iamax': ['n'],
    'gemv': ['m', 'n'], 'gbmv': ['m', 'n'], 'symv': ['n'], 'hemv': ['n'], 'sbmv': ['n'], 'hbmv': ['n'], 'trmv': ['n'], 'tbmv': ['n'], 'trsv': ['n'], 'tbsv': ['n'],
    'ger': ['m', 'n'], 'geru': ['m', 'n'], 'syr': ['n'], 'her': ['n'], 'syr2': ['n'], 'her2': ['n'],
    'base_gemm': ['m', 'n'], 'base_gemv': ['m', 'n'], 'base_syrk': ['n'], 'base_symv': ['n'], 'base_axpy': ['n'],
    'gemm': ['m', 'n'], 'symm': ['m', 'n'], 'hemm': ['m', 'n'], 'syrk': ['n'], 'herk': ['n'], 'syr2k': ['n'], 'her2k': ['n'], 'trmm': ['m', 'n'], 'trsm': ['m', 'n'],
}
def quick_return_condition(fname, mem):
    import z3
    from vp.llsym.exec import is_conc
    if fname not in QUICK: return None
    terms = []
    for nm in QUICK[fname]:
        v = mem.get(('a:%' + nm, 0))
        if v is None: return None
        terms.append((z3.IntVal(v) if is_conc(v) else v) <= 0)
    return z3.Or(*terms)

def finding(fname, prop, kind, text, model, sc, mask, key=None, diff=None):
    return {'fn': fname, 'prop': prop, 'kind': kind, 'text': text, 'key': key or ('%s:%s' % (fname, kind)), 'call': sc.render_call(fname, model), 'mask': mask, 'diff': diff}

from vp.llsym.scen_wrap import WrapScenario
class MaskScenario(WrapScenario):
    """optional object keywords supplied according to a bitmask (resolved while parsing)"""
    def __init__(self, mod, mask):
        WrapScenario.__init__(self, mod)
        self.mask = mask
    def parse_args(self, ex, st, vals):
        fmt = ex.cstring(vals[2])
        kwl = vals[3]
        names = self.read_kwlist(ex, st, kwl)
        opt = False; k = 0; given = set()
        for ch, nm in zip([c for c in fmt.split(':')[0] if c != '|' or True], []): pass
        idx = 0
        for ch in fmt.split(':')[0]:
            if ch == '|': opt = True; continue
            if ch == 'O' and opt:
                if (self.mask >> k) & 1: given.add(names[idx])
                k += 1
            idx += 1
        self.given_objects = given
        self.names = names
        return WrapScenario.parse_args(self, ex, st, vals)
    def offset_kw(self, mname):
        return self._offset_kw(mname)
    def _offset_kw(self, mname):
        for cand in ('offset' + mname, 'offset'):
            if cand in self.kw and self.kw[cand][0] == 'i':
                _, g, v, cur = self.kw[cand]
                import z3
                return z3.If(g, v, cur) if not isinstance(g, bool) else v
        return None
    def render_call(self, fname, model):
        """python source of the call described by a model"""
        import z3
        if model is None: return None
        def ev(t, default=0):
            try:
                v = model.eval(t, model_completion=True)
                return v.as_long() if z3.is_int_value(v) else (bool(v) if z3.is_bool(v) else default)
            except Exception: return default
        setup = []; pos = []; kws = []
        fmt = self.parsed['fmt'].split(':')[0]; opt = False; idx = 0
        for ch in fmt:
            if ch == '|': opt = True; continue
            nm = self.names[idx]; idx += 1
            if ch == 'O':
                if opt and nm not in self.given_objects: continue
                if nm in self.mats:
                    M = self.mats[nm]; tc = {0: 'i', 1: 'd', 2: 'z'}[ev(M.id, 1)]
                    nr, nc = ev(M.nrows), ev(M.ncols)
                    fill = {'i': '1', 'd': '1.0', 'z': '1.0+0.5j'}[tc]
                    setup.append("%s = matrix(%s, (%d, %d), '%s')" % (nm, fill, nr, nc, tc)); val = nm
                else: val = '2.0'
                (kws if opt else pos).append(val if not opt else '%s=%s' % (nm, val))
            elif ch in ('i', 'C'):
                _, g, v, cur = self.kw[nm]
                if opt and not ev(g, False): continue
                x = ev(v)
                val = repr(chr(x)) if ch == 'C' else str(x)
                (kws if opt else pos).append(val if not opt else '%s=%s' % (nm, val))
        return {'setup': setup, 'call': 'blas.%s(%s)' % (fname, ', '.join(pos + kws))}

# ------------------------------------------------------------------------------------------ replay

REPLAY_PROG = r'''
import sys, json
from cvxopt import matrix, blas, base, lapack
spec = json.loads(sys.argv[1])
ns = {'matrix': matrix, 'blas': blas, 'base': base, 'lapack': lapack}
for s in spec['setup']: exec(s, ns)
try:
    r = eval(spec['call'], ns)
    print('RESULT ok')
except (TypeError, ValueError, ArithmeticError) as e:
    print('RESULT raises %s' % type(e).__name__)
'''

def memcheck_errors(stderr):
    """memcheck reports that do not come from the dynamic loader, as 'Invalid read of size 8 in f'"""
    out = []
    for b in re.split(r'\n==\d+== \n', stderr):
        m = re.search(r'(Invalid (?:read|write) of size \d+|Process terminating with default action of signal \d+)', b)
        if not m: continue
        if 'dl-load.c' in b or '_dl_' in b or 'dl-open.c' in b: continue
        where = re.search(r'(?:at|by) 0x[0-9A-F]+: (\w+) \(', b)
        out.append('%s in %s' % (m.group(1), where.group(1) if where else '?'))
    return out

def replay_call(callspec, timeout=300):
    """runs the rendered call on the real build under valgrind; returns description if a memory error / crash is observed"""
    from vp import common
    ov = common.overlay()
    env = dict(os.environ); env['PYTHONPATH'] = ov; env['PYTHONMALLOC'] = 'malloc'; env['OPENBLAS_NUM_THREADS'] = '1'
    cmd = ['valgrind', '-q', '--error-exitcode=97', '--errors-for-leak-kinds=none', '--leak-check=no', common.VENV_PY, '-c', REPLAY_PROG, json.dumps(callspec)]
    try:
        r = subprocess.run(cmd, capture_output=True, text=True, timeout=timeout, env=env)
    except subprocess.TimeoutExpired:
        return None, 'valgrind timed out'
    # memcheck reports are split into blocks; blocks that come from the dynamic loader (ld.so reads a few bytes
    # past short strings while resolving rpaths - present in every run) are noise, not evidence
    errs = memcheck_errors(r.stderr)
    if errs: return 'memcheck: %s during %s' % (errs[0], callspec['call']), None
    if r.returncode < 0 or r.returncode in (139, 134):
        return 'fatal signal (rc %d) in %s' % (r.returncode, callspec['call']), None
    return None, 'no memory error observed (%s)' % (r.stdout.strip()[-40:])

DIFF_PROG = r'''
import sys, json
from cvxopt import matrix, blas, base, lapack
spec = json.loads(sys.argv[1]); diff = spec['diff']
def fresh():
    ns = {'matrix': matrix, 'blas': blas, 'base': base, 'lapack': lapack}
    for s in spec['setup']: exec(s, ns)
    k = 0
    for nm, v in sorted(ns.items()):
        if isinstance(v, matrix) and v.typecode in ('d', 'z'):
            for i in range(len(v)):
                k += 1; v[i] = (((7*k) % 11) - 5.0) if v.typecode == 'd' else complex(((7*k) % 11) - 5.0, ((3*k) % 7) - 3.0)
    # a generic symmetric positive definite leading block helps the LAPACK solvers; harmless for BLAS
    return ns
def run(call):
    ns = fresh()
    try: eval(call, ns); out = 'ok'
    except (TypeError, ValueError, ArithmeticError) as e: out = 'raises ' + type(e).__name__
    return out, {nm: list(v) for nm, v in ns.items() if isinstance(v, matrix)}, ns
call = spec['call']
if 'kw' in diff:
    o1, m1, _ = run(call)
    import re
    if re.search(r'\\b%s=' % diff['kw'], call): call2 = re.sub(r'\\b%s=-?\\d+' % diff['kw'], '%s=%d' % (diff['kw'], diff['value']), call)
    else: call2 = call[:-1] + (', ' if not call.endswith('(') else '') + '%s=%d)' % (diff['kw'], diff['value'])
    o2, m2, _ = run(call2)
    same = (o1 == o2) and all(len(m1[k]) == len(m2[k]) and all(abs(a - b) <= 1e-9*(1 + abs(b)) for a, b in zip(m1[k], m2[k])) for k in m1)
    print('RESULT ' + ('same' if same else 'DIFFERENT: omitted -> %s, %s=%d -> %s' % (o1, diff['kw'], diff['value'], o2)))
else:
    ns0 = fresh(); y0 = list(ns0[diff['scaled']])
    o1, m1, ns = run(call)
    import re
    def kwv(nm, dflt):
        m = re.search(r'\b%s=([^,)]+)' % nm, call)
        return eval(m.group(1)) if m else dflt
    beta, inc, off = kwv('beta', 0.0), abs(kwv('incy', 1)), kwv('offsety', 0)
    y1 = m1[diff['scaled']]
    bad = [i for i in range(diff['count']) if off + i*inc < len(y1) and abs(y1[off + i*inc] - beta*y0[off + i*inc]) > 1e-9*(1 + abs(y0[off + i*inc]))]
    print('RESULT ' + ('same' if (o1 != 'ok' or not bad) else 'DIFFERENT: y is not beta*y at positions %s' % bad[:4]))
'''

def replay_diff(callspec, diff, timeout=120):
    """differential replay on the real build: the call with the keyword omitted against the same call with the documented
    default passed explicitly (or, for the empty-A case of gemv, against beta*y); returns a description if they differ"""
    from vp import common
    if diff is None or (('kw' in diff) and diff.get('value') is None) or (('scaled' in diff) and diff.get('count') is None): return None, 'no concrete default in the model'
    ov = common.overlay()
    env = dict(os.environ); env['PYTHONPATH'] = ov; env['OPENBLAS_NUM_THREADS'] = '1'
    spec = dict(callspec); spec['diff'] = diff
    try: r = subprocess.run([common.VENV_PY, '-c', DIFF_PROG, json.dumps(spec)], capture_output=True, text=True, timeout=timeout, env=env)
    except subprocess.TimeoutExpired: return None, 'timed out'
    out = [l for l in r.stdout.splitlines() if l.startswith('RESULT')]
    if r.returncode < 0: return 'fatal signal (rc %d) in %s' % (r.returncode, callspec['call']), None
    if out and out[-1].startswith('RESULT DIFFERENT'): return '%s: %s' % (callspec['call'], out[-1][7:]), None
    return None, 'no difference observed (%s %s)' % (out[-1] if out else '', r.stderr[-200:])

def replay_main(path):
    d = json.load(open(path))
    if d.get('diff'):
        cs = dict(d['call']); cs['call'] = cs['call'].replace('blas.base_', 'base.', 1)
        rep, why = replay_diff(cs, d['diff'])
        if rep: print('REPRODUCED on the real build: %s' % rep); return 1
        print(why); return 0
    cs = dict(d['call']); cs['call'] = cs['call'].replace('blas.base_', 'base.', 1)
    rep, why = replay_call(cs)
    if rep: print('REPRODUCED on the real build: %s' % rep); return 1
    print(why); return 0

class BaseMaskScenario(MaskScenario):
    """base.c wrappers (gemm, gemv, syrk, symv, axpy), all-dense variant: every matrix argument is a dense 'd' matrix
    (type checks against matrix_tp succeed, against spmatrix_tp fail), number conversion through convert_num[1]"""
    def __init__(self, mod, mask):
        MaskScenario.__init__(self, mod, mask)
        self.id_fixed = 1
    def scalar_objects(self):
        return set(n for n in self.kw if n in ('alpha', 'beta', 'partial'))
    def external_load(self, ex, st, region, off, ty):
        g = region[3:]
        from vp.llsym.exec import is_conc, Unsupported, Ptr
        if g in ('convert_num', 'write_num', 'sp_gemm', 'sp_gemv', 'sp_syrk', 'sp_symv', 'sp_axpy'):
            if not is_conc(off): raise Unsupported('symbolic index into table %s' % g)
            return Ptr('fn:%s#%d' % (g, off//8), 0)
        if g == 'E_SIZE':
            if not is_conc(off): raise Unsupported('symbolic index into E_SIZE')
            return [8, 8, 16][off//4]
        raise Unsupported('load from external global %s' % g)
    def call(self, ex, st, name, args, rt):
        from vp.llsym.exec import Ptr, NULL, Unsupported
        vals = [v for _, v in args]
        if name in ('PyObject_TypeCheck', 'Py_IS_TYPE'):
            o, tp = vals[0], vals[1]
            tname = tp.region[3:] if isinstance(tp, Ptr) and str(tp.region).startswith('g:@') else None
            if tname == 'matrix_tp':
                ok = isinstance(o, Ptr) and str(o.region).startswith('obj:') and o.region[4:] not in ('None', 'result', 'self', 'args', 'kwrds') and \
                     (o.region[4:] in self.mats or self._is_matrix_kw(o.region[4:]))
                return 1 if ok else 0
            if tname == 'spmatrix_tp': return 0
            if tname == 'PyBool_Type': return 1
            raise Unsupported('type check against %s' % tname)
        if name.startswith('convert_num#') or name in ('convert_dnum', 'convert_znum', 'convert_inum'):
            import z3
            r = ex.fresh('numconv'); ex.assume(st, z3.Or(r == 0, r == -1))
            a = vals[0]
            if isinstance(a, Ptr) and a.region:
                st.mem[(a.region, a.off if isinstance(a.off, int) else 0)] = ex.fresh('num_re', 'real')
            return r
        if name in ('PyLong_AsLong',): return ex.fresh('aslong')
        return MaskScenario.call(self, ex, st, name, args, rt)

# ------------------------------------------------------------------------------------------ driver

def main(tier, pid='C17', ev=None, src='blas'):
    from vp import common
    from vp.llsym import ir
    shared = ev is not None
    if ev is None: ev = common.Evidence(pid, 'model_checking', tier)
    work = tempfile.mkdtemp(prefix='vp.ir.', dir='/var/tmp')
    try:
        cfile = os.path.join(common.REPO, 'src', 'C', src + '.c')
        ll = ir.compile_to_ir(cfile, common.REPO, work)
        mod = ir.Module(open(ll).read())
        names = wrapper_names(mod) if src == 'blas' else [n for n in wrapper_names(mod) if n in BASE_WRAPPERS]
        cfgs = []
        for fn in names:
            masks = scenarios_for(mod, fn)
            if tier == 'quick' and len(masks) > 2: masks = [masks[0], masks[-1]]     # optional scalars: none / all supplied
            for mk in masks:            # one job per (wrapper, optional-object scenario): better load balance
                cfgs.append({'ll': ll, 'fn': fn, 'masks': [mk], 'timeout_ms': 10000 if tier == 'quick' else 60000, 'max_paths': 40000, 'scenario': src})
        cfgs.sort(key=lambda c: -len(mod.functions[c['fn']].order))      # biggest wrappers first
        results = common.run_jobs('vp.checks.c17', 'job', cfgs)
        known = common.known_findings(pid)
        violations, known_hits, herr, inconc = [], [], [], []
        paths = events = bq = 0; groups = {}; allpairs = set()
        for r in results:
            if not r['ok']:
                herr.append('%s: %s' % (r['cfg']['fn'], r['err'])); continue
            res = r['res']
            paths += res['paths']; events += res['events']; bq += res['branch_queries']
            bp = res['by_prop'].get(pid)
            if bp:
                for key in ('total', 'unsat', 'sat', 'unknown'): ev.obl[key] += bp[key]
            ev.solver_s += res['solver_s']
            if res['sample']: ev.sample(res['sample'], cap=5)
            for u in res['unsupported']: herr.append('%s: %s' % (res['fn'], u))
            for wk in res.get('pairs', {}): allpairs.add(src + '.' + wk)
            for f in res['findings']:
                if f['prop'] != pid: continue
                groups.setdefault(src + '.' + f['key'], []).append(f)
        new_keys = [k for k in sorted(groups) if k not in known]
        for k in sorted(groups):
            f = groups[k][0]
            if k in known:
                known_hits.append((k, known[k]['what'])); continue
            rp = common.write_replay(pid, k, {'property': pid, 'key': k, 'text': f['text'], 'call': f['call'], 'diff': f.get('diff')})
            rep, why = (None, 'no call rendered')
            for f2 in groups[k][:3]:
                if f2['call']:
                    cs = dict(f2['call']); cs['call'] = cs['call'].replace('blas.base_', 'base.', 1)
                    rep, why = replay_diff(cs, f2.get('diff')) if f2['kind'] in ('Q_ld', 'Q_def', 'Q_scal') else replay_call(cs)
                    if rep: break
            if rep: violations.append((k, rp, '%s -> %s' % (f['text'], rep)))
            elif f['kind'] in ('Q_ptr', 'Q_rej', 'Q_zero'):
                # wrong-but-in-bounds addressing does not show in memcheck: report with the rendered call
                violations.append((k, rp, '%s (call: %s; not observable as a memory error: %s)' % (f['text'], (f['call'] or {}).get('call'), why)))
            else:
                herr.append('%s: counterexample %s - %s' % (k, (f['call'] or {}).get('call'), why))
        ev.extra['finding_keys_' + src] = sorted(groups)
        ev.extra['wrapper_matrix_pairs_' + src] = sorted(allpairs)
        ev.extra['known_keys_hit'] = len(known_hits)
        covd = ({'states': max(1, paths) + ev.cov.get('states', 0), 'transitions': max(1, ev.obl['total']), 'traces_validated_against_impl': 0,
                       'functions_encoded': ev.cov.get('functions_encoded', []) + [src + '.c: ' + ', '.join(sorted(names))], src + '_call_events_checked': events, 'branch_queries': bq,
                       'source_hash': ir.src_hash(cfile),
                       'bounds': (ev.cov.get('bounds', '') + ' | ' if ev.cov.get('bounds') else '') + ('all %d wrappers of blas.c' if src == 'blas' else 'the %d BLAS-backed wrappers of base.c with dense d arguments') % len(names) + '; every int keyword over the full 32-bit range (given or omitted), matrix shapes 0 <= nrows, ncols, nrows*ncols < 2^31, typecode in {i,d,z}, flags any character, optional scalar objects given/omitted; loops unrolled <= 3 (none occur)'})
        ev.cov.update(covd)
        ev.assumptions += ['C int arithmetic: z3 Int with explicit wrap-around variables; paths "without overflow" exclude every wrap event',
                           'CPython API / cvxopt_API calls are contract stubs (argument parsing = arbitrary well-typed values; Matrix_Check true for matrix arguments; number conversion may fail); sparse arguments and allocation failure are outside',
                           'the external BLAS is trusted to stay inside the reference footprint; numerics are not claimed']
        if shared: return violations, sorted(dict(known_hits).items()), herr, inconc
        return common.finish(ev, violations, sorted(dict(known_hits).items()), herr, inconc)
    finally:
        shutil.rmtree(work, True)
