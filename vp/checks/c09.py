"""C09 - solver calls are isolated and configurable (options= override, validation, maxiters,
no modification of inputs / option dictionaries).

Engine X: CrossHair on the REAL build of /repo.  For each of the ten entry points the option
value (maxiters as a symbolic int, feastol as a symbolic float, refinement as a symbolic int,
a global/per-call pair of ints) flows through the real validation code, the real
`for iters in range(MAXITERS+1)` loop and the real termination tests; numerics run
concretely in C on one tiny fixed problem per entry point.  'Confirmed over all paths' is
required for every condition.  History- and thread-level isolation (bit-identical results,
concurrent solves) is outside what can be encoded and is not claimed.
"""
import json, os, re, subprocess, sys, tempfile, shutil, time, concurrent.futures
from vp.checks.c13 import ensure_xh, run_condition

ENTRY = ['conelp', 'lp', 'coneqp', 'qp', 'socp', 'sdp', 'cp', 'cpl', 'gp', 'op.solve']

def gen_conditions(tier):
    src = ['from vp.xh.c09_props import maxiters_percall, maxiters_global, override, bad_type, feastol_validation, refinement_validation, inputs_unchanged\n']
    names = []
    def add(nm, body, sig, pre, desc):
        src.append('def %s(%s) -> bool:\n    """\n    pre: %s\n    post: _\n    """\n    return %s\n' % (nm, sig, pre, body))
        names.append((nm, desc))
    for e in ENTRY:
        t = e.replace('.', '_')
        hi = 6 if tier == 'quick' else 12
        add('maxiters_percall_%s' % t, 'maxiters_percall(%r, m)' % e, 'm: int', '-2 <= m <= %d' % hi,
            "%s(options={'maxiters': m}): ValueError iff m < 1, else <= m iterations and optimal or budget exhausted; option dicts unmodified" % e)
        add('maxiters_global_%s' % t, 'maxiters_global(%r, m)' % e, 'm: int', '-2 <= m <= %d' % hi,
            "%s with solvers.options['maxiters'] = m" % e)
        add('override_%s' % t, 'override(%r, g, m)' % e, 'g: int, m: int', '1 <= g <= 3 and 1 <= m <= %d' % (4 if tier == 'quick' else 8),
            "%s: per-call options['maxiters'] = m wins over global g (same result as without the global entry)" % e)
        add('badtype_%s' % t, 'bad_type(%r, kind)' % e, 'kind: int', '0 <= kind <= 3', "%s: non-integer maxiters (float, str, list) rejected with ValueError" % e)
        add('refinement_%s' % t, 'refinement_validation(%r, k)' % e, 'k: int', '-2 <= k <= 2', "%s: refinement must be a nonnegative integer" % e)
    src.append('def twin_reach(m: int) -> bool:\n    """\n    pre: 1 <= m <= 3\n    post: _\n    """\n    maxiters_percall("conelp", m)\n    return False\n')
    names.append(('twin_reach', 'reachability twin (must be refuted)'))
    return '\n'.join(src), names

def call_native(pyfile, fn, args, env):
    prog = ("import importlib.util; spec=importlib.util.spec_from_file_location('c09gen', %r); m=importlib.util.module_from_spec(spec); "
            "spec.loader.exec_module(m)\ntry:\n    print('RESULT', m.%s(%s))\nexcept Exception as e:\n    print('RESULT EXC', type(e).__name__, e)\n" % (pyfile, fn, args))
    r = subprocess.run(['/venv/bin/python', '-c', prog], capture_output=True, text=True, timeout=300, env=env)
    for ln in r.stdout.splitlines():
        if ln.startswith('RESULT'): return ln[7:].strip()
    return 'EXC (no result) ' + r.stderr[-200:]

def main(tier):
    from vp import common
    ev = common.Evidence('C09', 'model_checking', tier)
    site = ensure_xh(); ov = common.overlay()
    work = tempfile.mkdtemp(prefix='vp.c09.', dir='/var/tmp')
    try:
        src, names = gen_conditions(tier)
        pyfile = os.path.join(work, 'c09gen.py'); open(pyfile, 'w').write(src)
        lines = {}
        for i, ln in enumerate(src.splitlines(), 1):
            m = re.match(r'def (\w+)\(', ln)
            if m: lines[m.group(1)] = i + 1
        env = dict(os.environ); env['PYTHONPATH'] = os.pathsep.join([ov, site, common.VERIF])
        env['OMP_NUM_THREADS'] = '1'; env['OPENBLAS_NUM_THREADS'] = '1'
        tmo = 200 if tier == 'quick' else 900
        jobs = [(pyfile, nm, lines[nm], tmo, env) for nm, _ in names]
        results = {}
        with concurrent.futures.ThreadPoolExecutor(max_workers=16) as ex:
            for nm, out, dt in ex.map(run_condition, jobs): results[nm] = (out, dt)
        known = common.known_findings('C09')
        violations, known_hits, herr, inconc = [], [], [], []
        confirmed = 0
        for nm, desc in names:
            out, dt = results[nm]; ev.solver_s += dt
            if nm == 'twin_reach':
                if 'error: false when calling' in out: ev.add_obl('unsat')
                else: herr.append('reachability twin not refuted: %s' % out[-200:])
                continue
            if 'Confirmed over all paths' in out:
                ev.add_obl('unsat'); confirmed += 1
                ev.sample({'condition': nm, 'what': desc, 'crosshair': 'Confirmed over all paths', 'seconds': round(dt, 1)}, cap=8)
                continue
            m = re.search(r'error: (.*?) when calling (\w+)\((.*?)\)( \(which|\s*$)', out, re.M)
            if m:
                args = m.group(3)
                native = call_native(pyfile, nm, args, env)
                ev.add_obl('sat')
                key = nm
                rp = common.write_replay('C09', nm + args, {'property': 'C09', 'condition': nm, 'args': args, 'what': desc,
                                                            'crosshair': m.group(1), 'native_result': native})
                if native == 'True':
                    herr.append('%s(%s): CrossHair counterexample does not reproduce natively' % (nm, args))
                elif key in known: known_hits.append((key, known[key]['what']))
                else: violations.append((key, rp, '%s(%s) -> %s [%s]' % (nm, args, native, desc)))
                continue
            ev.add_obl('unknown')
            inconc.append('%s: %s' % (nm, (out.strip().splitlines() or ['no output'])[-1][:200]))
        # ---- engine P: cpl's state-saving block must not write into the start point the caller's F() returned
        from vp.checks import c10_save
        sb = [c for c in c10_save.configs(tier) if c['block'] == 'save']
        for r in common.run_jobs('vp.checks.c10_save', 'job', sb):
            cfg = {k: v for k, v in r['cfg'].items() if not k.startswith('_')}
            if not r['ok']: herr.append('%s: %s' % (json.dumps(cfg), r['err'])); continue
            res = r['res']
            for key in ('total', 'unsat', 'sat', 'unknown'): ev.obl[key] += res['obl'][key]
            ev.solver_s += res['solver_s']
            for e in res['errors']: herr.append('%s: %s' % (json.dumps(cfg), e))
            if not res['reach']: herr.append('%s: save block never executed' % json.dumps(cfg))
            for s_ in res['sat']:
                if s_.get('prop') != 'C09': continue
                key = c10_save.finding_key(cfg, s_['label'])
                if any(v[0] == key for v in violations): continue
                rp = common.write_replay('C09', json.dumps(cfg, sort_keys=True) + s_['label'], {'property': 'C09', 'cfg': cfg, 'label': s_['label'], 'model': s_['model']})
                rep, why = c10_save.replay_on_build(rp)
                if rep is None: herr.append('%s: counterexample for "%s" %s' % (json.dumps(cfg), s_['label'], why))
                elif key in known: known_hits.append((key, known[key]['what']))
                else: violations.append((key, rp, '%s: %s -> %s' % (json.dumps(cfg), s_['label'], rep)))
        ev.cov.update({'states': max(1, confirmed), 'transitions': max(1, ev.obl['total']), 'traces_validated_against_impl': confirmed,
                       'conditions': len(names), 'entry_points': ENTRY,
                       'functions_encoded': ['option parsing/validation and main loops of conelp, coneqp, cpl (and through them lp, qp, socp, sdp, cp, gp, op.solve)',
                                             "cvxprog.cpl: the state-saving block of the relaxed line search on symbols with the caller's start point read-only (engine P, z3)"],
                       'bounds': 'maxiters in [-2,%d]; override pairs g in [1,3], m in [1,%d]; refinement in [-2,2]; one fixed tiny problem per entry point; per-condition timeout %d s' % (6 if tier == 'quick' else 12, 4 if tier == 'quick' else 8, tmo)})
        ev.assumptions += ['numerics run concretely on one fixed problem per entry point (the option value is the symbolic quantity)',
                           'bit-identical repeatability across call histories and thread interleavings is NOT decided (global state inside BLAS/LAPACK and GIL-released C code cannot be encoded)',
                           'cp/cpl: the number of iterations is observed through the number of Hessian evaluations of the user F; gp and op.solve expose no iteration count (status only)']
        return common.finish(ev, violations, sorted(dict(known_hits).items()), herr, inconc)
    finally:
        shutil.rmtree(work, True)

def replay_main(path):
    d = json.load(open(path))
    if d.get('cfg', {}).get('part') == 'saveblock':
        from vp.checks import c10_save
        rep, why = c10_save.replay_on_build(path)
        print(('REPRODUCED on the real build: %s' % rep) if rep else why)
        return 1 if rep else 0
    print('recorded: %s(%s) -> %s' % (d['condition'], d['args'], d['native_result']))
    return 1 if d['native_result'] != 'True' else 0
