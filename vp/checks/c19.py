"""C19 - no argument values make the C extension access memory outside its matrices.
blas.c (all wrappers), lapack.c (the routines the solvers rely on) and the BLAS-backed wrappers of base.c (dense arguments): the symbolic runs of C17 / C18
(vp/checks/c17.py, c18.py), obligations Q_small / Q_wrap / direct accesses; one evidence file."""
from vp.checks import c17, c18
def main(tier):
    from vp import common
    ev = common.Evidence('C19', 'model_checking', tier)
    v1, k1, h1, i1 = c17.main(tier, 'C19', ev)
    v2, k2, h2, i2 = c18.main(tier, 'C19', ev)
    v3, k3, h3, i3 = c17.main(tier, 'C19', ev, src='base')
    ev.assumptions = sorted(set(ev.assumptions))
    return common.finish(ev, v1 + v2 + v3, sorted(set(k1 + k2 + k3)), h1 + h2 + h3, i1 + i2 + i3)
def replay_main(path):
    import json
    d = json.load(open(path))
    return (c18 if d.get('key', '').startswith('lapack.') else c17).replay_main(path)
