"""C03 - 'optimal' from coneqp satisfies the quadratic-program KKT conditions.

Engine P, same machinery as C01 (vp/checks/c01.py: generic exit-block engine): the real
coneqp source is executed from the loop head of an arbitrary iteration with an arbitrary
iterate; P's strict upper triangle holds independent junk symbols; the oracle symmetrises
from the lower triangle only.  Also the no-inequality shortcut (cdim == 0) with an exact KKT
contract stub.
"""
import json, sys, os, re, time
from vp.checks import conelp_h as H
from vp.oracles import cone as O
from vp.pysym.cut import Cut

DATA_RE = re.compile(r'^(q\d+|P\d+_\d+|G\d+_\d+|h\d+|A\d+_\d+|b\d+)$')

DIMS_QUICK = [
    {'l': 1, 'q': [], 's': []}, {'l': 2, 'q': [], 's': []}, {'l': 0, 'q': [2], 's': []},
    {'l': 0, 'q': [], 's': [2]}, {'l': 1, 'q': [2], 's': []}, {'l': 0, 'q': [], 's': [2, 2]},
    {'l': 0, 'q': [1], 's': [1]},
]
DIMS_THOROUGH = DIMS_QUICK + [{'l': 0, 'q': [3], 's': []}, {'l': 1, 'q': [], 's': [2]}, {'l': 1, 'q': [1, 2], 's': [2, 2]}]

def configs(tier):
    out = []
    box = DIMS_QUICK if tier == 'quick' else DIMS_THOROUGH
    for d in box:
        for (n, p) in ((1, 0), (2, 1)) if tier == 'quick' else ((1, 0), (2, 1), (2, 0), (3, 1)):
            for sparse in (False, True):
                if sparse and not (n == 2 and p == 1): continue
                out.append({'solver': 'coneqp', 'dims': d, 'n': n, 'p': p, 'sparse': sparse, 'kclass': 'lt'})
    for d in box[:2]:
        out.append({'solver': 'coneqp', 'dims': d, 'n': 2, 'p': 1, 'sparse': False, 'kclass': 'ge'})
    # no-inequality shortcut (cdim == 0), exact KKT contract stub
    for (n, p) in ((1, 0), (2, 1), (2, 0)) + (((3, 1), (3, 2)) if tier == 'thorough' else ()):
        out.append({'solver': 'coneqp', 'dims': {'l': 0, 'q': [], 's': []}, 'n': n, 'p': p, 'sparse': False, 'kclass': 'lt', 'shortcut': True})
    return out

# ------------------------------------------------------------------------------ running coneqp

def make_data(cfg, mk):
    dims, n, p = cfg['dims'], cfg['n'], cfg['p']
    N = H.N_of(dims)
    return {'P': [mk('P%d_%d' % (i, j)) for j in range(n) for i in range(n)],
            'q': [mk('q%d' % j) for j in range(n)],
            'G': [mk('G%d_%d' % (i, j)) for j in range(n) for i in range(N)],
            'h': [mk('h%d' % i) for i in range(N)],
            'A': [mk('A%d_%d' % (i, j)) for j in range(n) for i in range(p)],
            'b': [mk('b%d' % i) for i in range(p)]}

def run_coneqp(cfg, Wd, A, mk, assume, cap):
    dims, n, p = cfg['dims'], cfg['n'], cfg['p']
    N = H.N_of(dims)
    num = A.num
    d = make_data(cfg, mk)
    M = Wd.matrix
    def mat(vals, size): return M(list(vals), size, 'd') if size[0]*size[1] else M(0.0, size)
    P = mat(d['P'], (n, n)); q = mat(d['q'], (n, 1)); G = mat(d['G'], (N, n)); h = mat(d['h'], (N, 1))
    Am = mat(d['A'], (p, n)); b = mat(d['b'], (p, 1))
    if cfg.get('sparse'):
        if Wd.mode == 'sym':
            P = Wd.spmatrix._from_dense(P); G = Wd.spmatrix._from_dense(G); Am = Wd.spmatrix._from_dense(Am)
        else:
            from cvxopt import spmatrix
            def sp(Md):
                m_, n_ = Md.size
                return spmatrix(list(Md), [i for j in range(n_) for i in range(m_)], [j for j in range(n_) for i in range(m_)], (m_, n_))
            P = sp(P); G = sp(G); Am = sp(Am)
    for m in (q, h, b) + (() if cfg.get('sparse') else (P, G, Am)):
        try: m._ro = True
        except AttributeError: pass
    feastol, abstol, reltol = mk('feastol'), mk('abstol'), mk('reltol')
    assume(A.gt(num(feastol), A.const(0)))
    assume(A.or_(A.gt(num(abstol), A.const(0)), A.gt(num(reltol), A.const(0))))
    cap['opts'] = {'feastol': num(feastol), 'abstol': num(abstol), 'reltol': num(reltol)}
    maxiters = cfg.get('maxiters', 7)
    cap['maxiters'] = maxiters
    opts = {'show_progress': False, 'feastol': feastol, 'abstol': abstol, 'reltol': reltol, 'maxiters': maxiters}
    mod = Wd.coneprog
    def vp_iters(stop):
        k = mk('k', 'int')
        assume(A.ge(num(k), A.const(0))); assume(A.lt(num(k), num(stop)))
        kc = cfg.get('kclass')
        if kc == 'lt': assume(A.lt(num(k), A.const(maxiters)))
        elif kc == 'ge': assume(A.ge(num(k), A.const(maxiters)))
        cap['k'] = k
        yield k
        raise Cut('second iteration')
    def vp_havoc(which, loc, names):
        from vp.pysym.loader import havoc_result
        if which != 'coneqp': raise RuntimeError('unexpected havoc site ' + which)
        for nm in ('x', 'y', 's', 'z'):
            m = loc[nm]
            for i in range(len(m)): m[i] = mk('h%s%d' % (nm, i))
        s = [num(loc['s'][i]) for i in range(len(loc['s']))]
        z = [num(loc['z'][i]) for i in range(len(loc['z']))]
        assume(O.in_cone(A, s, dims, 0, strict=True)); assume(O.in_cone(A, z, dims, 0, strict=True))   # I3
        vals = {'gap': H.wrap_num(Wd, O.sdot(A, s, z, dims, 0))}                                      # I2
        extra = cap.get('havoc_extra')
        if extra is not None: vals.update(extra(loc))
        return havoc_result(loc, names, vals)
    def vp_ret(val, loc):
        cap['locals'] = dict(loc); return val
    mod.__dict__['__vp_iters__'] = vp_iters; mod.__dict__['__vp_havoc__'] = vp_havoc; mod.__dict__['__vp_ret__'] = vp_ret
    misc = Wd.misc
    saved = (misc.compute_scaling, misc.ssqr)
    if cfg.get('shortcut'):
        cap['k'] = 0
        # the direct solve has gap = 0 exactly; a negative absolute tolerance can be met by no
        # solution at all, so the gap sentence is only meaningful for abstol >= 0 (stated bound)
        assume(A.ge(num(abstol), A.const(0)))
        # exact KKT contract stub: the solve routine overwrites x, y with fresh values satisfying
        #   sym(P) ux + A' uy = bx,  A ux = by   (documented block system without inequalities)
        def kkt(W):
            def f3(x, y, z):
                bx = [num(x[j]) for j in range(n)]; by = [num(y[i]) for i in range(p)]
                ux = [mk('ux%d' % j) for j in range(n)]; uy = [mk('uy%d' % i) for i in range(p)]
                Pn = [num(e) for e in d['P']]; An = [num(e) for e in d['A']]
                for j in range(n):
                    lhs = O._sum((Pn[max(j, l) + min(j, l)*n]*num(ux[l]) for l in range(n)), A.const(0)) + \
                          O._sum((An[i + j*p]*num(uy[i]) for i in range(p)), A.const(0))
                    assume(A.eq(lhs, bx[j]))
                for i in range(p):
                    assume(A.eq(O._sum((An[i + j*p]*num(ux[j]) for j in range(n)), A.const(0)), by[i]))
                for j in range(n): x[j] = ux[j]
                for i in range(p): y[i] = uy[i]
            return f3
    else:
        def kkt(W): raise Cut('kktsolver reached')
        def _cut(*a, **k): raise Cut('past the exit block')
        misc.compute_scaling = _cut; misc.ssqr = _cut
    try:
        sol = mod.coneqp(P, q, G, h, dims, Am, b, initvals=({} if not cfg.get('shortcut') else None), kktsolver=kkt, options=opts)
    finally:
        misc.compute_scaling, misc.ssqr = saved
    return d, sol

# ------------------------------------------------------------------------------ oracle

def residuals(A, cfg, d, sol):
    dims, n, p = cfg['dims'], cfg['n'], cfg['p']
    N = H.N_of(dims)
    lw = H.lower_weights(dims)
    x, y, s, z = (H.vec_of(A, sol[k]) for k in ('x', 'y', 's', 'z'))
    zero = A.const(0)
    P, G, Am = d['P'], d['G'], d['A']
    Px = [O._sum((P[max(j, l) + min(j, l)*n]*x[l] for l in range(n)), zero) for j in range(n)]
    rx = [Px[j] + d['q'][j] + O._sum((Am[i + j*p]*y[i] for i in range(p)), zero) +
          O._sum((w*G[i + j*N]*z[i] for i, w in lw), zero) for j in range(n)]
    ry = [O._sum((Am[i + j*p]*x[j] for j in range(n)), zero) - d['b'][i] for i in range(p)]
    rz = {i: O._sum((G[i + j*N]*x[j] for j in range(n)), zero) + s[i] - d['h'][i] for i, w in lw}
    return {'rx': rx, 'ry': ry, 'rz': rz, 'Px': Px}

def sq_norms(A, cfg, d):
    lw = H.lower_weights(cfg['dims']); zero = A.const(0)
    return {'q2': O._sum((e*e for e in d['q']), zero), 'b2': O._sum((e*e for e in d['b']), zero),
            'h2': O._sum((w*d['h'][i]*d['h'][i] for i, w in lw), zero)}

def norms_from_res(A, cfg, d, res, status, scale=None):
    lw = H.lower_weights(cfg['dims']); zero = A.const(0)
    nm = dict(sq_norms(A, cfg, d))
    nm['Rx'] = O._sum((e*e for e in res['rx']), zero)
    nm['Ry'] = O._sum((e*e for e in res['ry']), zero)
    nm['Rz'] = O._sum((w*res['rz'][i]*res['rz'][i] for i, w in lw), zero)
    return nm

def claims(A, cfg, d, sol, nm, opts, k, maxiters):
    dims, n, p = cfg['dims'], cfg['n'], cfg['p']
    N = H.N_of(dims)
    num = A.num
    st = sol['status']
    zero = A.const(0)
    lw = H.lower_weights(dims)
    out = []
    def fld(name):
        v = sol[name]; return None if v is None else num(v)
    x, y, s, z = (H.vec_of(A, sol[kk]) for kk in ('x', 'y', 's', 'z'))
    def sdotL(u, v): return O._sum((w*u[i]*v[i] for i, w in lw), zero)
    def symmetric(v):
        cs = []
        for (stt, m) in O.layout(dims, 0)[2]:
            for j in range(m):
                for i in range(j + 1, m): cs.append(A.eq(v[stt + i + j*m], v[stt + j + i*m]))
        return A.and_(*cs)
    it = sol['iterations']
    if st not in ('optimal', 'unknown'):
        return [('C03', 'status is one of the documented strings', A.not_(A.true()), 'direct')]
    tag = 'C03' if st == 'optimal' else 'C10'
    out.append((tag, 'iterations==k', A.eq(num(it), num(k)), 'direct'))
    out.append((tag, 'iterations<=maxiters', A.le(num(it), num(maxiters)), 'direct'))
    P, G, Am = d['P'], d['G'], d['A']
    Px = [O._sum((P[max(j, l) + min(j, l)*n]*x[l] for l in range(n)), zero) for j in range(n)]
    pc_ = O._sum((x[j]*Px[j] for j in range(n)), zero)/2 + O._sum((d['q'][j]*x[j] for j in range(n)), zero)
    Axb = [O._sum((Am[i + j*p]*x[j] for j in range(n)), zero) - d['b'][i] for i in range(p)]
    Gxh = {i: O._sum((G[i + j*N]*x[j] for j in range(n)), zero) - d['h'][i] for i, w in lw}
    dc_ = pc_ + O._sum((y[i]*Axb[i] for i in range(p)), zero) + O._sum((w*z[i]*Gxh[i] for i, w in lw), zero)
    gap_ = sdotL(s, z) if N else zero
    P2 = A.max(nm['Ry'] / H.max1(A, nm['b2']), nm['Rz'] / H.max1(A, nm['h2']))
    D2 = nm['Rx'] / H.max1(A, nm['q2'])
    Fp, Fd = fld('primal infeasibility'), fld('dual infeasibility')
    out.append((tag, "%s: 'primal infeasibility' == recomputed" % st, A.and_(A.ge(Fp, zero), A.eq(Fp*Fp, P2)), 'abstract'))
    out.append((tag, "%s: 'dual infeasibility' == recomputed" % st, A.and_(A.ge(Fd, zero), A.eq(Fd*Fd, D2)), 'abstract'))
    out.append((tag, "%s: 'primal objective' == (1/2)x'Px+q'x (lower triangle of P)" % st, A.eq(fld('primal objective'), pc_), 'direct'))
    out.append((tag, "%s: 'dual objective' == L(x,y,z)" % st, A.eq(fld('dual objective'), dc_), 'direct'))
    out.append((tag, "%s: 'gap' == s'z" % st, A.eq(fld('gap'), gap_), 'direct'))
    rg = sol['relative gap']
    if cfg.get('shortcut'):
        pass
    elif rg is None:
        out.append((tag, "%s: 'relative gap' None only if pcost>=0 and dcost<=0" % st, A.and_(A.ge(pc_, zero), A.le(dc_, zero)), 'direct'))
    else:
        out.append((tag, "%s: 'relative gap' == recomputed" % st,
                    A.or_(A.and_(A.lt(pc_, zero), A.eq(num(rg)*(-pc_), gap_)),
                          A.and_(A.ge(pc_, zero), A.gt(dc_, zero), A.eq(num(rg)*dc_, gap_))), 'direct'))
    out.append((tag, "%s: 'primal slack' == -max_step(s)" % st, A.eq(fld('primal slack'), -O.max_step(A, s, dims, 0)), 'direct'))
    out.append((tag, "%s: 'dual slack' == -max_step(z)" % st, A.eq(fld('dual slack'), -O.max_step(A, z, dims, 0)), 'direct'))
    out.append((tag, "%s: s symmetric" % st, symmetric(s), 'direct'))
    out.append((tag, "%s: z symmetric" % st, symmetric(z), 'direct'))
    out.append((tag, "%s: s in cone" % st, O.in_cone(A, s, dims, 0), 'direct'))
    out.append((tag, "%s: z in cone" % st, O.in_cone(A, z, dims, 0), 'direct'))
    if st == 'optimal':
        ft = opts['feastol']
        out.append(('C03', 'optimal: primal residual <= feastol (relative)', A.le(Fp, ft), 'direct'))
        out.append(('C03', 'optimal: dual residual <= feastol (relative)', A.le(Fd, ft), 'direct'))
        out.append(('C03', 'optimal: one of the three gap criteria',
                    A.or_(A.le(gap_, opts['abstol']),
                          A.and_(A.lt(pc_, zero), A.le(gap_, opts['reltol']*(-pc_))),
                          A.and_(A.gt(dc_, zero), A.le(gap_, opts['reltol']*dc_))), 'direct'))
        if not cfg.get('shortcut'):
            out.append(('C03', 'optimal: iterations<maxiters', A.lt(num(it), num(maxiters)), 'direct'))
    else:
        out.append(('C10', 'unknown(maxiters): iterations==maxiters', A.eq(num(it), num(maxiters)), 'direct'))
    return out

def _links(st, cap, res, sol):
    import z3
    from vp.pysym.sym import T
    loc = cap['locals']
    def cells(name):
        m = loc[name]; return [T(m[i]) for i in range(len(m))]
    one = z3.RealVal(1)
    L = []
    for j, t in enumerate(cells('rx')): L.append(('rx[%d]' % j, res['rx'][j], one, 1, t, ('rx', j)))
    for i, t in enumerate(cells('ry')): L.append(('ry[%d]' % i, res['ry'][i], one, 1, t, ('ry', i)))
    if 'rz' in loc:
        rz = cells('rz')
        for i in res['rz']: L.append(('rz[%d]' % i, res['rz'][i], one, 1, rz[i], ('rz', i)))
    return L, one

def witnesses(st, cfg, maxiters, count=3):
    import random
    from fractions import Fraction as Fr
    dims, n, p = cfg['dims'], cfg['n'], cfg['p']
    N = H.N_of(dims)
    if N == 0 or st not in ('optimal', 'unknown'): return []
    lw = H.lower_weights(dims); lowpos = set(i for i, _ in lw)
    out = []
    for t in range(count):
        rnd = random.Random(7000*t + 13*N + n + p)
        ri = lambda: Fr(rnd.choice([-2, -1, 1, 2, 3]))
        def interior(shift):
            v = [Fr(1 + shift + i) for i in range(dims['l'])]
            for m in dims['q']: v += [Fr(m + 1 + shift)] + [Fr(1)]*(m - 1)
            for m in dims['s']:
                for j in range(m):
                    for i in range(m): v.append(Fr(m + 1 + shift + i) if i == j else Fr(1))
            return v
        s = interior(1); z = interior(t)
        junk = [i for i in range(N) if i not in lowpos]
        for i in junk: s[i] = Fr(7); z[i] = Fr(5)
        P = [[ri() for j in range(n)] for i in range(n)]
        G = [[ri() for j in range(n)] for i in range(N)]
        Am = [[ri() for j in range(n)] for i in range(p)]
        x = [ri() for j in range(n)]; y = [ri() for i in range(p)]
        Px = [sum(P[max(j, l)][min(j, l)]*x[l] for l in range(n)) for j in range(n)]
        q = [-(Px[j] + sum(Am[i][j]*y[i] for i in range(p)) + sum(w*G[i][j]*z[i] for i, w in lw)) for j in range(n)]
        b = [sum(Am[i][j]*x[j] for j in range(n)) for i in range(p)]
        h = [sum(G[i][j]*x[j] for j in range(n)) + s[i] for i in range(N)]
        for i in junk: h[i] = Fr(3)
        pins = {'feastol': 1000, 'abstol': 1000, 'reltol': 1000,
                'k': (maxiters if (st == 'unknown' or cfg.get('kclass') == 'ge') else (t % 2))}
        for i in range(n):
            for j in range(n): pins['P%d_%d' % (i, j)] = P[i][j]
        for i in range(N):
            pins['hs%d' % i] = s[i]; pins['hz%d' % i] = z[i]; pins['h%d' % i] = h[i]
            for j in range(n): pins['G%d_%d' % (i, j)] = G[i][j]
        for i in range(p):
            pins['hy%d' % i] = y[i]; pins['b%d' % i] = b[i]
            for j in range(n): pins['A%d_%d' % (i, j)] = Am[i][j]
        for j in range(n):
            pins['q%d' % j] = q[j]; pins['hx%d' % j] = x[j]
        out.append(pins)
    return out

class ConeqpSpec(object):
    name = 'coneqp'
    norm_data_keys = ('q', 'h', 'b')
    abs_fields = ('primal infeasibility', 'dual infeasibility')
    option_names = ('feastol', 'abstol', 'reltol')
    run = staticmethod(run_coneqp)
    residuals = staticmethod(residuals)
    links = staticmethod(_links)
    claims = staticmethod(claims)
    norms_from_res = staticmethod(norms_from_res)
    witnesses = staticmethod(witnesses)
    @staticmethod
    def data_re(): return DATA_RE
    @staticmethod
    def prop_of(st): return 'C03' if st == 'optimal' else 'C10'
    @staticmethod
    def factor(st, loc, absvar):
        import z3
        return z3.RealVal(1)
    @staticmethod
    def U(st, A2, cfg, dn, ares):
        lw_ = H.lower_weights(cfg['dims']); zero_ = A2.const(0)
        def ssq(dct, weights=None):
            if weights is None: return O._sum((dct[i]*dct[i] for i in sorted(dct)), zero_)
            return O._sum((w*dct[i]*dct[i] for i, w in weights if i in dct), zero_)
        U = dict(sq_norms(A2, cfg, dn))
        U.update(Rx=ssq(ares.get('rx', {})), Ry=ssq(ares.get('ry', {})), Rz=ssq(ares.get('rz', {}), lw_))
        return U, set()

def main(tier):
    from vp.checks import c01
    return c01.main(tier, 'C03')

def replay_main(path):
    from vp.checks import c01
    return c01.replay_main(path)
