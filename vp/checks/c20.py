"""C20 - buffer export / import of dense matrices (engine L on dense.c).
 (E) matrix_buffer_getbuf / matrix_buffer_relbuf from an ARBITRARY matrix state (shape, stale shape/strides cells, any
     number of live exports) and arbitrary request flags: on success the view describes exactly the matrix
     (buf, len, itemsize, ndim, shape, strides, format, readonly, obj) and ob_exports grows by one; on failure an
     exception is set and ob_exports is unchanged; relbuf decrements ob_exports.
 (I) Matrix_NewFromPyBuffer on an arbitrary exporter view (ndim, shape <= 2 x 2, arbitrary strides, format string per
     scenario, itemsize): every destination cell i + j*nrows receives the source element at byte offset
     i*stride0 + j*stride1 read with the width the format announces and converted to the target type; rejected
     formats / dimensions raise TypeError; the view is released exactly once on every path after a successful
     acquisition.
pickle, copy/deepcopy, tofile/fromfile and sparse getstate are object-protocol code and are not covered."""
import os, sys, json, time, tempfile, shutil, re
import z3

PyBUF_FORMAT, PyBUF_STRIDES = 0x0004, 0x0018
FMT = ['l', 'd', 'Zd', 'i']
ESZ = [8, 8, 16]

class DenseScenario(object):
    def __init__(self, mod, mat_id=1):
        self.mod = mod; self.pre = []; self.arrays = {}; self.mat_id = mat_id
        mt = mod.structs['%struct.matrix']
        self.mo = [mod.field_offset(mt, k) for k in range(8)]      # ob_base, buffer, nrows, ncols, id, shape, strides, ob_exports
        vt = mod.structs['%struct.Py_buffer']
        self.vo = [mod.field_offset(vt, k) for k in range(11)]     # buf obj len itemsize readonly ndim format shape strides suboffsets internal
        I = z3.Int
        self.nrows, self.ncols, self.exports = I('nrows'), I('ncols'), I('ob_exports')
        self.stale = {('shape', 0): I('stale_shape0'), ('shape', 1): I('stale_shape1'), ('strides', 0): I('stale_strides0'), ('strides', 1): I('stale_strides1')}
        self.pre += [self.nrows >= 0, self.ncols >= 0, self.nrows*self.ncols < 2**31, self.nrows < 2**31, self.ncols < 2**31, self.exports >= 0, self.exports < 2**40]
        self.events = []
        self.view = None       # import scenario: dict describing the exporter's view
        self.new_matrix = None
    # ---- memory
    def initial_value(self, ex, st, region, off, ty):
        from vp.llsym.exec import Ptr
        if region == 'mat:M':
            mo = self.mo
            if off == mo[1]: return Ptr('mbuf', 0)
            if off == mo[2]: return self.nrows
            if off == mo[3]: return self.ncols
            if off == mo[4]: return self.mat_id
            if off == mo[5]: return self.stale[('shape', 0)]
            if off == mo[5] + 8: return self.stale[('shape', 1)]
            if off == mo[6]: return self.stale[('strides', 0)]
            if off == mo[6] + 8: return self.stale[('strides', 1)]
            if off == mo[7]: return self.exports
            if off == 0:
                r = ex.fresh('refcnt'); ex.assume(st, r >= 1); ex.assume(st, r < 2**30); return r
            return None
        return None
    def external_load(self, ex, st, region, off, ty):
        from vp.llsym.exec import is_conc, Unsupported
        g = region[3:]
        if g == 'E_SIZE':
            if not is_conc(off): raise Unsupported('symbolic index into E_SIZE')
            return ESZ[off//4]
        raise Unsupported('load from external global %s' % g)
    def fmt_string(self, ex, p):
        """C string behind a pointer into FMT_STR or into the scenario's format region"""
        from vp.llsym.exec import Ptr, is_conc, Unsupported
        if isinstance(p, Ptr) and p.region == 'g:@FMT_STR' and is_conc(p.off): return FMT[p.off//4]
        if isinstance(p, Ptr) and p.region == 'fmt': return self.view['format']
        raise Unsupported('string pointer %r' % (p,))
    def call(self, ex, st, name, args, rt):
        from vp.llsym.exec import Ptr, NULL, Unsupported, Event, is_conc
        vals = [v for _, v in args]
        if name.startswith('llvm.'): return None
        if name in ('PyErr_SetString', 'PyErr_Format'):
            exc = vals[0].region[4:] if isinstance(vals[0], Ptr) and str(vals[0].region).startswith('exc:') else str(vals[0])
            st.exc = (exc, ''); return None
        if name == 'malloc':
            st.events.append(Event('malloc', [vals[0]])); return Ptr('view', 0)
        if name == 'free':
            st.events.append(Event('free', [vals[0].region if isinstance(vals[0], Ptr) else vals[0]])); return None
        if name == 'PyObject_GetBuffer':
            v = self.view; vo = self.vo
            if v is None: raise Unsupported('no exporter in this scenario')
            st.events.append(Event('getbuffer', [vals[2]]))
            ok = ex.fresh('getbuf_ok')
            ex.assume(st, z3.Or(ok == 0, ok == -1))
            vp = vals[1]
            # the exporter's contract: fields as announced (on failure the fields are garbage - never read by a correct consumer)
            st.mem[(vp.region, vo[0])] = Ptr('src', 0)
            st.mem[(vp.region, vo[1])] = Ptr('obj:exporter', 0)
            st.mem[(vp.region, vo[2])] = v['len']; st.mem[(vp.region, vo[3])] = v['itemsize']
            st.mem[(vp.region, vo[4])] = 0; st.mem[(vp.region, vo[5])] = v['ndim']
            st.mem[(vp.region, vo[6])] = Ptr('fmt', 0)
            st.mem[(vp.region, vo[7])] = Ptr('vshape', 0); st.mem[(vp.region, vo[8])] = Ptr('vstrides', 0)
            st.mem[(vp.region, vo[9])] = NULL; st.mem[(vp.region, vo[10])] = NULL
            for k in range(2):
                st.mem[('vshape', 8*k)] = v['shape'][k]; st.mem[('vstrides', 8*k)] = v['strides'][k]
            return ok
        if name == 'PyBuffer_Release':
            st.events.append(Event('release', [vals[0].region if isinstance(vals[0], Ptr) else vals[0]])); return None
        if name == 'strcmp':
            a, b = self.fmt_string(ex, vals[0]), self.fmt_string(ex, vals[1])
            return 0 if a == b else (1 if a > b else -1)
        if name == 'Matrix_New':
            nr, nc, id_ = vals
            st.events.append(Event('Matrix_New', [nr, nc, id_]))
            if not is_conc(id_): raise Unsupported('Matrix_New with a symbolic id')
            self.new_matrix = {'nrows': nr, 'ncols': nc, 'id': id_}
            st.mem[('mat:NEW', self.mo[1])] = Ptr('arr:dst', 0)
            st.mem[('mat:NEW', self.mo[2])] = nr; st.mem[('mat:NEW', self.mo[3])] = nc; st.mem[('mat:NEW', self.mo[4])] = id_
            kind = 'int' if id_ == 0 else 'real'
            srt = z3.IntSort() if kind == 'int' else z3.RealSort()
            self.arrays['dst'] = {'esz': 8, 'kind': kind, 'len': nr*nc*(2 if id_ == 2 else 1), 'init': z3.Array('mem_dst', z3.IntSort(), srt)}
            return Ptr('mat:NEW', 0)
        raise Unsupported('call to %s' % name)

LD = {('int', 4): z3.Function('ld_i32', z3.IntSort(), z3.IntSort()), ('int', 8): z3.Function('ld_i64', z3.IntSort(), z3.IntSort()),
      ('real', 8): z3.Function('ld_f64', z3.IntSort(), z3.RealSort())}

def install_src_loads(ex, sc):
    """reads from the exporter's memory ('src' region, byte addressed): uninterpreted typed loads + an access log"""
    from vp.llsym import exec as X
    orig = ex.load
    def load(st, ty, ptr):
        if isinstance(ptr, X.Ptr) and ptr.region == 'src':
            t = ex.mod.resolve(ty)
            w = ex.mod.size_of(t); kind = 'real' if t.kind in ('double', 'float') else 'int'
            off = X.simp_int(ptr.off); off = z3.IntVal(off) if X.is_conc(off) else off
            st.acc.append(('src', off, 'r%d%s' % (w, kind[0]), len(st.pc)))
            if (kind, w) not in LD: raise X.Unsupported('load of width %d from the exporter' % w)
            v = LD[(kind, w)](off)
            if kind == 'int':
                ex.assume(st, v >= -(1 << (8*w - 1))); ex.assume(st, v < (1 << (8*w - 1)))
            return v
        return orig(st, ty, ptr)
    ex.load = load

# ------------------------------------------------------------------------------------------ jobs

def job(cfg):
    from vp.llsym import ir, exec as X
    t0 = time.time()
    mod = ir.Module(open(cfg['ll']).read())
    res = {'part': cfg['part'], 'variant': cfg['variant'], 'paths': 0, 'kinds': {}, 'obl': {'total': 0, 'unsat': 0, 'sat': 0, 'unknown': 0}, 'solver_s': 0.0,
           'findings': [], 'unsupported': [], 'sample': None}
    tmo = cfg.get('timeout_ms', 20000)
    def query(fs):
        t1 = time.time(); s = z3.Solver(); s.set('timeout', tmo)
        for f in fs: s.add(f)
        r = s.check(); res['solver_s'] += time.time() - t1
        v = str(r); res['obl']['total'] += 1; res['obl'][v if v in ('sat', 'unsat') else 'unknown'] += 1
        return v, (s.model() if r == z3.sat else None)
    def check(p, label, f, key, names):
        r, m = query(p['pc'] + [z3.Not(f)])
        if r == 'sat':
            res['findings'].append({'key': key, 'text': label, 'model': {str(n): str(m.eval(n, model_completion=True)) for n in names}, 'variant': cfg['variant']})
        elif r != 'unsat': res['unsupported'].append('undecided: ' + label)
        return r
    if cfg['part'] == 'export':
        mid = cfg['variant'][0]
        sc = DenseScenario(mod, mat_id=mid)
        flags = z3.Int('flags')
        sc.pre += [flags >= 0, flags < 2**16]
        # reachable states: the shape / strides cells are written by getbuf only; while exports are alive the matrix may have been
        # reshaped through A.size (same number of elements), so the cells describe SOME shape with the same element count
        s0, s1 = sc.stale[('shape', 0)], sc.stale[('shape', 1)]
        sc.pre += [z3.Implies(sc.exports > 0, z3.And(s0 >= 0, s1 >= 0, s0*s1 == sc.nrows*sc.ncols, sc.stale[('strides', 0)] == ESZ[mid], sc.stale[('strides', 1)] == s0*ESZ[mid]))]
        ex = X.Executor(mod, sc, max_paths=500, loop_bound=3); ex.math_ints = True
        st = X.State()
        for f in sc.pre: ex.assume(st, f)
        ex.run('matrix_buffer_getbuf', [X.Ptr('mat:M', 0), X.Ptr('view', 0), flags], st)
        vo, mo = sc.vo, sc.mo
        names = [flags, sc.nrows, sc.ncols, sc.exports] + list(sc.stale.values())
        for p in ex.paths:
            res['paths'] += 1; res['kinds'][p['kind']] = res['kinds'].get(p['kind'], 0) + 1
            if p['kind'] == 'infeasible': continue
            if p['kind'] != 'return': res['unsupported'].append('%s: %s' % (p['kind'], str(p['why'])[:200])); continue
            mem = p['mem']; g = lambda reg, off: mem.get((reg, off))
            ret = p['ret']
            exports_now = g('mat:M', mo[7]); exports_now = sc.exports if exports_now is None else exports_now
            fmt_req = ((flags / 4) % 2) == 1; str_req = z3.Or(((flags / 8) % 2) == 1, ((flags / 16) % 2) == 1)
            if X.is_conc(ret) and ret == 0:
                esz = ESZ[mid]
                def isptr(v, reg, off=0): return isinstance(v, X.Ptr) and v.region == reg and X.is_conc(v.off) and v.off == off
                conds = [('a successful export needs a strides request', str_req),
                         ('view.len = nrows*ncols*itemsize', g('view', vo[2]) == sc.nrows*sc.ncols*esz), ('view.itemsize', g('view', vo[3]) == esz),
                         ('view.readonly = 0', g('view', vo[4]) == 0), ('view.ndim = 2', g('view', vo[5]) == 2),
                         ('ob_exports incremented once', exports_now == sc.exports + 1)]
                structural = [('view.buf is the matrix buffer', isptr(g('view', vo[0]), 'mbuf')), ('view.obj is the matrix', isptr(g('view', vo[1]), 'mat:M')),
                              ('view.suboffsets is NULL', isinstance(g('view', vo[9]), X.Ptr) and g('view', vo[9]).region is None),
                              ('view.shape points to the matrix shape cells', isptr(g('view', vo[7]), 'mat:M', mo[5])),
                              ('view.strides points to the matrix strides cells', isptr(g('view', vo[8]), 'mat:M', mo[6]))]
                for label, okb in structural:
                    res['obl']['total'] += 1
                    if okb: res['obl']['unsat'] += 1
                    else:
                        r, m = query(p['pc'])
                        if r == 'sat': res['findings'].append({'key': 'export:' + label.split()[0], 'text': label, 'model': {str(n): str(m.eval(n, model_completion=True)) for n in names}, 'variant': cfg['variant']})
                sh = [mem.get(('mat:M', mo[5] + 8*k), sc.stale[('shape', k)]) for k in range(2)]
                sd = [mem.get(('mat:M', mo[6] + 8*k), sc.stale[('strides', k)]) for k in range(2)]
                conds += [('exported shape = (nrows, ncols)', z3.And(sh[0] == sc.nrows, sh[1] == sc.ncols)),
                          ('exported strides = (itemsize, nrows*itemsize)', z3.And(sd[0] == esz, sd[1] == sc.nrows*esz))]
                fp = g('view', vo[6])
                if isinstance(fp, X.Ptr) and fp.region == 'g:@FMT_STR': conds.append(('format string of the typecode when requested', z3.And(fmt_req, fp.off == 4*mid)))
                elif isinstance(fp, X.Ptr) and fp.region is None: conds.append(('format NULL only when not requested', z3.Not(fmt_req)))
                else: res['unsupported'].append('view.format is %r' % (fp,))
                for label, f in conds:
                    if isinstance(f, bool): f = z3.BoolVal(f)
                    check(p, label, f, 'export:' + '-'.join(label.split(' ')[:2]), names)
            else:
                conds = [('failure sets an exception', z3.BoolVal(p['exc'] is not None)), ('failure leaves ob_exports unchanged', exports_now == sc.exports),
                         ('failure only for stride-less requests', z3.Not(str_req))]
                for label, f in conds: check(p, label, f, 'export:' + '-'.join(label.split(' ')[:2]), names)
            if res['sample'] is None: res['sample'] = {'function': 'matrix_buffer_getbuf', 'typecode_id': mid, 'path_condition_size': len(p['pc'])}
        # relbuf
        sc2 = DenseScenario(mod, mat_id=mid); ex2 = X.Executor(mod, sc2, max_paths=50); ex2.math_ints = True
        st2 = X.State()
        for f in sc2.pre + [sc2.exports >= 1]: ex2.assume(st2, f)
        ex2.run('matrix_buffer_relbuf', [X.Ptr('mat:M', 0), X.Ptr('view', 0)], st2)
        for p in ex2.paths:
            res['paths'] += 1
            if p['kind'] != 'return': res['unsupported'].append('relbuf %s: %s' % (p['kind'], p['why'])); continue
            now = p['mem'].get(('mat:M', sc2.mo[7]), sc2.exports)
            check(p, 'release decrements ob_exports once', now == sc2.exports - 1, 'export:release', [sc2.exports])
    elif cfg['part'] == 'import':
        fmt, want_id, ndim, isz_ok = cfg['variant']
        true_size = {'l': 8, 'i': 4, 'd': 8, 'Zd': 16, 'f': 4}[fmt]
        sc = DenseScenario(mod)
        I = z3.Int
        sh = [I('shape0'), I('shape1')]; sd = [I('stride0'), I('stride1')]; ln = I('len')
        isz = true_size if isz_ok else true_size // 2
        sc.view = {'format': fmt, 'ndim': ndim, 'shape': sh, 'strides': sd, 'len': ln, 'itemsize': isz}
        ncols_v = sh[1] if ndim == 2 else z3.IntVal(1)
        P = [sh[0] >= 0, sh[0] <= 2, sh[1] >= 0, sh[1] <= 2, ln >= 0, ln <= 4096, sd[0] >= -64, sd[0] <= 64, sd[1] >= -64, sd[1] <= 64]
        # exporter contract: every element lies inside [buf, buf + len)
        for i in range(2):
            for j in range(2):
                off = i*sd[0] + (j*sd[1] if ndim == 2 else 0)
                P.append(z3.Implies(z3.And(i < sh[0], j < ncols_v), z3.And(off >= 0, off + true_size <= ln)))
        sc.pre += P
        ex = X.Executor(mod, sc, max_paths=2000, loop_bound=8); ex.math_ints = True
        install_src_loads(ex, sc)
        st = X.State()
        for f in sc.pre: ex.assume(st, f)
        ex.run('Matrix_NewFromPyBuffer', [X.Ptr('obj:exporter', 0), want_id, X.Ptr('ndim_out', 0)], st)
        names = sh + sd + [ln]
        src_id = {'l': 0, 'i': 0, 'd': 1, 'Zd': 2}.get(fmt)
        tgt = src_id if want_id == -1 else want_id
        accept = src_id is not None and ndim in (1, 2) and src_id <= tgt and (isz_ok or fmt == 'i')
        for p in ex.paths:
            res['paths'] += 1; res['kinds'][p['kind']] = res['kinds'].get(p['kind'], 0) + 1
            if p['kind'] == 'infeasible': continue
            if p['kind'] != 'return': res['unsupported'].append('%s: %s' % (p['kind'], str(p['why'])[:200])); continue
            evs = [e.name for e in p['events']]
            got_ok = None
            isnull = isinstance(p['ret'], X.Ptr) and p['ret'].region is None
            nrel, nfree = evs.count('release'), evs.count('free')
            # acquisition result on this path: decided from the path condition
            okv = [f for f in p['pc'] if 'getbuf_ok' in str(f)]
            s_ = z3.Solver(); s_.set('timeout', tmo)
            for f_ in p['pc']: s_.add(f_)
            mq = s_.model() if s_.check() == z3.sat else None
            acquired = None
            for d in (mq.decls() if mq is not None else []):
                if d.name().startswith('getbuf_ok'): acquired = (mq[d].as_long() == 0)
            structural = []
            if acquired is False:
                structural += [('a failed acquisition returns NULL with TypeError', isnull and p['exc'] is not None), ('a failed acquisition releases nothing', nrel == 0), ('the view struct is freed once', nfree == 1)]
            else:
                structural += [('the view is released exactly once', nrel == 1), ('the view struct is freed once', nfree == 1)]
                if accept:
                    structural += [('an acceptable buffer yields a matrix', not isnull)]
                else:
                    structural += [('an unacceptable buffer is rejected with TypeError', isnull and p['exc'] is not None and 'TypeError' in str(p['exc'][0]))]
            for label, okb in structural:
                res['obl']['total'] += 1
                if okb: res['obl']['unsat'] += 1
                else:
                    res['obl']['sat'] += 1
                    res['findings'].append({'key': 'import:' + '-'.join(label.split(' ')[:3]), 'text': label, 'model': {str(n): str(mq.eval(n, model_completion=True)) for n in names} if mq is not None else {}, 'variant': cfg['variant']})
            if acquired is not False and accept and not isnull:
                nm = sc.new_matrix
                conds = [('matrix size = (shape[0], shape[1] or 1)', z3.And(nm['nrows'] == sh[0], nm['ncols'] == ncols_v)), ('typecode of the result', z3.BoolVal(nm['id'] == tgt)),
                         ('*ndim reports the source dimension', z3.BoolVal(p['mem'].get(('ndim_out', 0)) == ndim))]
                dst = p['mem'].get(('arr', 'dst'), sc.arrays['dst']['init'])
                width = {'l': 8, 'i': 4, 'd': 8, 'Zd': 8}[fmt]; kind = 'real' if fmt in ('d', 'Zd') else 'int'
                for i in range(2):
                    for j in range(2):
                        off = i*sd[0] + (j*sd[1] if ndim == 2 else 0)
                        v = LD[(kind, width)](off)
                        if tgt >= 1 and kind == 'int': v = z3.ToReal(v)
                        cell = i + j*sh[0]
                        if tgt == 2:
                            # complex destination: (re, im) pairs; integer / real sources have a zero imaginary part
                            im = LD[('real', 8)](off + 8) if fmt == 'Zd' else z3.RealVal(0)
                            eqc = z3.And(z3.Select(dst, 2*cell) == v, z3.Select(dst, 2*cell + 1) == im)
                        else: eqc = z3.Select(dst, cell) == v
                        conds.append(('cell (%d,%d) = source element at i*stride0 + j*stride1 read as %s' % (i, j, fmt), z3.Implies(z3.And(i < sh[0], j < ncols_v), eqc)))
                # reads inside the exporter's memory and of the announced width
                bad = []
                for a in p['acc']:
                    if a[0] != 'src': continue
                    w = int(re.match(r'r(\d+)', a[2]).group(1))
                    bad.append(z3.Or(a[1] < 0, a[1] + w > ln))
                    if w != width: conds.append(('source elements are read with the width of format %r' % fmt, z3.BoolVal(False)))
                if bad: conds.append(('every read lies inside the exported memory', z3.Not(z3.Or(*bad))))
                for a in p['acc']:
                    if a[0] == 'dst': conds.append(('destination writes inside the new matrix', z3.And(a[1] >= 0, a[1] < sh[0]*ncols_v*(2 if tgt == 2 else 1))))
                for label, f in conds:
                    r = check(p, label, f, 'import:' + '-'.join(label.split(' ')[:3]), names)
                    if r == 'sat': break
            if res['sample'] is None: res['sample'] = {'function': 'Matrix_NewFromPyBuffer', 'variant': list(cfg['variant']), 'path_condition_size': len(p['pc']), 'source_reads': len([a for a in p['acc'] if a[0] == 'src'])}
    else:
        res['unsupported'].append('unknown part')
    res['wall'] = round(time.time() - t0, 1)
    return res

# ------------------------------------------------------------------------------------------ replay on the real build

REPLAY_PROG = r'''
import sys, json, array
from cvxopt import matrix
d = json.loads(sys.argv[1]); part = d['part']; var = d['variant']; m = d['model']
out = {'bad': []}
if part == 'export':
    tc = 'idz'[var[0]]
    nr, nc, ex = int(m['nrows']), int(m['ncols']), int(m['ob_exports'])
    s0, s1 = (int(m['stale_shape0']), int(m['stale_shape1'])) if ex > 0 else (nr, nc)
    A = matrix(list(range(s0*s1)), (s0, s1), tc)
    held = [memoryview(A) for _ in range(min(ex, 3))]        # live exports taken while the matrix had its earlier shape
    A.size = (nr, nc)
    v = memoryview(A)
    esz = {'i': 8, 'd': 8, 'z': 16}[tc]
    want = {'shape': (nr, nc), 'strides': (esz, nr*esz), 'itemsize': esz, 'nbytes': nr*nc*esz, 'ndim': 2, 'format': {'i': 'l', 'd': 'd', 'z': 'Zd'}[tc], 'readonly': False}
    got = {'shape': tuple(v.shape), 'strides': tuple(v.strides), 'itemsize': v.itemsize, 'nbytes': v.nbytes, 'ndim': v.ndim, 'format': v.format, 'readonly': v.readonly}
    for k in want:
        if want[k] != got[k]: out['bad'].append('memoryview(A).%s = %r, expected %r' % (k, got[k], want[k]))
    if v.obj is not A: out['bad'].append('memoryview(A).obj is not A')
    out['call'] = "A = matrix(range(%d), (%d, %d), '%s'); %d live memoryviews; A.size = (%d, %d); memoryview(A)" % (s0*s1, s0, s1, tc, len(held), nr, nc)
elif part == 'import':
    fmt, want_id, ndim, isz_ok = var
    sh0, sh1 = int(m['shape0']), int(m['shape1'])
    shape = [sh0, sh1] if ndim == 2 else ([sh0] if ndim == 1 else [max(sh0, 1), max(sh1, 1), 1])
    n = 1
    for t in shape: n *= t
    tcs = {-1: None, 0: 'i', 1: 'd', 2: 'z'}[want_id]
    if fmt in ('l', 'i', 'd', 'f'):
        # values that do not survive a read of the wrong width or signedness
        big = {'l': 2**33 + 1, 'i': 65537}.get(fmt, 1)
        vals = [float(3*k + 1) + 0.25 if fmt in ('d', 'f') else (-1)**k*(3*k + 1)*big for k in range(max(n, 1))]
        raw = bytearray(array.array(fmt, vals[:n] if n else []).tobytes())
        src = memoryview(raw).cast('B').cast(fmt, shape) if n else memoryview(raw).cast(fmt)
        elem = (lambda i, j: src[i, j]) if ndim == 2 else (lambda i, j: src[i])
    else:
        srcm = matrix([complex(3*k + 1, k + 2) for k in range(n)], (sh0, sh1 if ndim == 2 else 1), 'z'); src = memoryview(srcm); raw = None
        elem = lambda i, j: srcm[i, j]
    out['call'] = "matrix(<buffer format %r shape %r strides %r>%s)" % (fmt, tuple(src.shape), tuple(src.strides), (", tc='%s'" % tcs) if tcs else '')
    try:
        R = matrix(src, tc=tcs) if tcs else matrix(src)
        res = 'ok'
    except TypeError as e: res = 'TypeError'
    except Exception as e: res = type(e).__name__
    src_id = {'l': 0, 'i': 0, 'd': 1, 'Zd': 2}.get(fmt)
    tgt = src_id if want_id == -1 else want_id
    accept = src_id is not None and ndim in (1, 2) and src_id <= tgt
    if accept and res != 'ok': out['bad'].append('an acceptable buffer is rejected (%s)' % res)
    if not accept and res != 'TypeError': out['bad'].append('an unacceptable buffer gives %s instead of TypeError' % res)
    if accept and res == 'ok':
        nc = sh1 if ndim == 2 else 1
        if R.size != (sh0, nc): out['bad'].append('size %r, expected %r' % (R.size, (sh0, nc)))
        elif R.typecode != 'idz'[tgt]: out['bad'].append('typecode %r' % R.typecode)
        else:
            for i in range(sh0):
                for j in range(nc):
                    if R[i, j] != elem(i, j): out['bad'].append('cell (%d,%d) = %r, source element %r' % (i, j, R[i, j], elem(i, j)))
    if raw is not None:
        del src
        try: raw.append(0)
        except BufferError: out['bad'].append('the source buffer is still exported after matrix() returned (%s): it cannot be resized' % res)
print('RESULT ' + json.dumps(out))
'''

def replay_model(part, variant, model, timeout=120):
    import subprocess
    from vp import common
    ov = common.overlay()
    env = dict(os.environ); env['PYTHONPATH'] = ov
    try: r = subprocess.run([common.VENV_PY, '-c', REPLAY_PROG, json.dumps({'part': part, 'variant': variant, 'model': model})], capture_output=True, text=True, timeout=timeout, env=env)
    except subprocess.TimeoutExpired: return None, 'replay timed out'
    if r.returncode < 0: return 'the interpreter dies with signal %d' % (-r.returncode), None
    for l in r.stdout.splitlines():
        if l.startswith('RESULT '):
            d = json.loads(l[7:])
            if d['bad']: return '%s in %s' % ('; '.join(d['bad'][:3]), d.get('call')), None
            return None, 'behaves as specified on this instance (%s)' % d.get('call')
    return None, 'replay failed: %s' % r.stderr[-300:]

def replay_main(path):
    d = json.load(open(path))
    rep, why = replay_model(d['part'], d['variant'], d['model'])
    if rep: print('REPRODUCED on the real build: %s' % rep); return 1
    print(why); return 0

def variants(tier):
    out = [('export', (k,)) for k in (0, 1, 2)]
    fm = ['l', 'i', 'd', 'Zd', 'f']
    for fmt in fm:
        for want in (-1, 0, 1, 2):
            for ndim in (1, 2):
                out.append(('import', (fmt, want, ndim, True)))
    out += [('import', ('l', -1, 3, True)), ('import', ('d', 1, 0, True)), ('import', ('l', -1, 2, False)), ('import', ('d', -1, 1, False))]
    return out

def main(tier):
    from vp import common
    from vp.llsym import ir
    pid = 'C20'
    ev = common.Evidence(pid, 'model_checking', tier)
    work = tempfile.mkdtemp(prefix='vp.ir.', dir='/var/tmp')
    try:
        cfile = os.path.join(common.REPO, 'src', 'C', 'dense.c')
        ll = ir.compile_to_ir(cfile, common.REPO, work)
        cfgs = [{'ll': ll, 'part': p, 'variant': v, 'timeout_ms': 20000 if tier == 'quick' else 60000} for p, v in variants(tier)]
        results = common.run_jobs('vp.checks.c20', 'job', cfgs)
        known = common.known_findings(pid)
        violations, known_hits, herr, inconc = [], [], [], []
        paths = 0; groups = {}
        for r in results:
            if not r['ok']: herr.append('%s %s: %s' % (r['cfg']['part'], r['cfg']['variant'], r['err'])); continue
            res = r['res']; paths += res['paths']
            for key in ('total', 'unsat', 'sat', 'unknown'): ev.obl[key] += res['obl'][key]
            ev.solver_s += res['solver_s']
            if res['sample']: ev.sample(res['sample'], cap=5)
            for u in res['unsupported']: herr.append('%s %s: %s' % (res['part'], res['variant'], u))
            for f in res['findings']: groups.setdefault(f['key'], []).append(f)
        for k in sorted(groups):
            rep = why = rp = None
            for f in groups[k][:6]:
                part = k.split(':')[0]
                rp = common.write_replay(pid, k + json.dumps(f['variant']), {'property': pid, 'key': k, 'part': part, 'variant': f['variant'], 'model': f['model'], 'text': f['text']})
                rep, why = replay_model(part, f['variant'], f['model'])
                if rep: break
            if rep is None: herr.append('%s: counterexample not reproduced on the real build (%s) %s' % (k, why, rp)); continue
            if k in known: known_hits.append((k, known[k]['what'])); continue
            violations.append((k, rp, '%s -> %s' % (groups[k][0]['text'], rep)))
        ev.cov.update({'states': max(1, paths), 'transitions': max(1, ev.obl['total']), 'traces_validated_against_impl': 0, 'configurations': len(cfgs),
                       'functions_encoded': ['dense.c: matrix_buffer_getbuf, matrix_buffer_relbuf, Matrix_NewFromPyBuffer'], 'source_hash': ir.src_hash(cfile),
                       'bounds': "export: any shape with nrows*ncols < 2^31, any request flags < 2^16, any number of live exports, shape/strides cells in any state a history of export + reshape can leave; import: formats l, i, d, Zd and one unsupported (f), requested typecode none/i/d/z, ndim 0..3, shape <= 2 x 2, strides in [-64, 64], itemsize right or halved"})
        ev.assumptions += ['exporter contract for imports: every element offset i*stride0 + j*stride1 lies inside [0, len - itemsize]; PyObject_GetBuffer may fail; Matrix_New succeeds (allocation failure outside)',
                           'source memory is modelled by uninterpreted typed loads (ld_i32, ld_i64, ld_f64) of the byte offset; conversions int -> double are exact',
                           'pickle, copy/deepcopy, tofile/fromfile and every sparse path are not covered', 'replay uses memoryview.cast (C-contiguous) or a cvxopt matrix (column-major) as exporter: arbitrary strides are decided symbolically only']
        return common.finish(ev, violations, sorted(dict(known_hits).items()), herr, inconc)
    finally:
        shutil.rmtree(work, True)
