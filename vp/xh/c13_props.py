"""C13 conditions for CrossHair (engine X), evaluated on the REAL build of /repo.

Pool: variables x (3), y (1), z (2), w (1); 6 constraints (shared variables, several
variables, an equality, a constants-only constraint); 3 objectives (one with an
objective-only variable).  `state(obj, cons)` is the op built by the constructor; one edit is
applied and the complete bookkeeping is compared with that of a FRESH op holding the
resulting objective and constraint list.  Because the comparison is on the representation,
the step is inductive: it covers edit histories of any length.
"""
from typing import List, Tuple

def concretely(fn, *args):
    """Under CrossHair: realise the symbolic arguments (the solver enumerates the feasible
    values path by path) and run the real cvxopt code natively; outside CrossHair: plain call."""
    try:
        from crosshair.core import deep_realize
        from crosshair.tracers import NoTracing, is_tracing
    except ImportError:
        return fn(*args)
    if not is_tracing():
        return fn(*args)
    args = [deep_realize(a) for a in args]
    with NoTracing():
        return fn(*args)

NCONS, NOBJ = 6, 3

def make_pool():
    from cvxopt import matrix
    from cvxopt.modeling import variable, op, dot, sum as msum, max as mmax
    x, y, z, w = variable(3, 'x'), variable(1, 'y'), variable(2, 'z'), variable(1, 'w')
    cons = [x <= 4.0,                      # 0 inequality, one variable
            x[0] + y <= 2.0,               # 1 inequality, two variables (shared x)
            z >= -1.0,                     # 2 inequality, other variable
            msum(x) + z[1] == 1.0,         # 3 equality, two variables
            y + z[0] + w <= 5.0,           # 4 inequality, three variables
            (y - y) + 1.0 <= 2.0]          # 5 inequality whose variable has a zero coefficient
    objs = [-msum(x), -y - z[0], mmax(-x) + w]   # w only occurs in objective 2 (and constraint 4)
    return (x, y, z, w), cons, objs

def book(p):
    """canonical image of the bookkeeping of op p (ids of the pool objects)"""
    V = {}
    for v, d in p._variables.items():
        V[id(v)] = (bool(d['o']), sorted(id(c) for c in d['i']), sorted(id(c) for c in d['e']))
    return (V, [id(c) for c in p._inequalities], [id(c) for c in p._equalities],
            sorted(id(v) for v in p.objective.variables()))

def public(p):
    return (sorted(id(v) for v in p.variables()), [id(c) for c in p.constraints()],
            [id(c) for c in p.inequalities()], [id(c) for c in p.equalities()])

def build(obj, cons):
    from cvxopt.modeling import op
    vs, C, O = make_pool()
    p = op(O[obj], [C[i] for i in cons])
    return p, vs, C, O

def apply_edit(p, C, O, kind, arg, cur_obj, cur_cons):
    """returns (new objective index, new constraint index list)"""
    if kind == 0:                       # addconstraint
        p.addconstraint(C[arg]); return cur_obj, cur_cons + [arg]
    if kind == 1:                       # delconstraint (present or absent)
        p.delconstraint(C[arg])
        if arg in cur_cons:
            k = cur_cons.index(arg); return cur_obj, cur_cons[:k] + cur_cons[k+1:]
        return cur_obj, cur_cons
    p.objective = O[arg % NOBJ]        # objective reassignment
    return arg % NOBJ, cur_cons

def fresh_like(C, O, obj, cons):
    from cvxopt.modeling import op
    # the documented list order: inequalities / equalities in order of insertion
    return op(O[obj], [C[i] for i in cons])

def step_ok(obj: int, cons: List[int], kind: int, arg: int) -> bool:
    p, vs, C, O = build(obj, cons)
    nobj, ncons = apply_edit(p, C, O, kind, arg, obj, list(cons))
    q = fresh_like(C, O, nobj, ncons)
    return book(p) == book(q) and public(p) == public(q)

def _valid(obj, cons, kind, arg, maxlen):
    return (0 <= obj < NOBJ and len(cons) <= maxlen and all(0 <= c < NCONS for c in cons)
            and len(set(cons)) == len(cons) and 0 <= arg < NCONS)

def _cons(c1, c2):
    return [c for c in (c1, c2) if c >= 0]

def _step(obj, c1, c2, kind, arg):
    return step_ok(obj, _cons(c1, c2), kind, arg)

def check_add(obj: int, c1: int, c2: int, arg: int) -> bool:
    """
    State: constructor-built op with objective obj and constraints [c1, c2] (-1 = absent); edit: addconstraint(arg).
    pre: 0 <= obj < 3 and -1 <= c1 < 6 and -1 <= c2 < 6 and (c1 != c2 or c1 == -1) and 0 <= arg < 6
    post: _
    """
    return concretely(_step, obj, c1, c2, 0, arg)

def check_del(obj: int, c1: int, c2: int, arg: int) -> bool:
    """
    pre: 0 <= obj < 3 and -1 <= c1 < 6 and -1 <= c2 < 6 and (c1 != c2 or c1 == -1) and 0 <= arg < 6
    post: _
    """
    return concretely(_step, obj, c1, c2, 1, arg)

def check_setobj(obj: int, c1: int, c2: int, arg: int) -> bool:
    """
    pre: 0 <= obj < 3 and -1 <= c1 < 6 and -1 <= c2 < 6 and (c1 != c2 or c1 == -1) and 0 <= arg < 3
    post: _
    """
    return concretely(_step, obj, c1, c2, 2, arg)

def check_copies(obj: int, c1: int, c2: int) -> bool:
    """
    pre: 0 <= obj < 3 and -1 <= c1 < 6 and -1 <= c2 < 6 and (c1 != c2 or c1 == -1)
    post: _
    """
    return concretely(lambda o, a, b: _copies(o, _cons(a, b)), obj, c1, c2)

def _copies(obj, cons):
    p, vs, C, O = build(obj, cons)
    before = (book(p), public(p))
    for lst in (p.variables(), p.constraints(), p.inequalities(), p.equalities()):
        lst.append(None)
        while lst: lst.pop()
    return (book(p), public(p)) == before

def _solve_sig(p):
    from cvxopt import solvers
    old = dict(solvers.options)
    solvers.options['show_progress'] = False
    try:
        try: p.solve()
        except Exception as e:
            return ('raises', type(e).__name__)
    finally:
        solvers.options.clear(); solvers.options.update(old)
    val = None
    if p.status == 'optimal': val = round(p.objective.value()[0], 5)
    return (p.status, val)

def check_history(obj: int, k1: int, a1: int, k2: int, a2: int, k3: int, a3: int) -> bool:
    """
    pre: 0 <= obj < 3 and 0 <= k1 < 3 and 0 <= k2 < 3 and 0 <= k3 < 3 and 0 <= a1 < 6 and 0 <= a2 < 6 and 0 <= a3 < 6
    post: _
    """
    return concretely(_history, obj, k1, a1, k2, a2, k3, a3)

def _history(obj, k1, a1, k2, a2, k3, a3):
    p, vs, C, O = build(obj, [0, 2])
    cur_obj, cur = obj, [0, 2]
    for (k, a) in ((k1, a1), (k2, a2), (k3, a3)):
        cur_obj, cur = apply_edit(p, C, O, k, a, cur_obj, cur)
    q = fresh_like(C, O, cur_obj, cur)
    if book(p) != book(q) or public(p) != public(q): return False
    return _solve_sig(p) == _solve_sig(q)

def twin_reach(obj: int, c1: int, c2: int, arg: int) -> bool:
    """
    Reachability twin: must be REFUTED (the assertion point is reached).
    pre: 0 <= obj < 3 and -1 <= c1 < 6 and -1 <= c2 < 6 and (c1 != c2 or c1 == -1) and 0 <= arg < 6
    post: _
    """
    concretely(_step, obj, c1, c2, 1, arg)
    return False
