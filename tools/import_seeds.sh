#!/bin/bash
# import_seeds.sh Cxx ... : confirm each /tmp/mut/Cxx.out/{a,b} and copy into /verif/seeded/
for id in "$@"; do
 for v in $(ls /tmp/mut/$id.out); do
  src=/tmp/mut/$id.out/$v
  [ -f $src/patch.diff ] || continue
  res=$(/verif/tools/confirm_seed.sh $src)
  echo "$id/$v $res"
  ok=$(echo "$res" | /venv/bin/python -c "
import json,sys
d=json.loads(sys.stdin.read())
print(int('error' not in d and '36 passed' in d['clean_tests'] and '36 passed' in d['mut_tests'] and d['clean_demo_rc']==0 and d['mut_demo_rc']!=0))")
  if [ "$ok" = 1 ]; then
    dst=/verif/seeded/$id-$v; mkdir -p $dst
    cp $src/patch.diff $src/demo.py $dst/; cp $src/notes.md $dst/notes.md 2>/dev/null
    /venv/bin/python - "$id" "$v" "$res" > $dst/meta.json <<'PY'
import json,sys
pid,v,res=sys.argv[1:4]
notes=open('/tmp/mut/%s.out/%s/notes.md'%(pid,v)).read() if True else ''
print(json.dumps({'property':pid,'variant':v,'confirmed':json.loads(res),
 'confirmation':'tools/confirm_seed.sh: scratch worktree of /repo HEAD; overlay build; clean: pytest tests + demo.py; patched: overlay rebuild, pytest tests + demo.py',
 'needs_to_manifest':notes[:1500],'detected_by':None},indent=1))
PY
  else echo "  NOT KEPT"; fi
 done
done
