#!/bin/bash
# try_seed.sh <patch.diff> <command...> : apply patch to /repo, run command, always revert.
P="$1"; shift
git -C /repo apply "$P" || exit 9
"$@"; RC=$?
git -C /repo checkout -- . 
exit $RC
