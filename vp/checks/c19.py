"""C19 - no argument values make the C extension access memory outside its matrices.
blas.c part: same symbolic run as C17 (vp/checks/c17.py), obligations Q_small / Q_wrap."""
from vp.checks import c17
def main(tier): return c17.main(tier, 'C19')
replay_main = c17.replay_main
