"""Harness shared by C01/C02/C09/C10: the real `conelp` (from /repo/src/python/coneprog.py,
loaded with the transforms of vp.pysym.loader) run from an *arbitrary iteration and an
arbitrary iterate* (havoc + stated invariant), in either world.

The oracle is written from doc/source/coneprog.rst, on the RETURNED vectors and the
CALLER'S data, independent of the solver's internal residual bookkeeping.
"""
from vp.oracles import cone as O

from vp.pysym.cut import Cut

def N_of(dims): return dims['l'] + sum(dims['q']) + sum(k*k for k in dims['s'])

def e_vector(dims):
    """the cone identity element (concrete start point)"""
    v = [1.0]*dims['l']
    for m in dims['q']: v += [1.0] + [0.0]*(m - 1)
    for m in dims['s']:
        for j in range(m):
            for i in range(m): v.append(1.0 if i == j else 0.0)
    return v

def lower_weights(dims):
    """list of (index, weight) over the meaningful positions of a vector in S: weight 1 for
    non-'s' and diagonal entries, 2 for strictly-lower entries ('L' storage)."""
    nl, q, s, N = O.layout(dims, 0)
    out = [(i, 1) for i in range(nl + sum(dims['q']))]
    for (st, m) in s:
        for j in range(m):
            for i in range(j, m): out.append((st + i + j*m, 1 if i == j else 2))
    return out

# ------------------------------------------------------------------------------ data

def make_data(cfg, mk):
    """symbolic/concrete problem data.  G column-major N x n, A p x n."""
    dims, n, p = cfg['dims'], cfg['n'], cfg['p']
    N = N_of(dims)
    d = {'c': [mk('c%d' % j) for j in range(n)],
         'G': [mk('G%d_%d' % (i, j)) for j in range(n) for i in range(N)],
         'h': [mk('h%d' % i) for i in range(N)],
         'A': [mk('A%d_%d' % (i, j)) for j in range(n) for i in range(p)],
         'b': [mk('b%d' % i) for i in range(p)]}
    return d

def to_matrices(Wd, cfg, d):
    dims, n, p = cfg['dims'], cfg['n'], cfg['p']
    N = N_of(dims)
    M = Wd.matrix
    def mat(vals, size):
        return M(list(vals), size, 'd') if size[0]*size[1] else M(0.0, size)
    c = mat(d['c'], (n, 1)); G = mat(d['G'], (N, n)); h = mat(d['h'], (N, 1))
    A = mat(d['A'], (p, n)); b = mat(d['b'], (p, 1))
    if cfg.get('sparse'):
        if Wd.mode == 'sym':
            G = Wd.spmatrix._from_dense(G); A = Wd.spmatrix._from_dense(A)
        else:
            from cvxopt import sparse, spmatrix
            def sp(Md):
                m_, n_ = Md.size
                return spmatrix(list(Md), [i for j in range(n_) for i in range(m_)], [j for j in range(n_) for i in range(m_)], (m_, n_))
            G = sp(G); A = sp(A)
    return c, G, h, A, b

# ------------------------------------------------------------------------------ hooks

def install_hooks(Wd, cfg, A, mk, assume, cap):
    """havoc / iteration / return hooks for conelp (both worlds)."""
    mod = Wd.coneprog
    dims = cfg['dims']
    num = A.num
    def vp_iters(stop):
        k = mk('k', 'int')
        assume(A.ge(num(k), A.const(0))); assume(A.lt(num(k), num(stop)))
        kc = cfg.get('kclass')
        if kc == 'lt': assume(A.lt(num(k), A.const(cfg.get('maxiters', 7))))
        elif kc == 'ge': assume(A.ge(num(k), A.const(cfg.get('maxiters', 7))))
        cap['k'] = k; cap['stop'] = stop
        yield k
        raise Cut('second iteration')
    def vp_havoc(which, loc, names):
        from vp.pysym.loader import havoc_result
        if which != 'conelp': raise RuntimeError('unexpected havoc site ' + which)
        for nm in ('x', 'y', 's', 'z'):
            m = loc[nm]
            for i in range(len(m)): m[i] = mk('h%s%d' % (nm, i))
        tau, kappa = mk('tau'), mk('kappa')
        assume(A.gt(num(tau), A.const(0))); assume(A.gt(num(kappa), A.const(0)))       # I1
        s = [num(loc['s'][i]) for i in range(len(loc['s']))]
        z = [num(loc['z'][i]) for i in range(len(loc['z']))]
        assume(O.in_cone(A, s, dims, 0, strict=True)); assume(O.in_cone(A, z, dims, 0, strict=True))   # I3
        cap['havoc'] = {'s': list(s), 'z': list(z), 'tau': num(tau), 'kappa': num(kappa),
                        'x': [num(loc['x'][i]) for i in range(len(loc['x']))],
                        'y': [num(loc['y'][i]) for i in range(len(loc['y']))]}
        g = O.sdot(A, s, z, dims, 0) / (num(tau)*num(tau))                                # I2
        gap = wrap_num(Wd, g)
        vals = {'tau': tau, 'kappa': kappa, 'gap': gap}
        extra = cap.get('havoc_extra')
        if extra is not None: vals.update(extra(loc))
        return havoc_result(loc, names, vals)
    def vp_ret(val, loc):
        cap['locals'] = dict(loc)
        return val
    mod.__dict__['__vp_iters__'] = vp_iters
    mod.__dict__['__vp_havoc__'] = vp_havoc
    mod.__dict__['__vp_ret__'] = vp_ret

def wrap_num(Wd, t):
    if Wd.mode == 'sym':
        from vp.pysym.sym import SymReal
        return SymReal(t)
    return float(t)

# ------------------------------------------------------------------------------ running conelp

def run_conelp(cfg, Wd, A, mk, assume, cap, kkt=None):
    """Calls the real conelp with symbolic data from the loop head of an arbitrary iteration.
    Returns (data, sol)."""
    dims, n, p = cfg['dims'], cfg['n'], cfg['p']
    d = make_data(cfg, mk)
    c, G, h, Am, b = to_matrices(Wd, cfg, d)
    for m in (c, h, b) + ((G, Am) if not cfg.get('sparse') else ()):
        try: m._ro = True
        except AttributeError: pass
    cap['inputs'] = {'c': c, 'G': G, 'h': h, 'A': Am, 'b': b}
    feastol, abstol, reltol = mk('feastol'), mk('abstol'), mk('reltol')
    num = A.num
    assume(A.gt(num(feastol), A.const(0)))
    assume(A.or_(A.gt(num(abstol), A.const(0)), A.gt(num(reltol), A.const(0))))
    cap['opts'] = {'feastol': num(feastol), 'abstol': num(abstol), 'reltol': num(reltol)}
    maxiters = cfg.get('maxiters', 7)
    opts = {'show_progress': False, 'feastol': feastol, 'abstol': abstol, 'reltol': reltol, 'maxiters': maxiters}
    cap['maxiters'] = maxiters
    M = Wd.matrix
    e = e_vector(dims)
    N = N_of(dims)
    ps = {'x': M(0.0, (n, 1)), 's': M(e, (N, 1), 'd') if N else M(0.0, (0, 1))}
    ds = {'y': M(0.0, (p, 1)), 'z': M(e, (N, 1), 'd') if N else M(0.0, (0, 1))}
    install_hooks(Wd, cfg, A, mk, assume, cap)
    misc = Wd.misc
    saved = (misc.compute_scaling, misc.ssqr)
    if kkt is None:
        def kkt(W): raise Cut('kktsolver reached')
        def _cut(*a, **k): raise Cut('past the exit block')
        misc.compute_scaling = _cut; misc.ssqr = _cut
    try:
        sol = Wd.coneprog.conelp(c, G, h, dims, Am, b, primalstart=ps, dualstart=ds, kktsolver=kkt, options=opts)
    finally:
        misc.compute_scaling, misc.ssqr = saved
    return d, sol

# ------------------------------------------------------------------------------ oracle

def vec_of(A, m):
    return None if m is None else [A.num(m[i]) for i in range(len(m))]

def oracle_residuals(A, cfg, d, xs):
    """Residuals of the cone LP on given vectors xs = dict(x,y,s,z as alg lists or None),
    computed from the caller's data (lower-triangle/'L' interpretation of 's' blocks).
    rx = G'z + A'y + c (n), ry = A x - b (p), rz = G x + s - h (over lower positions).
    hrx = G'z + A'y, hry = A x, hrz = G x + s  (homogeneous versions)."""
    dims, n, p = cfg['dims'], cfg['n'], cfg['p']
    N = N_of(dims)
    G, Am = d['G'], d['A']
    lw = lower_weights(dims)
    x, y, s, z = xs.get('x'), xs.get('y'), xs.get('s'), xs.get('z')
    r = {}
    zero = A.const(0)
    if z is not None and y is not None:
        hrx = [O._sum((w*G[i + j*N]*z[i] for i, w in lw), zero) + O._sum((Am[i + j*p]*y[i] for i in range(p)), zero)
               for j in range(n)]
        r['hrx'] = hrx; r['rx'] = [hrx[j] + d['c'][j] for j in range(n)]
    if x is not None and s is not None:
        r['hry'] = [O._sum((Am[i + j*p]*x[j] for j in range(n)), zero) for i in range(p)]
        r['ry'] = [r['hry'][i] - d['b'][i] for i in range(p)]
        hrz = {i: O._sum((G[i + j*N]*x[j] for j in range(n)), zero) + s[i] for i, w in lw}
        r['hrz'] = hrz; r['rz'] = {i: hrz[i] - d['h'][i] for i in hrz}
    return r

def sq_norms(A, cfg, d):
    dims = cfg['dims']
    lw = lower_weights(dims)
    zero = A.const(0)
    return {'c2': O._sum((e*e for e in d['c']), zero), 'b2': O._sum((e*e for e in d['b']), zero),
            'h2': O._sum((w*d['h'][i]*d['h'][i] for i, w in lw), zero)}

def max1(A, v):
    one = A.const(1)
    return A.ite(A.xle(one, v), v, one)
