"""CrossHair launcher for the real build (run with /venv/bin/python; PYTHONPATH = overlay :
.cache/xh-site : /verif).  Works around a crash of crosshair 0.0.110 on closures with empty
cells (conelp's nested functions): fn_globals falls back to fn.__globals__."""
import sys
import crosshair.fnutil as fu
_orig = fu.fn_globals
def fn_globals(fn):
    try:
        return _orig(fn)
    except ValueError:
        return getattr(fn, '__globals__', {})
fu.fn_globals = fn_globals
from crosshair.main import main
if __name__ == '__main__':
    sys.argv = ['crosshair'] + sys.argv[1:]
    main()
