"""C02 - infeasibility statuses carry Farkas certificates: same symbolic run as C01 (the
certificate branches are two more exits of the same exit block); see vp/checks/c01.py."""
from vp.checks import c01
def main(tier): return c01.main(tier, 'C02')
replay_main = c01.replay_main
