"""C07 - KKT solvers and Nesterov-Todd scalings satisfy their linear-algebra contract.

Engine P (real misc.py on the symbolic shim, z3 over reals):
 (S1) compute_scaling on symbolic strictly interior (s, z): d > 0, d*di = 1 (dnl likewise),
      beta > 0, v0 > 0, v'Jv = 1, r'*rti = I for order-1 's' blocks, and - with the scaling
      operator taken from the independent definition (vp/oracles/cone.py) -
      W z = W^{-T} s = lambda ('l', nonlinear and order-1 's' components) with lambda in the cone.
 (S2) update_scaling ('l'/nonlinear blocks): from a valid W and
      arbitrary new iterates in the current scaling, the updated W is valid again and maps the
      new unscaled iterates to the new lambda.
 (K)  kkt_ldl and kkt_ldl2: factor(W[,H,Df]) then solve(bx,by,bz) with lapack.sytrf/sytrs
      (potrf/potrs) replaced by a CONTRACT stub (solve returns any X with sym(K) X = rhs for the
      matrix K the code assembled): the returned (ux, uy, uz) satisfies the documented block
      system [H A' GG'; A 0 0; GG 0 -W'W](ux, uy, W^{-1}uz) = (bx, by, bz); a second
      factor(W2)/solve on the same factory satisfies the system for W2 (no state carried over).
kkt_chol, kkt_chol2, kkt_qr, accuracy "to working precision" and 's' blocks of order >= 2 are
outside this check (stated in MANIFEST).
"""
import json, sys, os, time, re
from vp.checks import conelp_h as H
from vp.oracles import cone as O
from vp.pysym.cut import Cut

def configs(tier):
    out = []
    sc_dims = [({'l': 2, 'q': [], 's': []}, 0), ({'l': 1, 'q': [], 's': []}, 1), ({'l': 0, 'q': [2], 's': []}, 0), ({'l': 0, 'q': [], 's': [1]}, 0),
               ({'l': 1, 'q': [2], 's': [1]}, 0)]
    # ('q' blocks of dimension 3 and 's' blocks of order 2 were probed in the thorough tier: no verdict within 36 minutes - outside)
    if tier == 'thorough': sc_dims += [({'l': 2, 'q': [2], 's': [1]}, 1), ({'l': 1, 'q': [2, 2], 's': []}, 1), ({'l': 2, 'q': [], 's': [1, 1]}, 0)]
    for d, mnl in sc_dims: out.append({'part': 'compute_scaling', 'dims': d, 'mnl': mnl})
    for d, mnl in [({'l': 2, 'q': [], 's': []}, 0), ({'l': 1, 'q': [], 's': []}, 1)]:
        out.append({'part': 'update_scaling', 'dims': d, 'mnl': mnl})
    kd = [({'l': 1, 'q': [], 's': []}, 0, 1, 0), ({'l': 2, 'q': [], 's': []}, 0, 2, 1), ({'l': 0, 'q': [2], 's': []}, 0, 2, 1), ({'l': 1, 'q': [], 's': []}, 1, 2, 1),
          ({'l': 0, 'q': [], 's': [1]}, 0, 1, 0), ({'l': 1, 'q': [2], 's': []}, 0, 2, 0)]
    # (two 'q' blocks together with the reduced systems of kkt_ldl2 / kkt_chol: probed, not decided within 4 minutes per identity - outside)
    if tier == 'thorough': kd += [({'l': 2, 'q': [2], 's': [1]}, 1, 2, 1), ({'l': 2, 'q': [], 's': [1, 1]}, 0, 3, 1), ({'l': 2, 'q': [], 's': []}, 1, 3, 1)]
    for fac in ('kkt_ldl', 'kkt_ldl2', 'kkt_chol'):
        for d, mnl, n, p in kd:
            if fac == 'kkt_chol' and d['q']: p = 0       # QR elimination together with a 'q' block: decided only erratically (probed) - outside
            for withH in (False, True):
                for qf in ((0, 1, 2) if (fac == 'kkt_chol' and p) else (1,)):
                    out.append({'part': 'kkt', 'factory': fac, 'dims': d, 'mnl': mnl, 'n': n, 'p': p, 'H': withH, 'twice': False, 'qfam': qf})
        out.append({'part': 'kkt', 'factory': fac, 'dims': kd[1][0], 'mnl': 0, 'n': 2, 'p': 1, 'H': True, 'twice': True})
    from vp.checks import c10_cpl
    for c in c10_cpl.configs(tier):
        if c['kclass'] == 'k1': out.append(dict(c, part='cpl_restore', factory='cpl-restore'))
    from vp.checks import c10_save
    for c in c10_save.configs(tier): out.append(dict(c, factory='cpl-saved-state'))
    return out

# ------------------------------------------------------------------------------------------ helpers (both worlds)

def valid_W(A, Wd, dims, mnl, mk, assume, tag='', hyper=False):
    """symbolic scaling satisfying the documented invariants; returns (W dict of matrices, W as alg lists)"""
    num = A.num; M = Wd.matrix
    Wn = {}
    W = {}
    def vec(nm, k): return [mk('%s%s%d' % (tag, nm, i)) for i in range(k)]
    def mat(v, size): return M(list(v), size, 'd') if size[0]*size[1] else M(0.0, size)
    if mnl:
        dn = vec('dnl', mnl)
        for t in dn: assume(A.gt(num(t), A.const(0)))
        W['dnl'] = mat(dn, (mnl, 1)); W['dnli'] = mat([H.wrap_num(Wd, A.const(1)/num(t)) for t in dn], (mnl, 1))
        Wn['dnl'] = [num(t) for t in dn]; Wn['dnli'] = [A.const(1)/num(t) for t in dn]
    dv = vec('d', dims['l'])
    for t in dv: assume(A.gt(num(t), A.const(0)))
    W['d'] = mat(dv, (len(dv), 1)); W['di'] = mat([H.wrap_num(Wd, A.const(1)/num(t)) for t in dv], (len(dv), 1))
    Wn['d'] = [num(t) for t in dv]; Wn['di'] = [A.const(1)/num(t) for t in dv]
    W['v'], W['beta'], Wn['v'], Wn['beta'] = [], [], [], []
    for k_, m in enumerate(dims['q']):
        be = mk('%sbeta%d' % (tag, k_)); assume(A.gt(num(be), A.const(0)))
        if m == 2 and hyper:
            # complete rational parametrisation of {v0 > 0, v0^2 - v1^2 = 1}: v0 + v1 = w > 0, v0 - v1 = 1/w
            w = mk('%sw%d' % (tag, k_)); assume(A.gt(num(w), A.const(0)))
            vv = [H.wrap_num(Wd, (num(w) + A.const(1)/num(w))/A.const(2)), H.wrap_num(Wd, (num(w) - A.const(1)/num(w))/A.const(2))]
        else:
            vv = vec('v%d_' % k_, m)
            assume(A.gt(num(vv[0]), A.const(0)))
            assume(A.eq(num(vv[0])*num(vv[0]) - O._sum((num(t)*num(t) for t in vv[1:]), A.const(0)), A.const(1)))
        W['v'].append(mat(vv, (m, 1))); W['beta'].append(be); Wn['v'].append([num(t) for t in vv]); Wn['beta'].append(num(be))
    W['r'], W['rti'], Wn['r'], Wn['rti'] = [], [], [], []
    for k_, m in enumerate(dims['s']):
        r = vec('r%d_' % k_, m*m); rti = vec('rti%d_' % k_, m*m)
        for i in range(m):
            for j in range(m):
                assume(A.eq(O._sum((num(r[l + i*m])*num(rti[l + j*m]) for l in range(m)), A.const(0)), A.const(1 if i == j else 0)))
        W['r'].append(mat(r, (m, m))); W['rti'].append(mat(rti, (m, m))); Wn['r'].append([num(t) for t in r]); Wn['rti'].append([num(t) for t in rti])
    return W, Wn

def W_numbers(A, W, dims, mnl):
    num = A.num
    def cells(m): return [num(m[i]) for i in range(len(m))]
    Wn = {'d': cells(W['d']), 'di': cells(W['di']), 'v': [cells(v) for v in W['v']], 'beta': [num(b) for b in W['beta']],
          'r': [cells(r) for r in W['r']], 'rti': [cells(r) for r in W['rti']]}
    if mnl: Wn['dnl'] = cells(W['dnl']); Wn['dnli'] = cells(W['dnli'])
    return Wn

def apply_scale(A, x, Wn, dims, mnl, trans, inverse):
    """W x via the definition oracle; returns full-length list (upper triangles of 's' blocks = symmetric fill)"""
    N = O.layout(dims, mnl)[3]
    out = O.scale(A, x, 1, Wn, dims, mnl, trans, inverse)
    res = list(x)
    for i, v in out.items(): res[i] = v
    for (st, m) in O.layout(dims, mnl)[2]:
        for j in range(m):
            for i in range(j): res[st + i + j*m] = res[st + j + i*m]
    return res

def invariants(A, Wn, dims, mnl, tagname):
    num = A.num; one, zero = A.const(1), A.const(0)
    out = []
    if mnl:
        out.append(('%s: dnl > 0 and dnl*dnli = 1' % tagname, A.and_(*[A.and_(A.gt(d, zero), A.eq(d*di, one)) for d, di in zip(Wn['dnl'], Wn['dnli'])])))
    if dims['l']:
        out.append(('%s: d > 0 and d*di = 1' % tagname, A.and_(*[A.and_(A.gt(d, zero), A.eq(d*di, one)) for d, di in zip(Wn['d'], Wn['di'])])))
    for k, m in enumerate(dims['q']):
        v = Wn['v'][k]
        out.append(('%s: beta > 0, v0 > 0, v\'Jv = 1 (q block %d)' % (tagname, k),
                    A.and_(A.gt(Wn['beta'][k], zero), A.gt(v[0], zero), A.eq(v[0]*v[0] - O._sum((t*t for t in v[1:]), zero), one))))
    for k, m in enumerate(dims['s']):
        r, rti = Wn['r'][k], Wn['rti'][k]
        cs = []
        for i in range(m):
            for j in range(m):
                cs.append(A.eq(O._sum((r[l + i*m]*rti[l + j*m] for l in range(m)), zero), one if i == j else zero))
        out.append(("%s: r'*rti = I (s block %d)" % (tagname, k), A.and_(*cs)))
    return out

# ------------------------------------------------------------------------------------------ the cases

def case_compute_scaling(cfg, Wd, A, mk, assume):
    dims, mnl = cfg['dims'], cfg['mnl']
    num = A.num; M = Wd.matrix
    N = O.layout(dims, mnl)[3]; Nd = mnl + dims['l'] + sum(dims['q']) + sum(dims['s'])
    sv = [mk('s%d' % i) for i in range(N)]; zv = [mk('z%d' % i) for i in range(N)]
    sn, zn = [num(t) for t in sv], [num(t) for t in zv]
    assume(O.in_cone(A, sn, dims, mnl, strict=True)); assume(O.in_cone(A, zn, dims, mnl, strict=True))
    s, z = M(sv, (N, 1), 'd'), M(zv, (N, 1), 'd'); lm = M(0.0, (Nd, 1))
    W = Wd.misc.compute_scaling(s, z, lm, dims, mnl if mnl else None)
    Wn = W_numbers(A, W, dims, mnl)
    lam = [num(lm[i]) for i in range(Nd)]
    obl = invariants(A, Wn, dims, mnl, 'compute_scaling')
    # W z = lambda, W^{-T} s = lambda  (diagonal storage of lambda for 's' blocks: orders <= 1 only)
    Wz = apply_scale(A, zn, Wn, dims, mnl, 'N', 'N')
    Wis = apply_scale(A, sn, Wn, dims, mnl, 'T', 'I')
    nlq = mnl + dims['l'] + sum(dims['q'])
    # 'q' blocks: the validity invariants and lambda in the cone are decided; W z = lambda itself is an identity between
    # six nested square roots that z3/cvc5 do not decide (probed, 60 s each) - outside the claim, stated in the evidence
    idx = list(range(mnl + dims['l'])); lidx = list(idx)
    p_, q_ = nlq, nlq
    for m in dims['s']:
        if m > 1: raise NotImplementedError('s blocks of order > 1')
        for i in range(m): idx.append(p_ + i*(m + 1)); lidx.append(q_ + i)
        p_ += m*m; q_ += m
    obl.append(('compute_scaling: W z = lambda', A.and_(*[A.eq(Wz[i], lam[j]) for i, j in zip(idx, lidx)])))
    obl.append(('compute_scaling: W^{-T} s = lambda', A.and_(*[A.eq(Wis[i], lam[j]) for i, j in zip(idx, lidx)])))
    ddiag = {'l': dims['l'], 'q': dims['q'], 's': []}
    obl.append(('compute_scaling: lambda strictly inside the cone', A.and_(O.in_cone(A, lam[:nlq], ddiag, mnl, strict=True), *[A.gt(t, A.const(0)) for t in lam[nlq:]])))
    obl.append(('compute_scaling: s, z not modified', A.and_(*([A.eq(num(s[i]), sn[i]) for i in range(N)] + [A.eq(num(z[i]), zn[i]) for i in range(N)]))))
    return obl

def case_update_scaling(cfg, Wd, A, mk, assume):
    dims, mnl = cfg['dims'], cfg['mnl']
    num = A.num; M = Wd.matrix
    N = O.layout(dims, mnl)[3]
    W, Wn0 = valid_W(A, Wd, dims, mnl, mk, assume)
    st = [mk('st%d' % i) for i in range(N)]; zt = [mk('zt%d' % i) for i in range(N)]     # new iterates in the current scaling
    stn, ztn = [num(t) for t in st], [num(t) for t in zt]
    assume(O.in_cone(A, stn, dims, mnl, strict=True)); assume(O.in_cone(A, ztn, dims, mnl, strict=True))
    # the new unscaled iterates: s^ = W^T st, z^ = W^{-1} zt (definition)
    s_hat = apply_scale(A, stn, Wn0, dims, mnl, 'T', 'N'); z_hat = apply_scale(A, ztn, Wn0, dims, mnl, 'N', 'I')
    s, z = M(st, (N, 1), 'd'), M(zt, (N, 1), 'd'); lm = M(0.0, (N, 1))
    Wd.misc.update_scaling(W, lm, s, z)
    Wn = W_numbers(A, W, dims, mnl)
    lam = [num(lm[i]) for i in range(N)]
    obl = invariants(A, Wn, dims, mnl, 'update_scaling')
    Wz = apply_scale(A, z_hat, Wn, dims, mnl, 'N', 'N'); Wis = apply_scale(A, s_hat, Wn, dims, mnl, 'T', 'I')
    obl.append(('update_scaling: W_new z^ = lambda_new', A.and_(*[A.eq(Wz[i], lam[i]) for i in range(N)])))
    obl.append(('update_scaling: W_new^{-T} s^ = lambda_new', A.and_(*[A.eq(Wis[i], lam[i]) for i in range(N)])))
    return obl

_REPLAY = False
_LAST = {}

def install_lapack_contract(Wd, A, mk, assume, rec):
    """sytrf/sytrs, potrf/potrs, geqrf/ormqr/trtrs as CONTRACT stubs on the world's lapack module:
    a solve returns any X with sym(K) X = rhs for the (sub)matrix K the code handed to the factorisation;
    geqrf yields any orthogonal Q and upper triangular R with Q[:, :p] R = the matrix handed in; ormqr multiplies
    by that Q; trtrs divides by that R (p <= 1)."""
    if _REPLAY: return {}
    num = A.num; lap = Wd.lapack; M = Wd.matrix
    names = ('sytrf', 'sytrs', 'potrf', 'potrs', 'geqrf', 'ormqr', 'trtrs')
    saved = {k: getattr(lap, k) for k in names}
    zero, one = A.const(0), A.const(1)
    def factor_stub(K, ipiv=None, uplo='L', n=-1, ldA=0, offsetA=0):
        if n < 0: n = K.size[0]
        if ldA == 0: ldA = max(1, K.size[0])
        if uplo != 'L': raise NotImplementedError('factorisation stub: uplo')
        rec['K'] = [[num(K[offsetA + max(i, j) + min(i, j)*ldA]) for j in range(n)] for i in range(n)]   # symmetric matrix in 'L' storage
        rec['Kid'] = (id(K), offsetA, ldA, n)
        rec['factors'] = rec.get('factors', 0) + 1
        # LAPACK overwrites the referenced triangle with the factors: arbitrary values from here on (a missing reset before
        # the next factorisation, or a later read of these cells as if they still held the matrix, becomes visible)
        for j in range(n):
            for i in range(j, n): K[offsetA + i + j*ldA] = mk('F%d_%d_%d' % (rec['factors'], i, j))
    def potrf_stub(K, uplo='L', n=-1, ldA=0, offsetA=0):
        factor_stub(K, None, uplo, n, ldA, offsetA)
        # success path of the Cholesky factorisation: the matrix is positive definite (otherwise ArithmeticError, documented)
        k = rec['K']; m = len(k)
        # (kept apart from the path condition: only used to pick counterexample instances that replay on the real LAPACK)
        soft = rec.setdefault('soft', [])
        if m >= 1: soft.append(A.gt(k[0][0], zero))
        if m >= 2: soft.append(A.gt(k[0][0]*k[1][1] - k[1][0]*k[1][0], zero))
        if m >= 3:
            det = (k[0][0]*(k[1][1]*k[2][2] - k[2][1]*k[2][1]) - k[1][0]*(k[1][0]*k[2][2] - k[2][1]*k[2][0]) + k[2][0]*(k[1][0]*k[2][1] - k[1][1]*k[2][0]))
            soft.append(A.gt(det, zero))
        if m >= 4: raise NotImplementedError('potrf stub: order > 3')
    def solve_any(K, u, n, ldA, offsetA, offsetB):
        if n < 0: n = K.size[0]
        if ldA == 0: ldA = max(1, K.size[0])
        if rec.get('Kid') != (id(K), offsetA, ldA, n): raise NotImplementedError('solve stub: called with a matrix that was not factored last')
        if n == 0: return
        rhs = [num(u[offsetB + i]) for i in range(n)]
        rec['solves'] = rec.get('solves', 0) + 1
        X = [mk('X%d_%d_%d' % (rec['factors'], rec['solves'], i)) for i in range(n)]
        for i in range(n):
            assume(A.eq(O._sum((rec['K'][i][j]*num(X[j]) for j in range(n)), zero), rhs[i]))
        for i in range(n): u[offsetB + i] = X[i]
    def sytrs_stub(K, ipiv, B, uplo='L', n=-1, nrhs=-1, ldA=0, ldB=0, offsetA=0, offsetB=0): solve_any(K, B, n, ldA, offsetA, offsetB)
    def potrs_stub(K, B, uplo='L', n=-1, nrhs=-1, ldA=0, ldB=0, offsetA=0, offsetB=0): solve_any(K, B, n, ldA, offsetA, offsetB)
    def geqrf_stub(QA, tau):
        n, p = QA.size
        if p == 0: rec['Q'] = None; return
        if p > 1: raise NotImplementedError('geqrf stub: more than one column')
        a = [num(QA[i]) for i in range(n)]
        R = num(mk('R0'))
        # the orthogonal factor ranges over a finite family of exact rational orthogonal matrices (a fully symbolic Q with
        # Q'Q = I was probed: nlsat decides the resulting identities only erratically within minutes); R and all other data stay symbolic
        if n == 2:
            fam = {0: [[(0, 1), (1, 1)], [(1, 1), (0, 1)]], 1: [[(3, 5), (-4, 5)], [(4, 5), (3, 5)]], 2: [[(-5, 13), (12, 13)], [(12, 13), (5, 13)]]}[rec.get('qfam', 1)]
        elif n == 3:
            # a cyclic permutation and the Householder reflections I - 2vv'/v'v for v = (1,1,1), (1,2,2)
            fam = {0: [[(0, 1), (0, 1), (1, 1)], [(1, 1), (0, 1), (0, 1)], [(0, 1), (1, 1), (0, 1)]],
                   1: [[(1, 3), (-2, 3), (-2, 3)], [(-2, 3), (1, 3), (-2, 3)], [(-2, 3), (-2, 3), (1, 3)]],
                   2: [[(7, 9), (-4, 9), (-4, 9)], [(-4, 9), (1, 9), (-8, 9)], [(-4, 9), (-8, 9), (1, 9)]]}[rec.get('qfam', 1)]
        else: raise NotImplementedError('geqrf stub: n = %d' % n)
        Q = [[A.const(a_)/A.const(b_) for (a_, b_) in row] for row in fam]
        for i in range(n): assume(A.eq(Q[i][0]*R, a[i]))
        assume(A.not_(A.eq(R, zero)))                                   # A has full row rank (otherwise trtrs raises ArithmeticError: documented)
        rec['Q'], rec['R'], rec['QAid'] = Q, R, id(QA)
    def ormqr_stub(QA, tau, C, side='L', trans='N'):
        if rec.get('Q') is None: return
        if id(QA) != rec['QAid']: raise NotImplementedError('ormqr stub: unknown factor')
        Q = rec['Q']; n = len(Q); r, c = C.size
        Qm = (lambda i, j: Q[i][j]) if trans == 'N' else (lambda i, j: Q[j][i])
        cur = [[num(C[i, j]) for j in range(c)] for i in range(r)]
        if side == 'L':
            new = [[O._sum((Qm(i, l)*cur[l][j] for l in range(n)), zero) for j in range(c)] for i in range(r)]
        else:
            new = [[O._sum((cur[i][l]*Qm(l, j) for l in range(n)), zero) for j in range(c)] for i in range(r)]
        for i in range(r):
            for j in range(c): C[i, j] = H.wrap_num(Wd, new[i][j])
    def trtrs_stub(QA, B, uplo='L', trans='N', diag='N', n=-1, nrhs=-1, ldA=0, ldB=0, offsetA=0, offsetB=0):
        if n < 0: n = QA.size[0]
        if n == 0: return
        if n > 1 or id(QA) != rec.get('QAid') or uplo != 'U': raise NotImplementedError('trtrs stub configuration')
        B[offsetB] = H.wrap_num(Wd, num(B[offsetB])/rec['R'])
    lap.sytrf, lap.potrf, lap.sytrs, lap.potrs = factor_stub, potrf_stub, sytrs_stub, potrs_stub
    lap.geqrf, lap.ormqr, lap.trtrs = geqrf_stub, ormqr_stub, trtrs_stub
    return saved

def case_kkt(cfg, Wd, A, mk, assume):
    dims, mnl, n, p = cfg['dims'], cfg['mnl'], cfg['n'], cfg['p']
    num = A.num; M = Wd.matrix
    N0 = H.N_of(dims); N = mnl + N0
    lw = [(i, 1) for i in range(mnl)] + [(mnl + i, w) for i, w in H.lower_weights(dims)]
    zero = A.const(0)
    def mat(pref, r, c): return [mk('%s%d_%d' % (pref, i, j)) for j in range(c) for i in range(r)]
    Gv, Av = mat('G', N0, n), mat('A', p, n)
    Dfv = mat('Df', mnl, n) if mnl else []
    Hv = mat('H', n, n) if cfg['H'] else None
    G = M(Gv, (N0, n), 'd') if N0*n else M(0.0, (N0, n)); Am = M(Av, (p, n), 'd') if p*n else M(0.0, (p, n))
    Df = (M(Dfv, (mnl, n), 'd') if mnl else None); Hm = (M(Hv, (n, n), 'd') if Hv else None)
    rec = {'qfam': cfg.get('qfam', 1)}; _LAST['rec'] = rec
    saved = install_lapack_contract(Wd, A, mk, assume, rec)
    obl = []
    try:
        fac = getattr(Wd.misc, cfg['factory'])(G, dims, Am, mnl)
        rounds = 2 if cfg['twice'] else 1
        for rd in range(rounds):
            W, Wn = valid_W(A, Wd, dims, mnl, mk, assume, tag='w%d' % rd)
            bx = [mk('bx%d_%d' % (rd, j)) for j in range(n)]; by = [mk('by%d_%d' % (rd, i)) for i in range(p)]; bz = [mk('bz%d_%d' % (rd, i)) for i in range(N)]
            x = M(bx, (n, 1), 'd'); y = M(by, (p, 1), 'd') if p else M(0.0, (0, 1)); z = M(bz, (N, 1), 'd')
            solve = fac(W, Hm, Df) if (mnl or Hm is not None) else fac(W)
            solve(x, y, z)
            ux = [num(x[j]) for j in range(n)]; uy = [num(y[i]) for i in range(p)]; uz = [num(z[i]) for i in range(N)]
            vz = apply_scale(A, uz, Wn, dims, mnl, 'N', 'I')                    # W^{-1} uz
            WtW = apply_scale(A, apply_scale(A, vz, Wn, dims, mnl, 'N', 'N'), Wn, dims, mnl, 'T', 'N')
            GG = lambda i, j: num(Dfv[i + j*mnl]) if i < mnl else num(Gv[(i - mnl) + j*N0])
            Hs = (lambda i, j: num(Hv[max(i, j) + min(i, j)*n])) if Hv else (lambda i, j: zero)
            tag = '%s round %d' % (cfg['factory'], rd + 1)
            r1 = [O._sum((Hs(j, l)*ux[l] for l in range(n)), zero) + O._sum((num(Av[i + j*p])*uy[i] for i in range(p)), zero) +
                  O._sum((w*GG(i, j)*vz[i] for i, w in lw), zero) - num(bx[j]) for j in range(n)]
            r2 = [O._sum((num(Av[i + j*p])*ux[j] for j in range(n)), zero) - num(by[i]) for i in range(p)]
            r3 = [O._sum((GG(i, j)*ux[j] for j in range(n)), zero) - WtW[i] - num(bz[i]) for i, w in lw]
            if r1: obl.append(('%s: H ux + A\' uy + GG\' W^{-1}uz = bx' % tag, A.and_(*[A.eq(e, zero) for e in r1])))
            if r2: obl.append(('%s: A ux = by' % tag, A.and_(*[A.eq(e, zero) for e in r2])))
            if r3: obl.append(('%s: GG ux - W\'W W^{-1}uz = bz' % tag, A.and_(*[A.eq(e, zero) for e in r3])))
    finally:
        for k_, f_ in saved.items(): setattr(Wd.lapack, k_, f_)
    return obl

CASES = {'compute_scaling': case_compute_scaling, 'update_scaling': case_update_scaling, 'kkt': case_kkt}

# ------------------------------------------------------------------------------------------ symbolic job / replay / driver

def generic_pins(formulas):
    """equalities pinning the problem data (G, A, Df, H, scaling parameters) that occur in the formulas to generic rational values"""
    import z3
    from fractions import Fraction as F
    names = set()
    def walk(e, seen):
        if e.get_id() in seen: return
        seen.add(e.get_id())
        if z3.is_const(e) and e.decl().kind() == z3.Z3_OP_UNINTERPRETED: names.add(e.decl().name())
        for c in e.children(): walk(c, seen)
    seen = set()
    for f in formulas:
        if z3.is_expr(f): walk(f, seen)
    pins = []
    for nm in sorted(names):
        m = re.match(r'^(G|A|Df|H)(\d+)_(\d+)$', nm)
        v = None
        if m:
            i, j = int(m.group(2)), int(m.group(3))
            if m.group(1) == 'H': v = F(7 + i) if i == j else F(1, 2)
            else: v = F(((i + 1)*(j + 2) + {'G': 0, 'A': 1, 'Df': 2}[m.group(1)]) % 5 + 1, 1 + (i + 2*j) % 3) * (-1 if (i + j) % 2 else 1)
        elif re.match(r'^w\d+(d|dnl)\d+$', nm): v = F(2 + int(re.findall(r'\d+', nm)[-1]), 1)
        elif re.match(r'^w\d+beta\d+$', nm): v = F(2)
        elif re.match(r'^w\d+v\d+_(\d+)$', nm):
            k = int(nm.rsplit('_', 1)[1]); v = {0: F(5, 4), 1: F(3, 4)}.get(k, F(0))
        elif re.match(r'^w\d+r\d+_0$', nm): v = F(2)
        if v is not None: pins.append(z3.Real(nm) == z3.RealVal(str(v)))
    return pins

_WORLD = None
def _world():
    global _WORLD
    if _WORLD is None:
        from vp.pysym import loader
        _WORLD = loader.load('sym', modules=('misc',))
    return _WORLD

def job(cfg):
    if cfg.get('part') == 'saveblock':
        from vp.checks import c10_save
        r = c10_save.job(cfg)
        return {'paths': r['paths'], 'obl': r['obl'], 'solver_s': r['solver_s'], 'sat': [s_ for s_ in r['sat'] if s_.get('prop') == 'C07'],
                'unknown': [u for u in r['unknown'] if ' W' in u], 'errors': r['errors'], 'reach': 1 if r['reach'] else 0,
                'sample': (r['samples'][0] if r['samples'] else None)}
    if cfg.get('part') == 'cpl_restore':
        # the scaling cpl hands to the KKT solver when it retries after restoring its saved state (harness of vp/checks/c10_cpl.py)
        from vp.checks import c10_cpl
        r = c10_cpl.job(dict(cfg, _timeout_ms=min(int(cfg.get('_timeout_ms', 20000)), 20000)))
        return {'paths': r['paths'], 'obl': r['obl'], 'solver_s': r['solver_s'], 'sat': [s_ for s_ in r['sat'] if s_.get('prop') == 'C07'],
                'unknown': [u for u in r['unknown'] if u.startswith('retry: sca')], 'errors': r['errors'], 'reach': 1 if r['reach'] else 0,
                'sample': (r['samples'][0] if r['samples'] else None)}
    import z3
    from vp.pysym import sym, prove, alg
    Wd = _world()
    tmo = int(cfg.get('_timeout_ms', 20000))
    res = {'paths': 0, 'obl': {'total': 0, 'unsat': 0, 'sat': 0, 'unknown': 0}, 'solver_s': 0.0, 'sat': [], 'unknown': [], 'errors': [], 'reach': 0, 'sample': None}
    state = {}
    def run_one():
        A = alg.SymAlg(); state['A'] = A
        return CASES[cfg['part']](cfg, Wd, A, lambda name, kind='real': sym.SymReal(z3.Real(name)), lambda p_: sym.CTX.assume(p_))
    def on_path(kind, val, ctx):
        res['paths'] += 1
        A = state['A']; pc = list(ctx.pc)
        if kind == 'exception':
            if isinstance(val, NotImplementedError): res['errors'].append('shim does not model: %s' % val); return
            v = prove.feasible(pc + A.side, tmo)
            res['obl']['total'] += 1
            if v == 'unsat': res['obl']['unsat'] += 1
            elif v == 'sat':
                res['obl']['sat'] += 1; _, m, _ = sym.check(pc + A.side, tmo, want_model=True)
                res['sat'].append({'label': '%s raises %s: %s' % (cfg['part'], type(val).__name__, str(val)[:60]), 'model': sym.model_to_dict(m) if m is not None else {}})
            else: res['obl']['unknown'] += 1; res['unknown'].append('exception path %s (feasibility undecided)' % type(val).__name__)
            return
        if kind != 'return': res['errors'].append('%s: %s' % (kind, val)); return
        res['reach'] += 1
        for label, g in val:
            # one query per conjunct: the negation of a conjunction of polynomial identities is much harder for nlsat than each identity
            parts = list(g.children()) if z3.is_and(g) else [g]
            for k, gk in enumerate(parts):
                r = prove.prove(gk, pc, A.side, tmo)
                res['obl']['total'] += 1; res['obl'][r['verdict']] += 1; res['solver_s'] += r['secs']
                if r['verdict'] == 'sat':
                    if cfg['part'] == 'kkt':
                        # prefer an instance on which the real LAPACK succeeds: generic pinned data first, then the definiteness side conditions
                        soft = [c for c in (_LAST.get('rec') or {}).get('soft', []) if not isinstance(c, bool)]
                        for extra in (generic_pins(pc + [gk]), soft):
                            if not extra: continue
                            r2 = prove.prove(gk, pc + extra, A.side, tmo, slice_first=False)
                            if r2['verdict'] == 'sat': r = r2; break
                    res['sat'].append({'label': label, 'model': r['model']}); break
                elif r['verdict'] == 'unknown': res['unknown'].append('%s [conjunct %d]' % (label, k))
        if res['sample'] is None and val:
            res['sample'] = {'cfg': cfg, 'obligations': [l for l, _ in val], 'smt': z3.Not(val[0][1]).sexpr()[:300]}
    sym.explore(run_one, on_path=on_path, max_paths=300)
    return res

def replay(cfg, model):
    import fractions
    from vp.pysym import loader, alg
    Wd = loader.load('conc', use_c=True, modules=('misc',))
    A = alg.ConcAlg(rtol=1e-6, atol=1e-8)
    def val(name):
        v = model.get(name)
        if v is None: return 1.0
        try: return float(fractions.Fraction(v))
        except Exception: return float(v)
    pre = []
    global _REPLAY
    _REPLAY = True        # the real LAPACK of the build stands for the contract stubs
    if False: pass
    else:
        try:
            obl = CASES[cfg['part']](cfg, Wd, A, lambda name, kind='real': val(name), lambda p_: pre.append(bool(p_)))
        except ArithmeticError as e:
            return {'precond_ok': False, 'violated': [], 'note': 'the factorisation failed on the real build for this instance (%s): not a reproduction' % e}
        except Exception as e:
            return {'precond_ok': all(pre), 'violated': ['raises %s: %s' % (type(e).__name__, str(e)[:80])]}
    return {'precond_ok': all(pre), 'violated': [l for l, g in obl if not g]}

def replay_on_build(path):
    from vp import common
    r = common.run_conc(['-m', 'vp.checks.c07', '--replay-conc', path])
    if r.returncode != 0: return None, 'replay process failed: ' + r.stderr[-300:]
    try: d = json.loads(r.stdout.strip().splitlines()[-1])
    except Exception: return None, 'unparsable replay output'
    if d.get('precond_ok') and d.get('violated'): return str(d['violated'][:3]), None
    return None, 'not reproduced (precond_ok=%s)' % d.get('precond_ok')

def replay_main(path):
    part_ = json.load(open(path)).get('cfg', {}).get('part')
    if part_ == 'saveblock':
        from vp.checks import c10_save
        rep, why = c10_save.replay_on_build(path)
    elif part_ == 'cpl_restore':
        from vp.checks import c10_cpl
        rep, why = c10_cpl.replay_on_build(path)
    else:
        rep, why = replay_on_build(path)
    if rep: print('REPRODUCED on the real build: %s' % rep); return 1
    print(why); return 0

def main(tier):
    from vp import common
    from vp.pysym import loader
    ev = common.Evidence('C07', 'model_checking', tier)
    cfgs = configs(tier)
    for c in cfgs: c['_timeout_ms'] = 60000 if tier == 'quick' else 240000
    results = common.run_jobs('vp.checks.c07', 'job', cfgs)
    known = common.known_findings('C07')
    violations, known_hits, herr, inconc = [], [], [], []
    paths = 0; seen = {}
    for r in results:
        cfg = {k: v for k, v in r['cfg'].items() if not k.startswith('_')}
        if not r['ok']: herr.append('%s: %s' % (json.dumps(cfg), r['err'])); continue
        res = r['res']; paths += res['paths']
        for key in ('total', 'unsat', 'sat', 'unknown'): ev.obl[key] += res['obl'][key]
        ev.solver_s += res['solver_s']
        if res['sample']: ev.sample(res['sample'], cap=5)
        for e in res['errors']: herr.append('%s: %s' % (json.dumps(cfg), e))
        for u in res['unknown']: inconc.append('%s: %s' % (json.dumps(cfg), u))
        if not res['reach'] and not res['errors']: herr.append('%s: assertion point never reached' % json.dumps(cfg))
        for s in res['sat']:
            key = '%s:%s' % (cfg.get('factory', cfg['part']), s['label'].split(':')[-1].strip()[:50])
            if key in seen: seen[key] += 1; continue
            seen[key] = 1
            rp = common.write_replay('C07', json.dumps(cfg, sort_keys=True) + s['label'], {'property': 'C07', 'cfg': cfg, 'label': s['label'], 'model': s['model']})
            if cfg.get('part') == 'saveblock':
                from vp.checks import c10_save
                rep, why = c10_save.replay_on_build(rp)
            elif cfg.get('part') == 'cpl_restore':
                from vp.checks import c10_cpl
                rep, why = c10_cpl.replay_on_build(rp)
            else:
                rep, why = replay_on_build(rp)
            if rep is None: herr.append('%s: counterexample for "%s" %s (%s)' % (json.dumps(cfg), s['label'], why, rp))
            elif key in known: known_hits.append((key, known[key]['what']))
            else: violations.append((key, rp, '%s: %s -> %s' % (json.dumps(cfg), s['label'], rep)))
    ev.cov.update({'states': max(1, paths), 'transitions': max(1, ev.obl['total']), 'traces_validated_against_impl': 0, 'configurations': len(cfgs),
                   'functions_encoded': ['misc.compute_scaling', 'misc.update_scaling', 'misc.kkt_ldl', 'misc.kkt_ldl2', 'misc.kkt_chol', 'misc.scale/pack/unpack/sgemv (Python fallbacks)',
                                         'cvxprog.cpl (restore of the saved scaling W0 and retry of the factorisation after an ArithmeticError)'],
                   'source_hash': loader.src_hash(['misc', 'cvxprog']),
                   'bounds': "cone structures with l <= 2, up to two q blocks of dimension 2, 's' blocks of order 1, mnl <= 1, n <= 2 (3 thorough), p <= 1; all data symbolic reals"})
    ev.assumptions += ['lapack.sytrf/sytrs (potrf/potrs) are contract stubs: the solve returns any X with sym(K) X = rhs for the K assembled by the code; kkt_chol, kkt_chol2, kkt_qr are not covered',
                       "exact real arithmetic - 'to working accuracy' and drift bounds are not decided", 'the scaling operator used in the oracle is the independent definition of vp/oracles/cone.py']
    return common.finish(ev, violations, sorted(dict(known_hits).items()), herr, inconc)

if __name__ == '__main__':
    if len(sys.argv) >= 3 and sys.argv[1] == '--replay-conc':
        dd = json.load(open(sys.argv[2]))
        print(json.dumps(replay(dd['cfg'], dd['model'])))
