#!/usr/bin/env python3
"""Fills the seeds table of DESIGN.md (between the marker and the next blank-line-terminated block) from seeded/*/meta.json."""
import json, os, re, glob
V = os.path.dirname(os.path.dirname(os.path.abspath(__file__)))
rows = ['| seed | targets | what the change is | needs to manifest | caught by (quick tier) |', '|---|---|---|---|---|']
for mp in sorted(glob.glob(os.path.join(V, 'seeded', '*', 'meta.json'))):
    name = os.path.basename(os.path.dirname(mp)); m = json.load(open(mp))
    patch = open(os.path.join(os.path.dirname(mp), 'patch.diff')).read()
    files = sorted(set(re.findall(r'^\+\+\+ b/(\S+)', patch, re.M)))
    fn = re.findall(r'^@@.*@@\s*(?:static\s+\w+\s*\*?\s*)?(?:def |class )?([\w ]*\w)\s*\(', patch, re.M)
    what = ', '.join(os.path.basename(f) for f in files) + (': ' + fn[0].split()[-1] if fn else '')
    need = ' '.join((m.get('needs_to_manifest') or '').split())
    need = re.sub(r'^#+\s*', '', need)[:170]
    det = m.get('detected_by')
    runs = m.get('runs') or {}
    if det: caught = ', '.join(det)
    elif runs: caught = 'missed (' + '; '.join('%s rc=%s' % (k, v.get('rc')) for k, v in runs.items()) + ')'
    else: caught = 'not run'
    rows.append('| %s | %s | %s | %s | %s |' % (name, m.get('property'), what, need.replace('|', '/'), caught))
p = os.path.join(V, 'DESIGN.md'); s = open(p).read()
a = s.index('<!-- SEEDS-TABLE -->')
b = s.find('<!-- /SEEDS-TABLE -->')
block = '<!-- SEEDS-TABLE -->\n' + '\n'.join(rows) + '\n<!-- /SEEDS-TABLE -->'
s = s[:a] + block + (s[b + len('<!-- /SEEDS-TABLE -->'):] if b >= 0 else s[a + len('<!-- SEEDS-TABLE -->'):])
open(p, 'w').write(s)
print(len(rows) - 2, 'seeds')
