"""Obligation discharge for engine P: `prove(goal, pc)` asks the solver for a counterexample
to `pc => goal`.  Ladder: (1) cone-of-influence slice of pc (sound for unsat), (2) full pc;
`sat` on the full query yields a model (dict name -> rational string) for replay."""
import time, z3
from . import sym

def _simp_true(g):
    try:
        return z3.is_true(z3.simplify(g))
    except Exception:
        return False

def prove(goal, pc, side=(), timeout_ms=10000, slice_first=True, extra_allowed=(), fallback=True, full_query=True):
    """returns dict(verdict, model, secs, how)."""
    t0 = time.time()
    if _simp_true(goal):
        return {'verdict': 'unsat', 'model': None, 'secs': time.time() - t0, 'how': 'simplify'}
    neg = z3.Not(goal)
    allpc = list(pc) + list(side)
    if slice_first:
        hyps = sym.slice_pc(allpc, [goal], extra_allowed)
        v, _, dt = sym.check(hyps + [neg], timeout_ms)
        if v == 'unsat':
            return {'verdict': 'unsat', 'model': None, 'secs': time.time() - t0, 'how': 'sliced(%d/%d)' % (len(hyps), len(allpc))}
    if not full_query:
        return {'verdict': 'unknown', 'model': None, 'secs': time.time() - t0, 'how': 'sliced-only'}
    v, m, dt = sym.check(allpc + [neg], timeout_ms, want_model=True)
    if v == 'unsat':
        return {'verdict': 'unsat', 'model': None, 'secs': time.time() - t0, 'how': 'full'}
    if v == 'sat':
        return {'verdict': 'sat', 'model': sym.model_to_dict(m), 'secs': time.time() - t0, 'how': 'full'}
    # unknown: try nlsat tactic explicitly, then give up
    try:
        if not fallback: raise RuntimeError('no fallback')
        s = z3.Then('simplify', 'purify-arith', 'nlsat').solver()
        s.set('timeout', int(timeout_ms))
        for f in allpc + [neg]: s.add(f)
        r = s.check()
        if r == z3.unsat:
            return {'verdict': 'unsat', 'model': None, 'secs': time.time() - t0, 'how': 'nlsat'}
        if r == z3.sat:
            return {'verdict': 'sat', 'model': sym.model_to_dict(s.model()), 'secs': time.time() - t0, 'how': 'nlsat'}
    except Exception:
        pass
    return {'verdict': 'unknown', 'model': None, 'secs': time.time() - t0, 'how': 'timeout'}

def find_model(formulas, pins=(), timeout_ms=10000):
    """Model search with optional pinning equalities tried in order (each element of `pins`
    is a list of extra constraints); returns model dict or None."""
    for extra in [[]] + [list(p) for p in pins]:
        v, m, dt = sym.check(list(formulas) + extra, timeout_ms, want_model=True)
        if v == 'sat': return sym.model_to_dict(m)
    return None

def feasible(pc, timeout_ms=5000):
    v, _, _ = sym.check(list(pc), timeout_ms)
    return v
