"""Engine P core: symbolic reals/ints/bools over z3 and a re-execution path explorer.

The repo's Python sources are executed unchanged on these values.  A `SymReal` is a
subclass of `float` (so that the repo's isinstance checks pass) whose C double is NaN; all
arithmetic builds z3 Real terms.  Comparisons give `SymBool`; `bool(SymBool)` asks the
explorer, which follows a recorded decision prefix and forks at new decisions.  Branch
feasibility is pruned with the *linear relaxation* of the path condition (nonlinear
monomials, divisions by non-constants are opaque variables): an over-approximation, sound
because every obligation carries the exact path condition as hypothesis.
"""
import fractions, math as _math, builtins, time
import z3

# --------------------------------------------------------------------------- context

from .cut import Cut

class Infeasible(BaseException):
    """Path condition refuted by the relaxation."""

class PathBudget(BaseException):
    pass

class Ctx:
    def __init__(self):
        self.reset_all()
    def reset_all(self):
        self.work = [[]]
        self.nq = 0               # relaxation queries
        self.t_relax = 0.0
        self.paths = 0
        self.relax_solver = None
        self.max_decisions = 400
    def start_path(self, prefix, pre=()):
        self.prefix = prefix
        self.pos = 0
        self.pc = []              # exact path condition (z3 BoolRefs)
        self.taken = []
        self.sqrt_defs = {}       # key -> (r, arg)
        self.names = {}           # fresh-name counters
        self.log = []             # human readable decision log
        self.relax_solver = z3.SolverFor('QF_LRA')
        self.relax_solver.set('timeout', 2000)
        self.relax_cache = {}
        self.relax_fresh = 0
        for f in pre:
            self.assume(f)
        self.paths += 1
    # -- facts
    def assume(self, f):
        if f is True: return
        if f is False: raise Infeasible()
        self.pc.append(f)
        self.relax_solver.add(relax(f, self))
    def fresh(self, base, sort='R'):
        k = self.names.get(base, 0); self.names[base] = k + 1
        nm = base if k == 0 else '%s#%d' % (base, k)
        return z3.Real(nm) if sort == 'R' else z3.Int(nm)
    # -- decisions
    def decide(self, cond, note=None):
        sc = z3.simplify(cond)          # only to detect trivial decisions; the raw term is kept
        if z3.is_true(sc): return True  # (its sub-term structure is needed for abstraction)
        if z3.is_false(sc): return False
        if self.pos < len(self.prefix):
            b = self.prefix[self.pos]
        else:
            if len(self.taken) >= self.max_decisions:
                raise PathBudget('more than %d decisions on one path' % self.max_decisions)
            rc = relax(cond, self)
            t0 = time.time()
            s = self.relax_solver
            s.push(); s.add(rc); rt = s.check(); s.pop()
            s.push(); s.add(z3.Not(rc)); rf = s.check(); s.pop()
            self.nq += 2; self.t_relax += time.time() - t0
            ft, ff = rt != z3.unsat, rf != z3.unsat
            if ft and ff:
                self.work.append(self.taken + [False]); b = True
            elif ft: b = True
            elif ff: b = False
            else: raise Infeasible()
        self.pos += 1
        self.taken.append(b)
        f = cond if b else z3.Not(cond)
        self.pc.append(f)
        self.relax_solver.add(relax(f, self))
        return b

CTX = Ctx()

# --------------------------------------------------------------------------- linear relaxation

def _is_num(e):
    return z3.is_rational_value(e) or z3.is_int_value(e) or z3.is_algebraic_value(e)

def relax(e, ctx):
    """Replace nonlinear sub-terms by opaque fresh variables (memoised per path)."""
    cache = ctx.relax_cache
    def opaque(t):
        k = t.get_id()
        if k not in cache:
            ctx.relax_fresh += 1
            cache[k] = (z3.Real('__o%d' % ctx.relax_fresh) if t.sort().kind() == z3.Z3_REAL_SORT
                        else z3.Int('__o%d' % ctx.relax_fresh), t)
        return cache[k][0]
    memo = {}
    def go(t):
        k = t.get_id()
        if k in memo: return memo[k]
        if z3.is_const(t) or _is_num(t):
            r = t
        else:
            kind = t.decl().kind()
            ch = t.children()
            if kind == z3.Z3_OP_MUL:
                nn = [c for c in ch if not _is_num(c)]
                if len(nn) >= 2:
                    # keep numeric coefficient linear, rest opaque (canonical product)
                    nums = [c for c in ch if _is_num(c)]
                    prod = nn[0]
                    for c in nn[1:]: prod = prod * c
                    o = opaque(z3.simplify(prod))
                    r = o
                    for c in nums: r = c * r
                else:
                    r = t.decl()(*[go(c) for c in ch])
            elif kind in (z3.Z3_OP_DIV, z3.Z3_OP_IDIV, z3.Z3_OP_MOD, z3.Z3_OP_REM):
                if _is_num(ch[1]):
                    r = t.decl()(go(ch[0]), ch[1])
                else:
                    r = opaque(t)
            elif kind == z3.Z3_OP_POWER:
                r = opaque(t)
            else:
                r = t.decl()(*[go(c) for c in ch]) if ch else t
        memo[k] = r
        return r
    return go(e)

# --------------------------------------------------------------------------- conversions

def frac(v):
    return fractions.Fraction(v)

def T(v):
    """z3 Real term of a python number / SymReal / SymInt."""
    if isinstance(v, SymReal): return v.t
    if isinstance(v, SymInt): return z3.ToReal(v.t)
    if isinstance(v, bool): return z3.RealVal(int(v))
    if isinstance(v, int): return z3.RealVal(v)
    if isinstance(v, float):
        if v != v: raise NaNLeak('NaN reached the symbolic layer')
        if v in (float('inf'), float('-inf')): raise NaNLeak('inf reached the symbolic layer')
        f = fractions.Fraction(v)
        return z3.RealVal(str(f))
    if isinstance(v, fractions.Fraction): return z3.RealVal(str(v))
    if z3.is_expr(v): return v
    raise TypeError('cannot convert %r to a real term' % type(v))

class NaNLeak(Exception):
    pass

def is_sym(v):
    return isinstance(v, (SymReal, SymInt))

# --------------------------------------------------------------------------- values

class SymBool:
    __slots__ = ('t',)
    def __init__(self, t): self.t = t
    def __bool__(self): return CTX.decide(self.t)
    def __repr__(self): return 'SymBool(%s)' % self.t

def _cmp(a, b, op):
    return SymBool(op(T(a), T(b)))

class SymReal(float):
    def __new__(cls, t):
        o = float.__new__(cls, float('nan'))
        o.t = t
        return o
    # arithmetic
    def __add__(a, b):
        if isinstance(b, complex) or not isinstance(b, (int, float)): return NotImplemented
        return SymReal(a.t + T(b))
    __radd__ = __add__
    def __sub__(a, b):
        if not isinstance(b, (int, float)): return NotImplemented
        return SymReal(a.t - T(b))
    def __rsub__(a, b):
        if not isinstance(b, (int, float)): return NotImplemented
        return SymReal(T(b) - a.t)
    def __mul__(a, b):
        if not isinstance(b, (int, float)): return NotImplemented
        return SymReal(a.t * T(b))
    __rmul__ = __mul__
    def __truediv__(a, b):
        if not isinstance(b, (int, float)): return NotImplemented
        d = T(b)
        if _is_num(d):
            if z3.simplify(d == 0) is True or z3.is_true(z3.simplify(d == 0)):
                raise ZeroDivisionError('float division by zero')
            return SymReal(a.t / d)
        if CTX.decide(d == 0): raise ZeroDivisionError('float division by zero')
        return SymReal(a.t / d)
    def __rtruediv__(a, b):
        if not isinstance(b, (int, float)): return NotImplemented
        if CTX.decide(a.t == 0): raise ZeroDivisionError('float division by zero')
        return SymReal(T(b) / a.t)
    def __neg__(a): return SymReal(-a.t)
    def __pos__(a): return a
    def __abs__(a): return SymReal(z3.If(a.t >= 0, a.t, -a.t))
    def __pow__(a, k):
        if isinstance(k, float) and not is_sym(k) and k == int(k): k = int(k)
        if isinstance(k, int) and not isinstance(k, SymInt) and 0 <= k <= 4:
            r = z3.RealVal(1)
            for _ in range(k): r = r * a.t
            return SymReal(r)
        if isinstance(k, int) and not isinstance(k, SymInt) and -4 <= k < 0:
            r = z3.RealVal(1)
            for _ in range(-k): r = r * a.t
            return SymReal(z3.RealVal(1) / r)      # C-level pow: a zero base gives inf, not an exception
        if k == 0.5: return sym_sqrt(a)
        raise NotImplementedError('SymReal ** %r' % (k,))
    def __rpow__(a, b): raise NotImplementedError('x ** SymReal')
    # comparisons
    def __lt__(a, b): return _cmp(a, b, lambda x, y: x < y)
    def __le__(a, b): return _cmp(a, b, lambda x, y: x <= y)
    def __gt__(a, b): return _cmp(a, b, lambda x, y: x > y)
    def __ge__(a, b): return _cmp(a, b, lambda x, y: x >= y)
    def __eq__(a, b):
        if b is None or isinstance(b, (str, tuple, list, dict)): return False
        return _cmp(a, b, lambda x, y: x == y)
    def __ne__(a, b):
        if b is None or isinstance(b, (str, tuple, list, dict)): return True
        return _cmp(a, b, lambda x, y: x != y)
    __hash__ = object.__hash__
    def __bool__(a): return CTX.decide(a.t != 0)
    def __float__(a): raise NaNLeak('float() of a symbolic real')
    def __int__(a): raise NaNLeak('int() of a symbolic real')
    def __repr__(a): return 'SymReal(%s)' % (a.t,)
    __str__ = __repr__
    def __format__(a, spec): return 'SymReal'
    def __reduce__(a): raise NaNLeak('pickle of symbolic real')
    def conjugate(a): return a
    @property
    def real(a): return a
    @property
    def imag(a): return 0.0

class SymInt(int):
    """Symbolic integer (used for the iteration index and option values)."""
    def __new__(cls, t):
        o = int.__new__(cls, -(2**62) + 12345)
        o.t = t
        return o
    @staticmethod
    def _t(b):
        if isinstance(b, SymInt): return b.t
        if isinstance(b, bool): return z3.IntVal(int(b))
        if isinstance(b, int): return z3.IntVal(b)
        return None
    def __eq__(a, b):
        tb = SymInt._t(b)
        if tb is None:
            if isinstance(b, float): return SymBool(z3.ToReal(a.t) == T(b))
            return False
        return SymBool(a.t == tb)
    def __ne__(a, b):
        tb = SymInt._t(b)
        if tb is None:
            if isinstance(b, float): return SymBool(z3.ToReal(a.t) != T(b))
            return True
        return SymBool(a.t != tb)
    def _c(a, b, op):
        tb = SymInt._t(b)
        if tb is None: return SymBool(op(z3.ToReal(a.t), T(b)))
        return SymBool(op(a.t, tb))
    def __lt__(a, b): return a._c(b, lambda x, y: x < y)
    def __le__(a, b): return a._c(b, lambda x, y: x <= y)
    def __gt__(a, b): return a._c(b, lambda x, y: x > y)
    def __ge__(a, b): return a._c(b, lambda x, y: x >= y)
    def __add__(a, b):
        tb = SymInt._t(b)
        if tb is None: return SymReal(z3.ToReal(a.t) + T(b))
        return SymInt(a.t + tb)
    __radd__ = __add__
    def __sub__(a, b):
        tb = SymInt._t(b)
        if tb is None: return SymReal(z3.ToReal(a.t) - T(b))
        return SymInt(a.t - tb)
    def __rsub__(a, b):
        tb = SymInt._t(b)
        if tb is None: return SymReal(T(b) - z3.ToReal(a.t))
        return SymInt(tb - a.t)
    def __mul__(a, b):
        tb = SymInt._t(b)
        if tb is None: return SymReal(z3.ToReal(a.t) * T(b))
        return SymInt(a.t * tb)
    __rmul__ = __mul__
    def __neg__(a): return SymInt(-a.t)
    def __bool__(a): return CTX.decide(a.t != 0)
    __hash__ = object.__hash__
    def __index__(a): raise NaNLeak('symbolic int used as an index')
    def __repr__(a): return 'SymInt(%s)' % (a.t,)
    __str__ = __repr__
    def __format__(a, spec): return 'SymInt'

# --------------------------------------------------------------------------- math shim

def syntactic_nonneg(t):
    """Cheap sufficient test: t is a sum of squares / nonnegative constants."""
    t = z3.simplify(t)
    def nn(e):
        if _is_num(e):
            return z3.is_true(z3.simplify(e >= 0))
        k = e.decl().kind()
        ch = e.children()
        if k == z3.Z3_OP_ADD: return all(nn(c) for c in ch)
        if k == z3.Z3_OP_MUL:
            nums = [c for c in ch if _is_num(c)]
            rest = [c for c in ch if not _is_num(c)]
            sign_ok = all(z3.is_true(z3.simplify(c >= 0)) for c in nums)
            ids = sorted(c.get_id() for c in rest)
            paired = len(ids) % 2 == 0 and all(ids[i] == ids[i+1] for i in range(0, len(ids), 2))
            if sign_ok and paired: return True
            if sign_ok and all(nn(c) for c in rest): return True
            return False
        if k == z3.Z3_OP_POWER:
            return _is_num(ch[1]) and z3.is_true(z3.simplify(ch[1] == 2))
        if k == z3.Z3_OP_ITE: return nn(ch[1]) and nn(ch[2])
        if z3.is_const(e):
            return str(e).startswith('sq!')
        return False
    try:
        return nn(t)
    except Exception:
        return False

def sym_sqrt(v):
    """math.sqrt over the reals: exact for rational squares, otherwise a fresh algebraic
    symbol r >= 0 with r*r == arg (memoised per argument term).  Concrete arguments that are
    not rational squares (math.sqrt(2.0)) are symbols too, with numeric bounds to help the
    relaxation."""
    if isinstance(v, (SymReal, SymInt)):
        a = z3.simplify(T(v))
    else:
        if v < 0: raise ValueError('math domain error')
        a = T(float(v)) if not isinstance(v, fractions.Fraction) else T(v)
    if _is_num(a) and z3.is_rational_value(a):
        fr = a.as_fraction()
        if fr < 0: raise ValueError('math domain error')
        r = _math.isqrt(fr.numerator), _math.isqrt(fr.denominator)
        if r[0]*r[0] == fr.numerator and r[1]*r[1] == fr.denominator:
            val = fractions.Fraction(r[0], r[1])
            if not isinstance(v, (SymReal, SymInt)): return float(val)
            return SymReal(z3.RealVal(str(val)))
        key = ('const', str(fr))
        if key not in CTX.sqrt_defs:
            r = z3.Real('sq!c%s' % str(fr).replace('/', '_'))
            CTX.sqrt_defs[key] = (r, a, a)
            f = _math.sqrt(float(fr))
            lo, hi = fractions.Fraction(f*(1 - 1e-12)), fractions.Fraction(f*(1 + 1e-12))
            CTX.assume(r > T(lo)); CTX.assume(r < T(hi))
            CTX.assume(r * r == a)
        return SymReal(CTX.sqrt_defs[key][0])
    if not syntactic_nonneg(a):
        if CTX.decide(a < 0): raise ValueError('math domain error')
    key = a.get_id()
    if key not in CTX.sqrt_defs:
        r = z3.Real('sq!%d' % len(CTX.sqrt_defs))
        raw = T(v)                      # unsimplified: keeps sub-term structure for abstraction
        CTX.sqrt_defs[key] = (r, raw, a)   # `a` is stored to keep the AST (and hence its id) alive
        CTX.assume(r >= 0)
        CTX.assume(r * r == raw)
    return SymReal(CTX.sqrt_defs[key][0])

def sym_max(*a, **kw):
    if len(a) == 1: a = list(a[0])
    if not any(is_sym(v) for v in a): return builtins.max(a, **kw)
    r = T(a[0])
    for v in a[1:]:
        tv = T(v); r = z3.If(r >= tv, r, tv)
    return SymReal(r)

def sym_min(*a, **kw):
    if len(a) == 1: a = list(a[0])
    if not any(is_sym(v) for v in a): return builtins.min(a, **kw)
    r = T(a[0])
    for v in a[1:]:
        tv = T(v); r = z3.If(r <= tv, r, tv)
    return SymReal(r)

def sym_abs(v):
    return abs(v)

def make_math_module():
    import types
    m = types.ModuleType('math')
    m.__dict__.update(_math.__dict__)
    m.sqrt = sym_sqrt
    def _log(v):
        if not is_sym(v): return _math.log(v)
        raise NotImplementedError('math.log of a symbolic real')
    m.log = _log
    def _exp(v):
        if not is_sym(v): return _math.exp(v)
        raise NotImplementedError('math.exp of a symbolic real')
    m.exp = _exp
    return m

# --------------------------------------------------------------------------- exploration driver

def explore(run_one, pre=(), max_paths=5000, on_path=None):
    """Run `run_one()` once per feasible path.  `run_one` returns an outcome object
    (or raises); outcome and exception are handed to `on_path(kind, value, ctx)`.
    Returns dict of counts."""
    CTX.reset_all()
    stats = {'paths': 0, 'infeasible': 0, 'budget': 0}
    while CTX.work:
        if stats['paths'] >= max_paths:
            stats['budget'] += 1
            break
        prefix = CTX.work.pop()
        CTX.start_path(prefix, pre)
        stats['paths'] += 1
        try:
            val = run_one()
            kind = 'return'
        except Infeasible:
            stats['infeasible'] += 1
            continue
        except Cut as e:
            kind, val = 'cut', e
        except PathBudget as e:
            stats['budget'] += 1
            kind, val = 'budget', e
        except Exception as e:
            kind, val = 'exception', e
        if on_path is not None:
            on_path(kind, val, CTX)
    stats['relax_queries'] = CTX.nq
    stats['relax_time'] = round(CTX.t_relax, 3)
    return stats

# --------------------------------------------------------------------------- solving helpers

_CONSTS_CACHE = {}
def consts_of(f, acc=None):
    """names of the uninterpreted constants of f (cached per top-level term while it is alive)"""
    key = f.get_id()
    hit = _CONSTS_CACHE.get(key)
    if hit is not None and hit[0].eq(f):
        res = hit[1]
    else:
        res = set()
        seen = set(); st = [f]
        while st:
            e = st.pop()
            i = e.get_id()
            if i in seen: continue
            seen.add(i)
            n = e.num_args()
            if n == 0:
                if e.decl().kind() == z3.Z3_OP_UNINTERPRETED:
                    res.add(e.decl().name())
            else:
                for j in range(n): st.append(e.arg(j))
        res = frozenset(res)
        if len(_CONSTS_CACHE) > 20000: _CONSTS_CACHE.clear()
        _CONSTS_CACHE[key] = (f, res)
    if acc is None: return set(res)
    acc |= res
    return acc

def slice_pc(pc, goal_terms, extra_allowed=()):
    """Keep the conjuncts of pc whose constants all lie in the cone of the goal:
    start from the goal's constants, add sqrt-definition radicands of included sq! symbols,
    keep conjuncts entirely inside.  Dropping hypotheses is sound for `unsat`."""
    allowed = set(extra_allowed)
    for g in goal_terms: consts_of(g, allowed)
    cs = [(f, consts_of(f)) for f in pc]
    changed = True
    while changed:
        changed = False
        for f, c in cs:
            # definition of an included sqrt symbol: r*r == a
            if z3.is_eq(f):
                l = f.arg(0)
                sqs = [n for n in c if n.startswith('sq!')]
                for n in sqs:
                    if n in allowed and not c <= allowed and _defines(f, n):
                        allowed |= c; changed = True
    return [f for f, c in cs if c <= allowed]

def _defines(f, name):
    # f is  sq*sq == a  for symbol `name`
    try:
        l = f.arg(0)
        if l.decl().kind() == z3.Z3_OP_MUL and all(str(c) == name for c in l.children()):
            return True
        if l.decl().kind() == z3.Z3_OP_POWER and str(l.arg(0)) == name:
            return True
    except Exception:
        pass
    return False

class Verdict:
    UNSAT, SAT, UNKNOWN = 'unsat', 'sat', 'unknown'

def check(formulas, timeout_ms=10000, want_model=False, logic=None):
    """One solver query.  Returns (verdict, model or None, seconds)."""
    s = z3.Solver() if logic is None else z3.SolverFor(logic)
    s.set('timeout', int(timeout_ms))
    for f in formulas: s.add(f)
    t0 = time.time()
    r = s.check()
    dt = time.time() - t0
    if r == z3.unsat: return Verdict.UNSAT, None, dt
    if r == z3.sat: return Verdict.SAT, (s.model() if want_model else None), dt
    return Verdict.UNKNOWN, None, dt

def model_to_dict(m):
    out = {}
    for d in m.decls():
        v = m[d]
        try:
            if z3.is_rational_value(v) or z3.is_int_value(v):
                out[d.name()] = str(v.as_fraction()) if z3.is_rational_value(v) else str(v.as_long())
            elif z3.is_algebraic_value(v):
                out[d.name()] = str(v.approx(30).as_fraction())
            else:
                out[d.name()] = str(v)
        except Exception:
            out[d.name()] = str(v)
    return out


def slice_up(pc, allowed_base):
    """Keep conjuncts whose constants lie in `allowed`, where allowed starts from
    allowed_base and grows by every sq!/osq! symbol whose defining constraints mention only
    allowed names (definitions closed upward).  Sound for unsat (drops hypotheses)."""
    allowed = set(allowed_base)
    cs = [(f, consts_of(f)) for f in pc]
    changed = True
    while changed:
        changed = False
        for f, c in cs:
            extra = c - allowed
            if len(extra) == 1:
                n = next(iter(extra))
                if (n.startswith('sq!') or n.startswith('osq!')) and z3.is_eq(f) and _defines(f, n):
                    allowed.add(n); changed = True
    return [f for f, c in cs if c <= allowed], allowed
