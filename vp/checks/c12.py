"""C12 - op.solve() solves the piecewise-linear problem that was written down.

Engine P (translation validation by SMT): for every problem generated from the documented
grammar the real modeling code builds the matrix-form LP (op._inmatrixform, both formats);
z3 then decides, over ALL points, that the LP is equivalent to the written problem:
  (S) soundness     every LP-feasible (x,t) satisfies every written constraint at x, and
                    c'(x,t)+d >= f0(x);
  (C) completeness  for every x satisfying the written constraints there is a t with (x,t)
                    LP-feasible and c'(x,t)+d == f0(x)            (quantified LRA);
and, running the real op.solve with solvers.lp replaced by a stub returning an arbitrary
(symbolic) optimal primal-dual pair of that LP (KKT conditions assumed):
  (B) back-substitution: variable values are the right components, every written constraint
      holds, objective.value() equals the LP value, each multiplier has the constraint's
      length and is nonnegative for inequalities; infeasible/unbounded statuses give None.
The written problem is evaluated by the reference evaluator of C11 (from the documentation).
"""
import json, sys, os, time, re
from vp.checks import c11

# (objective, [(relation, lhs, rhs), ...]) over variables x(3), y(1), z(3) and the constants of C11
OBJECTIVES = ['sum(x)', 'dot(b3, x) + y', 'max(abs(x))', 'sum(abs(A23*x - 1.0))', 'sum(max(x, z)) - y', 'max(x) + max(-z)',
              'y', 'abs(y) + sum(x)', 'sum(max(y, x))', 'max(abs(x), 2.0*y)[0] + sum(z)']
CONSTRAINTS = [
    ('<=', 'x', 'b3'), ('>=', 'x', '-2.0'), ('<=', 'A23*x', '4.0'), ('<=', 'abs(x)', '2.0'), ('<=', 'max(x, z)', 'y'),
    ('<=', 'sum(abs(x))', '4.0'), ('<=', 'sum(max(y, x))', '6.0'), ('==', 'z', 'x + 1.0'), ('==', 'A23*x', 'b3[:2]'),
    ('==', 'y', '1.0'), ('>=', 'z', 'x - 1.0'), ('<=', 'max(abs(x - z))', 'y + 3.0'), ('>=', 'min(x, z)', '-5.0'),
    ('<=', 'abs(y) + x', '3.0*b3 + 10.0'), ('==', 'sum(z)', 'y'), ('<=', 'r3*x + sum(abs(z))', '7.0'), ('<=', '2.0*z + D33*x', 'b3 + 9.0'),
    ('>=', 'y', '-1.0'), ('<=', 'z', '5.0'),
    # vector affine part + max over a vector of a different length (every pair of components is constrained)
    ('<=', 'x[:2] + max(z)', '1.0'), ('<=', 'z + max(x[:2])', 'b3'), ('>=', 'x[1:] + min(z)', '-4.0'),
]

def gen_problems(tier):
    probs = []
    nC = len(CONSTRAINTS)
    # every objective with a bounding box, every constraint alone, pairs and triples (deterministic selection)
    for oi, o in enumerate(OBJECTIVES):
        probs.append((o, [1, 2, 17, 18]))
    for ci in range(nC):
        probs.append((OBJECTIVES[ci % len(OBJECTIVES)], [ci]))
    k = 0
    for i in range(nC):
        for j in range(i + 1, nC):
            k += 1
            if tier == 'quick' and k % 3: continue
            probs.append((OBJECTIVES[(i + j) % len(OBJECTIVES)], [i, j]))
    for i in range(nC):
        a, b, c = i, (i + 5) % nC, (i + 11) % nC
        probs.append((OBJECTIVES[(i*3) % len(OBJECTIVES)], [a, b, c]))
        probs.append((OBJECTIVES[(i*3 + 1) % len(OBJECTIVES)], [c, a, 7, b]))     # equality on a non-first variable, m != p
    out = []
    for (o, cs) in probs:
        # an LP without any inequality (affine objective, equality constraints only) is refused by op.solve by design
        # ('lp must have at least one inequality'; on this path _inmatrixform raises IndexError first): outside the property
        if all(CONSTRAINTS[ci][0] == '==' for ci in cs) and 'max' not in o and 'abs' not in o: continue
        for fmt in ('dense', 'sparse'):
            out.append({'obj': o, 'cons': cs, 'format': fmt})
    return out

def build_real(Wd, ns, prob):
    M = Wd.modeling
    obj = eval(prob['obj'], {'__builtins__': {}}, ns)
    cons = []
    for ci in prob['cons']:
        rel, l, r = CONSTRAINTS[ci]
        L = eval(l, {'__builtins__': {}}, ns); Rr = eval(r, {'__builtins__': {}}, ns)
        cons.append((L <= Rr) if rel == '<=' else ((L >= Rr) if rel == '>=' else (L == Rr)))
    return M.op(obj, cons), cons

def ref_problem(ops, values, prob):
    """reference: objective value (scalar number) and list of (rel, [components of lhs-rhs])"""
    ns = c11.ref_namespace(ops, values)
    o = eval(prob['obj'], {'__builtins__': {}}, ns)
    o = c11.R.lift(ops, o)
    if len(o) != 1: raise c11.Reject('objective not scalar')
    cons = []
    for ci in prob['cons']:
        rel, l, r = CONSTRAINTS[ci]
        L = c11.R.lift(ops, eval(l, {'__builtins__': {}}, ns)); Rr = c11.R.lift(ops, eval(r, {'__builtins__': {}}, ns))
        d = L - Rr
        cons.append((rel, list(d.v)))
    return o.v[0], cons

_WORLD = None
def _world():
    global _WORLD
    if _WORLD is None: _WORLD = c11._world()
    return _WORLD

def lp_data(Wd, lp1, fmt):
    """(c, G, h, A, b, d) of a matrix-form LP exactly as op.solve reads them"""
    M = Wd.modeling
    x = lp1.variables()[0]
    c = lp1.objective._linear._coeff[x]
    if M._isspmatrix(c): c = Wd.matrix(c, tc='d')
    d = lp1.objective._constant
    ineq = lp1._inequalities
    G = ineq[0]._f._linear._coeff[x] if ineq else None
    h = -ineq[0]._f._constant if ineq else None
    eqs = lp1._equalities
    A = eqs[0]._f._linear._coeff[x] if eqs else None
    b = -eqs[0]._f._constant if eqs else None
    return x, c, G, h, A, b, d

def dense_rows(Wd, Mx, ncols):
    if Mx is None: return []
    if isinstance(Mx, Wd.spmatrix): Mx = Mx._dense()
    m, n = Mx.size
    return [[Mx.v[i + j*m] for j in range(n)] for i in range(m)]

def job(cfg):
    import z3
    from vp.pysym import sym, prove
    Wd = _world()
    M = Wd.modeling
    ops = c11.Ops(True)
    tmo = int(cfg.get('_timeout_ms', 10000))
    res = {'n': 0, 'obl': {'total': 0, 'unsat': 0, 'sat': 0, 'unknown': 0}, 'solver_s': 0.0, 'sat': [], 'unknown': [], 'errors': [],
           'sample': None, 'skipped': 0}
    def count(v, secs=0.0):
        res['obl']['total'] += 1; res['obl'][v] += 1; res['solver_s'] += secs
    def fail(prob, label, model=None):
        count('sat'); res['sat'].append({'prob': prob, 'label': label, 'model': model or {}})
    for prob in cfg['probs']:
        res['n'] += 1
        key = json.dumps(prob)
        sym.CTX.reset_all(); sym.CTX.start_path([])
        ns = c11.real_namespace(Wd, {nm: [0.0]*n for nm, n in c11.VARS.items()})
        for nm in c11.VARS: ns[nm].value = None
        try:
            p, cons = build_real(Wd, ns, prob)
            t = p._inmatrixform(prob['format'])
        except NotImplementedError as e:
            res['errors'].append('%s: shim does not model: %s' % (key, e)); continue
        except Exception as e:
            fail(prob, 'building the problem / _inmatrixform raises %s: %s' % (type(e).__name__, str(e)[:80])); continue
        if t is None:
            res['skipped'] += 1; continue
        lp1, vmap, mmap = t
        try:
            xlp, c, G, h, A, b, d = lp_data(Wd, lp1, prob['format'])
        except Exception as e:
            fail(prob, 'matrix-form LP malformed: %s' % e); continue
        n_lp = len(xlp)
        X = [z3.Real('X%d' % i) for i in range(n_lp)]
        xlp.value = Wd.matrix([sym.SymReal(t_) for t_ in X], (n_lp, 1), 'd')
        # original variables as functions of X
        vvals = {}
        try:
            for nm in c11.VARS:
                v = ns[nm]
                if v in vmap:
                    vvals[nm] = [z3.simplify(sym.T(e)) for e in vmap[v].value()]
        except Exception as e:
            fail(prob, 'vmap evaluation raises %s' % e); continue
        # indices of X that are original variables
        pos = {}
        ok = True
        for nm, terms in vvals.items():
            for i, t_ in enumerate(terms):
                if not (z3.is_const(t_) and str(t_).startswith('X')): ok = False
                else: pos[int(str(t_)[1:])] = (nm, i)
        if not ok:
            fail(prob, 'vmap is not a selection of LP variables'); continue
        Grows, Arows = dense_rows(Wd, G, n_lp), dense_rows(Wd, A, n_lp)
        def lin(row): return z3.Sum([sym.T(row[j]) * X[j] for j in range(n_lp)]) if n_lp else z3.RealVal(0)
        lpfeas = [lin(Grows[i]) <= sym.T(h[i]) for i in range(len(Grows))] + [lin(Arows[i]) == sym.T(b[i]) for i in range(len(Arows))]
        cvec = [c[j] for j in range(n_lp)]
        lpobj = z3.Sum([sym.T(cvec[j]) * X[j] for j in range(n_lp)]) + (sym.T(d[0]) if len(d) else z3.RealVal(0))
        # reference problem at the point v(X); variables not in the problem get fresh free values
        refvals = {}
        for nm, n in c11.VARS.items():
            refvals[nm] = vvals.get(nm) or [z3.Real('free_%s%d' % (nm, i)) for i in range(n)]
        try:
            f0, rcons = ref_problem(ops, refvals, prob)
        except c11.Reject as e:
            res['errors'].append('%s: reference rejects the generated problem: %s' % (key, e)); continue
        def holds(rel, comps):
            if rel == '<=': return z3.And(*[e <= 0 for e in comps])
            if rel == '>=': return z3.And(*[e >= 0 for e in comps])
            return z3.And(*[e == 0 for e in comps])
        written = z3.And(*[holds(rel, comps) for rel, comps in rcons]) if rcons else z3.BoolVal(True)
        # (S) soundness
        r = prove.prove(z3.And(written, lpobj >= f0), lpfeas, (), tmo, slice_first=False)
        count(r['verdict'], r['secs'])
        if r['verdict'] == 'sat': res['sat'].append({'prob': prob, 'label': 'soundness: an LP-feasible point violates a written constraint or has LP cost < f0', 'model': r['model']})
        elif r['verdict'] == 'unknown': res['unknown'].append(key + ' [soundness]')
        # (C) completeness: forall x with written(x) exists t ...
        tvars = [X[i] for i in range(n_lp) if i not in pos]
        body = z3.And(*(lpfeas + [lpobj == f0]))
        ex = z3.Exists(tvars, body) if tvars else body
        s = z3.Solver(); s.set('timeout', tmo)
        s.add(written); s.add(z3.Not(ex))
        t0 = time.time(); rr = s.check(); dt = time.time() - t0
        if rr == z3.unsat: count('unsat', dt)
        elif rr == z3.sat:
            count('sat', dt); res['sat'].append({'prob': prob, 'label': 'completeness: a point satisfying the written constraints has no LP-feasible extension with cost f0', 'model': sym.model_to_dict(s.model())})
        else:
            count('unknown', dt); res['unknown'].append(key + ' [completeness]')
        # (B) back-substitution through the real op.solve with a stubbed LP solver
        try:
            back_substitution(Wd, prob, cfg, res, count, tmo)
        except NotImplementedError as e:
            res['errors'].append('%s: shim does not model (solve): %s' % (key, e))
        if res['sample'] is None:
            res['sample'] = {'problem': prob, 'lp_size': [len(Grows), len(Arows), n_lp], 'aux_variables': len(tvars)}
    return res

def back_substitution(Wd, prob, cfg, res, count, tmo):
    import z3
    from vp.pysym import sym, prove
    M = Wd.modeling
    ops = c11.Ops(True)
    for status in ('optimal', 'primal infeasible', 'dual infeasible', 'unknown'):
        sym.CTX.reset_all(); sym.CTX.start_path([])
        ns = c11.real_namespace(Wd, {nm: [0.0]*n for nm, n in c11.VARS.items()})
        for nm in c11.VARS: ns[nm].value = None
        p, cons = build_real(Wd, ns, prob)
        cap = {}
        def fake_lp(c, G, h, A=None, b=None, solver=None, **kw):
            n = len(c); m = G.size[0]; pe = A.size[0] if A is not None else 0
            cap['sizes'] = (n, m, pe)
            if status != 'optimal':
                return {'status': status, 'x': None, 's': None, 'y': None, 'z': None}
            Xs = [z3.Real('X%d' % i) for i in range(n)]; Zs = [z3.Real('Z%d' % i) for i in range(m)]; Ys = [z3.Real('Y%d' % i) for i in range(pe)]
            Gr, Ar = dense_rows(Wd, G, n), dense_rows(Wd, A, n)
            # assumed: the stub returns a primal-dual optimal pair of THIS LP (KKT)
            for i in range(m):
                sl = sym.T(h[i]) - z3.Sum([sym.T(Gr[i][j])*Xs[j] for j in range(n)])
                sym.CTX.assume(sl >= 0); sym.CTX.assume(Zs[i] >= 0); sym.CTX.assume(Zs[i]*sl == 0)
            for i in range(pe):
                sym.CTX.assume(z3.Sum([sym.T(Ar[i][j])*Xs[j] for j in range(n)]) == sym.T(b[i]))
            for j in range(n):
                sym.CTX.assume(sym.T(c[j]) + z3.Sum([sym.T(Gr[i][j])*Zs[i] for i in range(m)]) + z3.Sum([sym.T(Ar[i][j])*Ys[i] for i in range(pe)]) == 0)
            cap['lpobj'] = z3.Sum([sym.T(c[j])*Xs[j] for j in range(n)])
            mk = lambda L: Wd.matrix([sym.SymReal(t) for t in L], (len(L), 1), 'd') if L else Wd.matrix(0.0, (0, 1))
            return {'status': 'optimal', 'x': mk(Xs), 'z': mk(Zs), 'y': mk(Ys), 's': None}
        saved = M.solvers.lp
        M.solvers.lp = fake_lp
        try:
            try:
                p.solve(prob['format'])
            except NotImplementedError: raise
            except Exception as e:
                count('sat'); res['sat'].append({'prob': prob, 'label': 'op.solve raises %s: %s (status %s)' % (type(e).__name__, str(e)[:60], status), 'model': {}}); continue
        finally:
            M.solvers.lp = saved
        lab = None
        if p.status != status: lab = 'op.status is %r, the LP solver reported %r' % (p.status, status)
        if status != 'optimal':
            if lab is None:
                for nm in c11.VARS:
                    if ns[nm] in p.variables() and ns[nm].value is not None and status in ('primal infeasible', 'unknown') and False:
                        lab = 'variable value not None'
            if lab: count('sat'); res['sat'].append({'prob': prob, 'label': lab + ' [back-substitution]', 'model': {}})
            else: count('unsat')
            continue
        if lab: count('sat'); res['sat'].append({'prob': prob, 'label': lab, 'model': {}}); continue
        pc = list(sym.CTX.pc)
        # values of the original variables -> reference evaluation of the written problem
        refvals = {}
        used = set(id(v) for v in p.variables())
        bad = None
        for nm, n in c11.VARS.items():
            v = ns[nm]
            if id(v) in used:
                if v.value is None or len(v.value) != n: bad = 'variable %s has no value of length %d after an optimal solve' % (nm, n); break
                refvals[nm] = [sym.T(e) for e in v.value]
            else:
                refvals[nm] = [z3.Real('free_%s%d' % (nm, i)) for i in range(n)]
        if bad: count('sat'); res['sat'].append({'prob': prob, 'label': bad, 'model': {}}); continue
        f0, rcons = ref_problem(ops, refvals, prob)
        goals = []
        for (rel, comps), ci in zip(rcons, prob['cons']):
            for e in comps:
                goals.append(('written constraint %d holds at the returned values' % ci, (e <= 0) if rel == '<=' else ((e >= 0) if rel == '>=' else (e == 0))))
        ov = p.objective.value()
        goals.append(('objective.value() == f0(values)', sym.T(ov[0]) == f0))
        d0 = None
        goals.append(('objective.value() == optimal value of the LP', None))
        for cobj, ci in zip(cons, prob['cons']):
            mv = cobj.multiplier.value
            rel = CONSTRAINTS[ci][0]
            if mv is None or len(mv) != len(cobj):
                goals.append(('multiplier of constraint %d has the constraint\'s length' % ci, z3.BoolVal(False))); continue
            if rel != '==':
                goals.append(('multiplier of inequality %d is nonnegative' % ci, z3.And(*[sym.T(e) >= 0 for e in mv])))
        # LP value: objective of the matrix-form LP incl. constant = f0 at optimum (complementarity)
        t = p._inmatrixform(prob['format'])
        for label, g in goals:
            if g is None:
                # c'X + d == f0(values): needs optimality of the auxiliary variables (KKT assumed above)
                dconst = t[0].objective._constant if t is not None else p.objective._constant
                g = cap['lpobj'] + (sym.T(dconst[0]) if len(dconst) else 0) == f0
            r = prove.prove(g, pc, (), tmo, slice_first=False)
            count(r['verdict'], r['secs'])
            if r['verdict'] == 'sat': res['sat'].append({'prob': prob, 'label': label + ' [back-substitution]', 'model': r['model']})
            elif r['verdict'] == 'unknown': res['unknown'].append(json.dumps(prob) + ' [' + label + ']')

# ------------------------------------------------------------------------------------------ replay on the real build

def replay(prob, label, model):
    """Replays the solver's counterexample POINT on the real build (no reliance on a full solve):
    soundness     - the model's LP point X is checked against the real LP matrices and the
                    written problem (reference evaluator) at v(X);
    completeness  - the model's point V satisfies the written constraints; the real LP solver is
                    asked for the best auxiliary t with x fixed to V: infeasible or cost > f0;
    back-subst.   - the real op.solve runs with solvers.lp returning the model's (X, Z, Y)."""
    import fractions
    from vp.pysym import loader
    Wd = loader.load('conc', modules=('modeling',), transform_solvers=False)
    from cvxopt import solvers, matrix, sparse
    solvers.options['show_progress'] = False
    M = Wd.modeling
    ops = c11.Ops(False)
    def val(name, default=0.0):
        v = model.get(name)
        if v is None: return default
        try: return float(fractions.Fraction(v))
        except Exception: return float(v)
    ns = c11.real_namespace(Wd, {nm: [0.0]*n for nm, n in c11.VARS.items()})
    for nm in c11.VARS: ns[nm].value = None
    p, cons = build_real(Wd, ns, prob)
    def holds(rel, e, tol=1e-7): return (e <= tol) if rel == '<=' else ((e >= -tol) if rel == '>=' else abs(e) <= tol)
    if 'back-substitution' in label:
        def fake_lp(c, G, h, A=None, b=None, solver=None, **kw):
            n = len(c); m = G.size[0]; pe = A.size[0] if A is not None else 0
            mk = lambda pre, k: matrix([val('%s%d' % (pre, i)) for i in range(k)], (k, 1), 'd') if k else matrix(0.0, (0, 1))
            return {'status': 'optimal', 'x': mk('X', n), 'z': mk('Z', m), 'y': mk('Y', pe), 's': None}
        saved = M.solvers.lp; M.solvers.lp = fake_lp
        try: p.solve(prob['format'])
        except Exception as e: return {'violated': ['op.solve raises %s: %s' % (type(e).__name__, str(e)[:60])]}
        finally: M.solvers.lp = saved
        vals = {nm: (list(ns[nm].value) if ns[nm].value is not None else [val('free_%s%d' % (nm, i)) for i in range(n)]) for nm, n in c11.VARS.items()}
        f0, rcons = ref_problem(ops, vals, prob)
        out = []
        for (rel, comps), ci in zip(rcons, prob['cons']):
            for e in comps:
                if not holds(rel, e): out.append('written constraint %d violated at the back-substituted values by %.3g' % (ci, e))
        ov = p.objective.value()[0]
        if abs(ov - f0) > 1e-7*(1 + abs(f0)): out.append('objective.value() %.6g != f0(values) %.6g' % (ov, f0))
        for cobj, ci in zip(cons, prob['cons']):
            mv = cobj.multiplier.value
            if mv is None or len(mv) != len(cobj): out.append('multiplier of constraint %d has wrong length' % ci)
            elif CONSTRAINTS[ci][0] != '==' and min(mv) < -1e-9: out.append('negative multiplier for inequality %d' % ci)
        return {'violated': out}
    try: t = p._inmatrixform(prob['format'])
    except Exception as e: return {'violated': ['_inmatrixform raises %s: %s' % (type(e).__name__, str(e)[:60])]}
    lp1, vmap, mmap = t
    xlp, c, G, h, A, b, d = lp_data(Wd, lp1, prob['format'])
    n_lp = len(xlp)
    G = matrix(G) if G is not None else matrix(0.0, (0, n_lp)); A = matrix(A) if A is not None else matrix(0.0, (0, n_lp))
    h = h if h is not None else matrix(0.0, (0, 1)); b = b if b is not None else matrix(0.0, (0, 1))
    X = matrix([val('X%d' % i) for i in range(n_lp)], (n_lp, 1), 'd')
    xlp.value = X
    vals = {}
    pos = set()
    probe = matrix([float(i + 1) for i in range(n_lp)])
    for nm, n in c11.VARS.items():
        v = ns[nm]
        if v in vmap:
            vals[nm] = list(vmap[v].value())
            xlp.value = probe; pos |= set(int(round(e)) - 1 for e in vmap[v].value()); xlp.value = X
        else: vals[nm] = [val('free_%s%d' % (nm, i)) for i in range(n)]
    f0, rcons = ref_problem(ops, vals, prob)
    dconst = d[0] if len(d) else 0.0
    if label.startswith('soundness'):
        feas = all(e <= 1e-9 for e in (G*X - h)) and all(abs(e) <= 1e-9 for e in (A*X - b))
        out = []
        if feas:
            for (rel, comps), ci in zip(rcons, prob['cons']):
                for e in comps:
                    if not holds(rel, e): out.append('LP-feasible point violates written constraint %d by %.3g' % (ci, e))
            lpobj = sum(c[j]*X[j] for j in range(n_lp)) + dconst
            if lpobj < f0 - 1e-7*(1 + abs(f0)): out.append('LP cost %.6g < f0 %.6g at an LP-feasible point' % (lpobj, f0))
        return {'violated': out, 'lp_feasible': feas}
    # completeness
    ok_written = all(holds(rel, e, 1e-9) for rel, comps in rcons for e in comps)
    tidx = [i for i in range(n_lp) if i not in pos]
    xidx = sorted(pos)
    if not ok_written: return {'violated': [], 'note': 'model point does not satisfy the written constraints numerically'}
    hx = h - G[:, xidx]*X[xidx] if xidx else h
    bx = b - A[:, xidx]*X[xidx] if xidx else b
    cx = sum(c[j]*X[j] for j in xidx) + dconst
    if not tidx:
        feas = all(e <= 1e-9 for e in -hx) and all(abs(e) <= 1e-9 for e in bx)
        if not feas: return {'violated': ['the point satisfies the written constraints but is not LP-feasible']}
        if abs(cx - f0) > 1e-7*(1 + abs(f0)): return {'violated': ['LP cost %.6g != f0 %.6g' % (cx, f0)]}
        return {'violated': []}
    from cvxopt import glpk
    glpk.options['msg_lev'] = 'GLP_MSG_OFF'
    try:
        st, tt, zz, yy = glpk.lp(c[tidx], sparse(G[:, tidx]), hx, sparse(A[:, tidx]), bx)
    except Exception as e:
        return {'violated': [], 'note': 'glpk raised %s' % e}
    if st in ('primal infeasible',): return {'violated': ['the point satisfies the written constraints but has no LP-feasible extension']}
    if st == 'optimal':
        best = sum(c[tidx[k]]*tt[k] for k in range(len(tidx))) + cx
        if best > f0 + 1e-6*(1 + abs(f0)): return {'violated': ['smallest LP cost over the auxiliary variables %.6g > f0 %.6g' % (best, f0)]}
    return {'violated': [], 'note': 'glpk status %s' % st}

def replay_on_build(path):
    from vp import common
    r = common.run_conc(['-m', 'vp.checks.c12', '--replay-conc', path], timeout=900)
    if r.returncode != 0: return None, 'replay process failed: ' + r.stderr[-300:]
    try: d = json.loads(r.stdout.strip().splitlines()[-1])
    except Exception: return None, 'unparsable replay output'
    if d.get('violated'): return json.dumps(d)[:300], None
    return None, 'not reproduced (status %s)' % d.get('status')

def replay_main(path):
    rep, why = replay_on_build(path)
    if rep: print('REPRODUCED on the real build: %s' % rep); return 1
    print(why); return 0

def classify(s):
    lab = s['label']
    cons = s['prob']['cons']
    return re.sub(r'\d+', '#', lab.split('[')[0].strip())[:70]

def main(tier):
    from vp import common
    from vp.pysym import loader
    ev = common.Evidence('C12', 'translation_validation', tier)
    probs = gen_problems(tier)
    nb = 48
    cfgs = [{'probs': probs[i::nb], '_timeout_ms': 10000 if tier == 'quick' else 60000} for i in range(nb) if probs[i::nb]]
    results = common.run_jobs('vp.checks.c12', 'job', cfgs)
    known = common.known_findings('C12')
    violations, known_hits, herr, inconc = [], [], [], []
    sats = []; skipped = 0
    for r in results:
        if not r['ok']: herr.append(r['err']); continue
        res = r['res']
        for key in ('total', 'unsat', 'sat', 'unknown'): ev.obl[key] += res['obl'][key]
        ev.solver_s += res['solver_s']; skipped += res['skipped']
        if res['sample']: ev.sample(res['sample'], cap=6)
        herr += res['errors']; inconc += res['unknown']; sats += res['sat']
    sats.sort(key=lambda s: len(json.dumps(s['prob'])))
    groups = {}
    for s in sats: groups.setdefault(classify(s), []).append(s)
    for gkey, items in sorted(groups.items()):
        rep = None
        for s in items[:6]:
            rp = common.write_replay('C12', json.dumps(s['prob']) + s['label'], {'property': 'C12', 'prob': s['prob'], 'label': s['label'], 'model': s['model'], 'group_size': len(items)})
            rep, why = replay_on_build(rp)
            if rep: break
        if rep is None:
            herr.append('%s: counterexample "%s" %s (%s)' % (json.dumps(items[0]['prob']), items[0]['label'], why, rp))
        elif gkey in known: known_hits.append((gkey, known[gkey]['what']))
        else: violations.append((gkey, rp, '%d problems, e.g. %s: %s -> %s' % (len(items), json.dumps(s['prob']), s['label'], rep)))
    ev.extra['counterexample_groups'] = {k: len(v) for k, v in groups.items()}
    ev.cov.update({'programs': len(probs), 'disagreements_checked': len(sats), 'already_matrix_form_skipped': skipped,
                   'functions_encoded': ['modeling.op.__init__', 'constraint._aslinearineq', 'op._inmatrixform', 'op.solve (with solvers.lp stubbed by an arbitrary KKT pair)'],
                   'source_hash': loader.src_hash(['modeling']),
                   'bounds': '%d problems: %d objectives x subsets of %d constraints (singletons, pairs, triples, quadruples), formats dense and sparse; variables x(3), y(1), z(3); constants concrete, points symbolic' % (len(probs), len(OBJECTIVES), len(CONSTRAINTS))})
    ev.assumptions += ['the stubbed LP solver returns an arbitrary primal-dual pair satisfying the KKT conditions of the LP it is given (agreement of the real GLPK / native solvers is numeric and not claimed)',
                       '"multipliers form a dual solution of the piecewise-linear program" is decided only as: right length, nonnegative, and LP value == f0; the subdifferential form is not encoded',
                       'constants concrete; the matrix shim is a model (counterexamples are replayed with the real solver on the real build)']
    return common.finish(ev, violations, sorted(dict(known_hits).items()), herr, inconc)

if __name__ == '__main__':
    if len(sys.argv) >= 3 and sys.argv[1] == '--replay-conc':
        dd = json.load(open(sys.argv[2]))
        print(json.dumps(replay(dd['prob'], dd['label'], dd.get('model') or {})))
