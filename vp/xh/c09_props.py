"""C09 conditions for CrossHair (engine X) on the REAL build: option handling of every solver
entry point.  The symbolic quantity (an option value) flows through the real validation code,
the real `for iters in range(MAXITERS+1)` loop and the real termination tests; the numerics
run concretely in C on one tiny fixed problem per entry point."""
import copy

def _problems():
    from cvxopt import matrix, solvers, log, div, spdiag
    from cvxopt.modeling import variable, op
    P = {}
    c = matrix([-4., -5.]); G = matrix([[2., 1., -1., 0.], [1., 2., 0., -1.]]); h = matrix([3., 3., 0., 0.])
    P['conelp'] = lambda **kw: solvers.conelp(c, G, h, **kw)
    P['lp'] = lambda **kw: solvers.lp(c, G, h, **kw)
    Q = 2*matrix([[2., .5], [.5, 1.]]); q = matrix([1., 1.]); Gq = matrix([[-1., 0.], [0., -1.]]); hq = matrix([0., 0.])
    A = matrix([1., 1.], (1, 2)); b = matrix(1.0)
    P['coneqp'] = lambda **kw: solvers.coneqp(Q, q, Gq, hq, None, A, b, **kw)
    P['qp'] = lambda **kw: solvers.qp(Q, q, Gq, hq, A, b, **kw)
    cs = matrix([-2., 1., 5.])
    Gs = [matrix([[12., 13., 12.], [6., -3., -12.], [-5., -5., 6.]]),
          matrix([[3., 3., -1., 1.], [-6., -6., -9., 19.], [10., -2., -2., -3.]])]
    hs = [matrix([-12., -3., -2.]), matrix([27., 0., 3., -42.])]
    P['socp'] = lambda **kw: solvers.socp(cs, Gq=Gs, hq=hs, **kw)
    cd = matrix([1., -1., 1.])
    Gd = [matrix([[-7., -11., -11., 3.], [7., -18., -18., 8.], [-2., -8., -8., 1.]])]
    hd = [matrix([[33., -9.], [-9., 26.]])]
    P['sdp'] = lambda **kw: solvers.sdp(cd, Gs=Gd, hs=hd, **kw)
    # analytic centering: minimize -sum log x  s.t. A x = b   (cp and cpl forms)
    Ac = matrix([[1., 1.], [1., 2.], [1., 3.]]).T if False else matrix([[1., 2.], [1., 1.], [1., 0.5]]); bc = matrix([3., 3.5])
    def F(x=None, z=None):
        m, n = Ac.size
        if x is None: return 0, matrix(1.0, (n, 1))
        if min(x) <= 0.0: return None
        f = -sum(log(x)); Df = -(x**-1).T
        if z is None: return f, Df
        H = spdiag(z[0] * x**-2)
        return f, Df, H
    def counted(Fun, call):
        def run(**kw):
            cnt = [0]
            def Fc(x=None, z=None):
                if z is not None: cnt[0] += 1
                return Fun(x, z) if x is not None else Fun()
            sol = call(Fc, **kw)
            sol = dict(sol); sol['iterations'] = cnt[0] // 2      # F(x,z) is evaluated twice per iteration (+ once at the end)
            return sol
        return run
    P['cp'] = counted(F, lambda Fc, **kw: solvers.cp(Fc, A=Ac, b=bc, **kw))
    # cpl: minimize c'x s.t. f(x)= -log(x0)-log(x1)-log(x2) - 0.1 <= 0 ... use a simple convex constraint
    cl = matrix([1., 1., 1.])
    def Fl(x=None, z=None):
        if x is None: return 1, matrix(1.0, (3, 1))
        if min(x) <= 0.0: return None
        f = matrix(-sum(log(x)) - 1.0); Df = -(x**-1).T
        if z is None: return f, Df
        H = spdiag(z[0] * x**-2)
        return f, Df, H
    P['cpl'] = counted(Fl, lambda Fc, **kw: solvers.cpl(cl, Fc, **kw))
    # gp:  minimize x0^-1 x1^-1  s.t.  x0 + x1 <= 1   (log variables)
    Fg = matrix([[-1., 1., 0.], [-1., 0., 1.]]); gg = log(matrix([1.0, 1.0, 1.0])); K = [1, 2]
    P['gp'] = lambda **kw: solvers.gp(K, Fg, gg, **kw)
    def opsolve(**kw):
        x = variable(2)
        p = op(-4*x[0] - 5*x[1], [2*x[0] + x[1] <= 3, x[0] + 2*x[1] <= 3, x >= 0])
        p.solve(**kw)
        return {'status': p.status, 'iterations': None, 'x': x.value}
    P['op.solve'] = opsolve
    return P

ENTRY = ['conelp', 'lp', 'coneqp', 'qp', 'socp', 'sdp', 'cp', 'cpl', 'gp', 'op.solve']

def _call(entry, opts, use_global=None):
    """returns ('raises', type) or ('ok', status, iterations); checks the options dicts are not modified"""
    from cvxopt import solvers
    P = _problems()
    saved = dict(solvers.options)
    try:
        solvers.options.clear(); solvers.options['show_progress'] = False
        if use_global: solvers.options.update(use_global)
        g_before = dict(solvers.options)
        kw = {}
        o_before = None
        if opts is not None:
            kw['options'] = opts; o_before = dict(opts)
        try:
            sol = P[entry](**kw)
        except ValueError as e:
            res = ('raises', 'ValueError')
        else:
            res = ('ok', sol['status'], sol.get('iterations'))
        if dict(solvers.options) != g_before: return ('modified-global',)
        if opts is not None and dict(opts) != o_before: return ('modified-options',)
        return res
    finally:
        solvers.options.clear(); solvers.options.update(saved)

def maxiters_percall(entry, m):
    """per-call options={'maxiters': m}: ValueError iff m < 1, else at most m iterations and
    'optimal' or the budget exhausted"""
    r = _call(entry, {'maxiters': m, 'show_progress': False})
    if m < 1: return r == ('raises', 'ValueError')
    if r[0] != 'ok': return False
    if r[2] is None: return r[1] in ('optimal', 'unknown')      # op.solve does not expose iterations
    return r[2] <= m and (r[1] == 'optimal' or (r[1] == 'unknown' and r[2] == m))

def maxiters_global(entry, m):
    r = _call(entry, None, {'maxiters': m})
    if m < 1: return r == ('raises', 'ValueError')
    if r[0] != 'ok': return False
    if r[2] is None: return r[1] in ('optimal', 'unknown')
    return r[2] <= m and (r[1] == 'optimal' or (r[1] == 'unknown' and r[2] == m))

def override(entry, g, m):
    """global maxiters g, per-call maxiters m: the per-call value governs"""
    r = _call(entry, {'maxiters': m, 'show_progress': False}, {'maxiters': g})
    ref = _call(entry, {'maxiters': m, 'show_progress': False})
    return r == ref

def bad_type(entry, kind):
    vals = {0: 2.0, 1: '3', 2: None, 3: [2]}
    v = vals[kind]
    r = _call(entry, {'maxiters': v, 'show_progress': False})
    if v is None:
        return r[0] in ('ok', 'raises')     # None is not documented either way
    return r == ('raises', 'ValueError')

def feastol_validation(entry, f):
    """feastol must be a positive scalar"""
    r = _call(entry, {'feastol': f, 'show_progress': False, 'maxiters': 1})
    if f <= 0.0: return r == ('raises', 'ValueError')
    return r[0] == 'ok'

def refinement_validation(entry, k):
    r = _call(entry, {'refinement': k, 'show_progress': False, 'maxiters': 2})
    if k < 0: return r == ('raises', 'ValueError')
    return r[0] == 'ok'

def inputs_unchanged(entry):
    """byte images of the input matrices before/after a default solve"""
    from cvxopt import matrix, solvers
    import pickle
    c = matrix([-4., -5.]); G = matrix([[2., 1., -1., 0.], [1., 2., 0., -1.]]); h = matrix([3., 3., 0., 0.])
    ps = {'x': matrix([0.5, 0.5]), 's': matrix([1., 1., 1., 1.])}; ds = {'z': matrix([1., 1., 1., 1.])}
    dims = {'l': 4, 'q': [], 's': []}
    before = pickle.dumps((c, G, h, ps, ds, dims))
    solvers.conelp(c, G, h, dims, primalstart=ps, dualstart=ds, options={'show_progress': False})
    return pickle.dumps((c, G, h, ps, ds, dims)) == before

# ---------------------------------------------------------------------------- C06 (i): kktsolver names
ALLOWED = {'conelp': ('ldl', 'ldl2', 'qr', 'chol', 'chol2'), 'lp': ('ldl', 'ldl2', 'qr', 'chol', 'chol2'),
           'socp': ('ldl', 'ldl2', 'qr', 'chol', 'chol2'), 'sdp': ('ldl', 'ldl2', 'qr', 'chol', 'chol2'),
           'coneqp': ('ldl', 'ldl2', 'chol', 'chol2'), 'qp': ('ldl', 'ldl2', 'chol', 'chol2'),
           'cp': ('ldl', 'ldl2', 'chol', 'chol2'), 'cpl': ('ldl', 'ldl2', 'chol', 'chol2'), 'gp': ('ldl', 'ldl2', 'chol', 'chol2')}

def kkt_name(entry, name):
    """a kktsolver name outside the documented set of the entry point is rejected with
    ValueError before any KKT factory is built; a documented name solves the tiny problem"""
    from cvxopt import solvers, misc
    try:
        from crosshair.tracers import NoTracing
        with NoTracing(): P = _problems()      # only the call below is traced (symbolic name)
    except ImportError:
        P = _problems()
    built = []
    saved = {}
    for f in ('kkt_ldl', 'kkt_ldl2', 'kkt_qr', 'kkt_chol', 'kkt_chol2'):
        saved[f] = getattr(misc, f)
        def wrap(orig, nm=f):
            def g(*a, **k):
                built.append(nm); return orig(*a, **k)
            return g
        setattr(misc, f, wrap(saved[f]))
    try:
        try:
            sol = P[entry](kktsolver=name, options={'show_progress': False})
        except ValueError as e:
            return (name not in ALLOWED[entry]) and not built and 'kktsolver' in str(e)
        return name in ALLOWED[entry] and sol['status'] == 'optimal'
    finally:
        for f, o in saved.items(): setattr(misc, f, o)
