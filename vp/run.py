#!/usr/bin/env python3
"""Entry point: python3-vt vp/run.py <Cxx> [--tier quick|thorough]   (cwd = /verif)"""
import sys, os, importlib, argparse
sys.path.insert(0, os.path.dirname(os.path.dirname(os.path.abspath(__file__))))

def main():
    ap = argparse.ArgumentParser()
    ap.add_argument('prop')
    ap.add_argument('--tier', default=None)
    ap.add_argument('--replay', default=None)
    a = ap.parse_args()
    tier = a.tier or os.environ.get('VERIF_TIER') or 'quick'
    if tier not in ('quick', 'thorough'): tier = 'quick'
    mod = importlib.import_module('vp.checks.' + a.prop.lower())
    if a.replay:
        sys.exit(mod.replay_main(a.replay))
    try:
        rc = mod.main(tier)
    except Exception as e:
        import traceback; traceback.print_exc()
        print('HARNESS-ERROR: %s: %s' % (type(e).__name__, e), file=sys.stderr)
        rc = 3
    sys.exit(rc)

if __name__ == '__main__':
    main()
