"""C13 - an op object stays consistent under any sequence of edits.

Engine X: CrossHair (z3-driven path exploration) on the REAL build of /repo.  The symbolic
input of every condition is one integer encoding (constructor state, edit argument); CrossHair
explores every feasible value ("Confirmed over all paths") and the real cvxopt.modeling code
runs natively on each.  Inductive step: from every constructor-built op (objective from a pool
of 3, ordered sets of <= 2 constraints from a pool of 6) one edit (addconstraint /
delconstraint of a present or absent constraint / objective reassignment) must leave the
complete bookkeeping equal to that of a FRESH op with the resulting objective/constraints -
which covers edit histories of any length.  Plus: returned lists are copies; bounded
histories of 2 (quick) / 3 (thorough) edits followed by solve() agree with the fresh op.
"""
import json, os, re, subprocess, sys, tempfile, shutil, time, concurrent.futures

TEMPLATE = '''
from vp.xh.c13_props import concretely, step_ok, _copies, _history, NCONS
STATES = [[]] + [[i] for i in range(NCONS)] + [[i, j] for i in range(NCONS) for j in range(NCONS) if i != j]
def decode(code, nargs):
    return STATES[code // nargs], code % nargs
def run_step(code, kind, obj, nargs):
    cons, arg = decode(code, nargs)
    return step_ok(obj, list(cons), kind, arg)
def run_copies(code):
    return _copies(code % 3, list(STATES[code // 3]))
def run_history(code, obj, nedits):
    ed = []
    for _ in range(nedits):
        e = code % 15; code //= 15
        ed.append((0, e) if e < 6 else ((1, e - 6) if e < 12 else (2, e - 12)))
    while len(ed) < 3: ed.append((1, 5) if False else (2, obj))
    return _history(obj, ed[0][0], ed[0][1], ed[1][0], ed[1][1], ed[2][0], ed[2][1])
'''

def gen_conditions(tier):
    """returns (source text, list of (name, description))"""
    nstates = 1 + 6 + 30
    src = [TEMPLATE]; names = []
    for kind, kname, nargs in ((0, 'add', 6), (1, 'del', 6), (2, 'setobj', 3)):
        for obj in range(3):
            nm = 'step_%s_obj%d' % (kname, obj)
            src.append('''
def %s(code: int) -> bool:
    """
    pre: 0 <= code < %d
    post: _
    """
    return concretely(run_step, code, %d, %d, %d)
''' % (nm, nstates*nargs, kind, obj, nargs))
            names.append((nm, 'one %s edit from every constructor state with objective %d == fresh op' % (kname, obj), nstates*nargs))
    src.append('''
def copies(code: int) -> bool:
    """
    pre: 0 <= code < %d
    post: _
    """
    return concretely(run_copies, code)
''' % (nstates*3))
    names.append(('copies', 'variables()/constraints()/inequalities()/equalities() return copies', nstates*3))
    nedits = 2 if tier == 'quick' else 3
    for obj in range(3):
        nm = 'history_obj%d' % obj
        src.append('''
def %s(code: int) -> bool:
    """
    pre: 0 <= code < %d
    post: _
    """
    return concretely(run_history, code, %d, %d)
''' % (nm, 15**nedits, obj, nedits))
        names.append((nm, 'every sequence of %d edits from op(obj %d,[c0,c2]) then solve(): bookkeeping, status and optimal value equal the fresh op' % (nedits, obj), 15**nedits))
    src.append('''
def twin_reach(code: int) -> bool:
    """
    pre: 0 <= code < 222
    post: _
    """
    concretely(run_step, code, 1, 0, 6)
    return False
''')
    names.append(('twin_reach', 'reachability twin (must be refuted)', 222))
    return '\n'.join(src), names

def ensure_xh():
    from vp import common
    site = os.path.join(common.VERIF, '.cache', 'xh-site')
    if not os.path.isdir(os.path.join(site, 'crosshair')):
        os.makedirs(site, exist_ok=True)
        r = subprocess.run([common.VENV_PY, '-m', 'pip', 'install', '-q', '--no-index', '--find-links', '/opt/veriftools/wheels',
                            '--target', site, 'crosshair-tool'], capture_output=True, text=True)
        if r.returncode != 0: raise common.HarnessError('cannot install crosshair-tool offline: ' + r.stderr[-500:])
    return site

def run_condition(args):
    pyfile, name, line, timeout, env = args
    t0 = time.time()
    try:
        r = subprocess.run(['/venv/bin/python', os.path.join(os.path.dirname(os.path.dirname(os.path.abspath(__file__))), 'xh', 'chrun.py'),
                            'check', '--report_all', '--per_condition_timeout', str(timeout), '%s:%d' % (pyfile, line)],
                           capture_output=True, text=True, timeout=timeout + 120, env=env)
        out = r.stdout + r.stderr
    except subprocess.TimeoutExpired:
        out = 'TIMEOUT'
    return name, out, time.time() - t0

def call_native(pyfile, fn, code, env):
    """run condition `fn(code)` natively on the real build; returns True/False/'EXC ...'"""
    prog = ("import sys, importlib.util; spec=importlib.util.spec_from_file_location('c13gen', %r); m=importlib.util.module_from_spec(spec); "
            "spec.loader.exec_module(m)\ntry:\n    print('RESULT', m.%s(%d))\nexcept Exception as e:\n    print('RESULT EXC', type(e).__name__, e)\n" % (pyfile, fn, code))
    r = subprocess.run(['/venv/bin/python', '-c', prog], capture_output=True, text=True, timeout=300, env=env)
    for ln in r.stdout.splitlines():
        if ln.startswith('RESULT'): return ln[7:].strip()
    return 'EXC (no result) ' + r.stderr[-200:]

def describe(name, code):
    NC = 6
    states = [[]] + [[i] for i in range(NC)] + [[i, j] for i in range(NC) for j in range(NC) if i != j]
    m = re.match(r'step_(add|del|setobj)_obj(\d)', name)
    if m:
        nargs = 3 if m.group(1) == 'setobj' else 6
        return 'op(objective %s, constraints %s).%s(%d)' % (m.group(2), states[code // nargs],
                {'add': 'addconstraint', 'del': 'delconstraint', 'setobj': 'objective='}[m.group(1)], code % nargs)
    return '%s(code=%d)' % (name, code)

def main(tier):
    from vp import common
    ev = common.Evidence('C13', 'model_checking', tier)
    site = ensure_xh()
    ov = common.overlay()
    work = tempfile.mkdtemp(prefix='vp.c13.', dir='/var/tmp')
    try:
        src, names = gen_conditions(tier)
        pyfile = os.path.join(work, 'c13gen.py')
        open(pyfile, 'w').write(src)
        lines = {}
        for i, ln in enumerate(src.splitlines(), 1):
            m = re.match(r'def (\w+)\(code: int\)', ln)
            if m: lines[m.group(1)] = i + 1
        env = dict(os.environ); env['PYTHONPATH'] = os.pathsep.join([ov, site, common.VERIF]); env['OMP_NUM_THREADS'] = '1'
        env['OPENBLAS_NUM_THREADS'] = '1'
        tmo = 240 if tier == 'quick' else 5400
        jobs = [(pyfile, nm, lines[nm], tmo, env) for nm, _, _ in names]
        results = {}
        with concurrent.futures.ThreadPoolExecutor(max_workers=16) as ex:
            for nm, out, dt in ex.map(run_condition, jobs):
                results[nm] = (out, dt)
        known = common.known_findings('C13')
        violations, known_hits, herr, inconc = [], [], [], []
        total_paths = 0
        for nm, desc, size in names:
            out, dt = results[nm]
            ev.solver_s += dt
            if nm == 'twin_reach':
                if 'error: false when calling' in out: ev.add_obl('unsat')      # twin refuted as required
                else: herr.append('reachability twin not refuted: %s' % out[-200:])
                continue
            if 'Confirmed over all paths' in out:
                ev.add_obl('unsat'); total_paths += size
                ev.sample({'condition': nm, 'what': desc, 'crosshair': 'Confirmed over all paths', 'domain_size': size, 'seconds': round(dt, 1)})
                continue
            m = re.search(r'error: (.*?) when calling (\w+)\((?:code\s*=\s*)?(-?\d+)\)', out)
            if m:
                code = int(m.group(3))
                native = call_native(pyfile, nm, code, env)
                what = describe(nm, code)
                ev.add_obl('sat')
                key = nm.rsplit('_obj', 1)[0]
                rp = common.write_replay('C13', nm + str(code), {'property': 'C13', 'condition': nm, 'code': code, 'what': what,
                                                                 'crosshair': m.group(1), 'native_result': native})
                if native == 'True':
                    herr.append('%s: CrossHair counterexample %s does not reproduce natively' % (nm, what))
                elif key in known: known_hits.append((key, known[key]['what']))
                else: violations.append((key, rp, '%s: %s -> %s (%s)' % (nm, what, native, m.group(1))))
                continue
            ev.add_obl('unknown')
            inconc.append('%s: %s' % (nm, (out.strip().splitlines() or ['no output'])[-1][:200]))
        ev.cov.update({'states': max(1, total_paths), 'transitions': max(1, ev.obl['total']), 'traces_validated_against_impl': total_paths,
                       'conditions': [n for n, _, _ in names],
                       'functions_encoded': ['modeling.op.__init__', 'op.__setattr__(objective)', 'op.addconstraint', 'op.delconstraint',
                                             'op.variables/constraints/inequalities/equalities', 'op.solve (histories)'],
                       'bounds': 'pool: 4 variables, 6 constraints, 3 objectives; constructor states with <= 2 constraints (37 per objective); one edit (inductive step) and histories of %d edits from one base state; CrossHair per-condition timeout %d s' % (2 if tier == 'quick' else 3, tmo)})
        ev.assumptions += ['the symbolic input is realised by CrossHair path by path (finite domain, every value explored); the cvxopt code itself runs natively on the real build',
                           'inductive argument: bookkeeping equality with a fresh op after one edit from every constructor state implies it after any edit history (states with more than 2 constraints are outside the explored bound)']
        # dedupe violations by key
        seen = {}; v2 = []
        for k_, rp, t_ in violations:
            if k_ in seen: continue
            seen[k_] = 1; v2.append((k_, rp, t_))
        kh = sorted(dict(known_hits).items())
        return common.finish(ev, v2, kh, herr, inconc)
    finally:
        shutil.rmtree(work, True)

def replay_main(path):
    d = json.load(open(path))
    print('replay: %s -> native result recorded: %s' % (d.get('what'), d.get('native_result')))
    from vp import common
    site = ensure_xh(); ov = common.overlay()
    work = tempfile.mkdtemp(prefix='vp.c13.', dir='/var/tmp')
    try:
        src, names = gen_conditions('thorough' if d['condition'].startswith('history') and d['code'] >= 225 else 'quick')
        pyfile = os.path.join(work, 'c13gen.py'); open(pyfile, 'w').write(src)
        env = dict(os.environ); env['PYTHONPATH'] = os.pathsep.join([ov, site, common.VERIF])
        res = call_native(pyfile, d['condition'], d['code'], env)
        print('now:', res)
        return 0 if res == 'True' else 1
    finally:
        shutil.rmtree(work, True)
