"""C01 / C02 - the statuses returned by conelp are checkable certificates.

Engine P: the real conelp source is executed from the loop head of an arbitrary iteration k
with an arbitrary iterate (havoc; invariants I1-I3 assumed), all problem data, tolerances
and the iterate symbolic.  For every path that returns, z3 decides the documented
conditions on the RETURNED vectors against the CALLER'S data (staged: linking lemmas, then
an abstract implication).  Counterexamples are replayed on the real build.
"""
import json, sys, os, time, re

DIMS_QUICK = [
    {'l': 1, 'q': [], 's': []}, {'l': 2, 'q': [], 's': []}, {'l': 0, 'q': [2], 's': []},
    {'l': 0, 'q': [1], 's': []}, {'l': 0, 'q': [], 's': [1]}, {'l': 0, 'q': [], 's': [2]},
    {'l': 1, 'q': [2], 's': []}, {'l': 0, 'q': [], 's': [2, 2]}, {'l': 1, 'q': [], 's': [0]},
]
DIMS_THOROUGH = DIMS_QUICK + [
    {'l': 0, 'q': [3], 's': []}, {'l': 1, 'q': [], 's': [2]}, {'l': 1, 'q': [1, 2], 's': [2, 2]}, {'l': 0, 'q': [], 's': [2, 1]},
    {'l': 2, 'q': [2], 's': [1, 2]},
]

def configs(tier):
    out = []
    box = DIMS_QUICK if tier == 'quick' else DIMS_THOROUGH
    for d in box:
        for (n, p) in ((1, 0), (2, 1)) if tier == 'quick' else ((1, 0), (2, 1), (2, 0), (3, 1)):
            for sparse in (False, True):
                if sparse and not (n == 2 and p == 1): continue
                out.append({'solver': 'conelp', 'dims': d, 'n': n, 'p': p, 'sparse': sparse, 'kclass': 'lt'})
    # iteration budget exhausted (k == maxiters): 'unknown' with consistent fields, iterations <= maxiters
    for d in box[:3] if tier == 'quick' else box:
        out.append({'solver': 'conelp', 'dims': d, 'n': 2, 'p': 1, 'sparse': False, 'kclass': 'ge'})
    return out

# ---------------------------------------------------------------------------------- claims

def claims(A, cfg, d, sol, nm, opts, k, maxiters):
    """Documented conditions for the returned status, over oracle residuals `res`
    (dict from conelp_h.oracle_residuals, or abstract stand-ins) and returned fields.
    Returns list of (prop, label, predicate, group) with group in {'direct','abstract'}."""
    from vp.checks import conelp_h as H
    from vp.oracles import cone as O
    dims, n, p = cfg['dims'], cfg['n'], cfg['p']
    num = A.num
    st = sol['status']
    zero, one = A.const(0), A.const(1)
    lw = H.lower_weights(dims)
    out = []
    def fld(name):
        v = sol[name]
        return None if v is None else num(v)
    def vec(name): return H.vec_of(A, sol[name])
    def sumsq(v, weights=None):
        if weights is None: return O._sum((e*e for e in v), zero)
        return O._sum((w*v[i]*v[i] for i, w in weights), zero)
    x, y, s, z = vec('x'), vec('y'), vec('s'), vec('z')
    def sdotL(u, v): return O._sum((w*u[i]*v[i] for i, w in lw), zero)
    def symmetric(v):
        cs = []
        for (stt, m) in O.layout(dims, 0)[2]:
            for j in range(m):
                for i in range(j + 1, m): cs.append(A.eq(v[stt + i + j*m], v[stt + j + i*m]))
        return A.and_(*cs)
    def none(name): return sol[name] is None
    it = sol['iterations']
    out.append(('C01', 'iterations==k', A.eq(num(it), num(k)), 'direct'))
    out.append(('C01', 'iterations<=maxiters', A.le(num(it), num(maxiters)), 'direct'))

    if st in ('optimal', 'unknown'):
        pc_ = O._sum((d['c'][j]*x[j] for j in range(n)), zero)
        dc_ = -sdotL(d['h'], z) - O._sum((d['b'][i]*y[i] for i in range(p)), zero)
        gap_ = sdotL(s, z)
        P2 = A.max(nm['Ry'] / H.max1(A, nm['b2']), nm['Rz'] / H.max1(A, nm['h2']))
        D2 = nm['Rx'] / H.max1(A, nm['c2'])
        Fp, Fd = fld('primal infeasibility'), fld('dual infeasibility')
        tag = 'C01' if st == 'optimal' else 'C10'
        out.append((tag, "%s: 'primal infeasibility' == recomputed" % st, A.and_(A.ge(Fp, zero), A.eq(Fp*Fp, P2)), 'abstract'))
        out.append((tag, "%s: 'dual infeasibility' == recomputed" % st, A.and_(A.ge(Fd, zero), A.eq(Fd*Fd, D2)), 'abstract'))
        out.append((tag, "%s: 'primal objective' == c'x" % st, A.eq(fld('primal objective'), pc_), 'direct'))
        out.append((tag, "%s: 'dual objective' == -h'z-b'y" % st, A.eq(fld('dual objective'), dc_), 'direct'))
        out.append((tag, "%s: 'gap' == s'z" % st, A.eq(fld('gap'), gap_), 'direct'))
        rg = sol['relative gap']
        if rg is None:
            out.append((tag, "%s: 'relative gap' None only if pcost>=0 and dcost<=0" % st, A.and_(A.ge(pc_, zero), A.le(dc_, zero)), 'direct'))
        else:
            out.append((tag, "%s: 'relative gap' == recomputed" % st,
                        A.or_(A.and_(A.lt(pc_, zero), A.eq(num(rg)*(-pc_), gap_)),
                              A.and_(A.ge(pc_, zero), A.gt(dc_, zero), A.eq(num(rg)*dc_, gap_))), 'direct'))
        out.append((tag, "%s: 'primal slack' == -max_step(s)" % st, A.eq(fld('primal slack'), -O.max_step(A, s, dims, 0)), 'direct'))
        out.append((tag, "%s: 'dual slack' == -max_step(z)" % st, A.eq(fld('dual slack'), -O.max_step(A, z, dims, 0)), 'direct'))
        out.append((tag, "%s: s symmetric" % st, symmetric(s), 'direct'))
        out.append((tag, "%s: z symmetric" % st, symmetric(z), 'direct'))
        out.append((tag, "%s: s in cone" % st, O.in_cone(A, s, dims, 0), 'direct'))
        out.append((tag, "%s: z in cone" % st, O.in_cone(A, z, dims, 0), 'direct'))
        if st == 'optimal':
            ft = opts['feastol']
            # with the two field obligations above (field = sqrt of the recomputed squared relative
            # residual) these give  ||residual|| / max(1,||data||) <= feastol  on the returned vectors
            out.append(('C01', 'optimal: primal residual <= feastol (relative)', A.le(Fp, ft), 'direct'))
            out.append(('C01', 'optimal: dual residual <= feastol (relative)', A.le(Fd, ft), 'direct'))
            out.append(('C01', 'optimal: gap<=abstol or relgap<=reltol',
                        A.or_(A.le(gap_, opts['abstol']),
                              A.and_(A.lt(pc_, zero), A.le(gap_, opts['reltol']*(-pc_))),
                              A.and_(A.ge(pc_, zero), A.gt(dc_, zero), A.le(gap_, opts['reltol']*dc_))), 'direct'))
            out.append(('C01', 'optimal: certificate fields None', A.true() if none('residual as primal infeasibility certificate') and none('residual as dual infeasibility certificate') else A.not_(A.true()), 'direct'))
            out.append(('C01', 'optimal: iterations<maxiters', A.lt(num(it), num(maxiters)), 'direct'))
        else:
            out.append(('C10', 'unknown(maxiters): iterations==maxiters', A.eq(num(it), num(maxiters)), 'direct'))
    elif st == 'primal infeasible':
        ok_none = none('x') and none('s') and none('gap') and none('relative gap') and none('primal objective') and \
            none('primal infeasibility') and none('dual infeasibility') and none('primal slack') and \
            none('residual as dual infeasibility certificate')
        out.append(('C02', 'primal infeasible: x, s and primal fields are None', A.true() if ok_none else A.not_(A.true()), 'direct'))
        hzby = sdotL(d['h'], z) + O._sum((d['b'][i]*y[i] for i in range(p)), zero)
        out.append(('C02', "primal infeasible: h'z+b'y == -1", A.eq(hzby, -one), 'direct'))
        out.append(('C02', "primal infeasible: 'dual objective' == 1", A.eq(fld('dual objective'), one), 'direct'))
        F = fld('residual as primal infeasibility certificate')
        R2 = nm['HRX'] / H.max1(A, nm['c2'])
        out.append(('C02', "primal infeasible: certificate residual == recomputed", A.and_(A.ge(F, zero), A.eq(F*F, R2)), 'abstract'))
        ft = opts['feastol']
        out.append(('C02', "primal infeasible: ||G'z+A'y||/max(1,||c||) <= feastol", A.le(F, ft), 'direct'))
        out.append(('C02', "primal infeasible: 'dual slack' == -max_step(z)", A.eq(fld('dual slack'), -O.max_step(A, z, dims, 0)), 'direct'))
        out.append(('C02', 'primal infeasible: z symmetric', symmetric(z), 'direct'))
        out.append(('C02', 'primal infeasible: z in cone', O.in_cone(A, z, dims, 0), 'direct'))
    elif st == 'dual infeasible':
        ok_none = none('y') and none('z') and none('gap') and none('relative gap') and none('dual objective') and \
            none('primal infeasibility') and none('dual infeasibility') and none('dual slack') and \
            none('residual as primal infeasibility certificate')
        out.append(('C02', 'dual infeasible: y, z and dual fields are None', A.true() if ok_none else A.not_(A.true()), 'direct'))
        cx = O._sum((d['c'][j]*x[j] for j in range(n)), zero)
        out.append(('C02', "dual infeasible: c'x == -1", A.eq(cx, -one), 'direct'))
        out.append(('C02', "dual infeasible: 'primal objective' == -1", A.eq(fld('primal objective'), -one), 'direct'))
        F = fld('residual as dual infeasibility certificate')
        R2 = A.max(nm['HRY'] / H.max1(A, nm['b2']), nm['HRZ'] / H.max1(A, nm['h2']))
        out.append(('C02', "dual infeasible: certificate residual == recomputed", A.and_(A.ge(F, zero), A.eq(F*F, R2)), 'abstract'))
        ft = opts['feastol']
        out.append(('C02', "dual infeasible: max(||Gx+s||/max(1,||h||),||Ax||/max(1,||b||)) <= feastol", A.le(F, ft), 'direct'))
        out.append(('C02', "dual infeasible: 'primal slack' == -max_step(s)", A.eq(fld('primal slack'), -O.max_step(A, s, dims, 0)), 'direct'))
        out.append(('C02', 'dual infeasible: s symmetric', symmetric(s), 'direct'))
        out.append(('C02', 'dual infeasible: s in cone', O.in_cone(A, s, dims, 0), 'direct'))
    else:
        out.append(('C01', 'status is one of the documented strings', A.not_(A.true()), 'direct'))
    return out

def norms_from_res(A, cfg, d, res, status, scale=None):
    """squared norms of the oracle residuals (weighted 'L'-storage norm for vectors in S) and of the data"""
    from vp.checks import conelp_h as H
    from vp.oracles import cone as O
    lw = H.lower_weights(cfg['dims']); zero = A.const(0)
    def ss(v, weights=None):
        if weights is None: return O._sum((e*e for e in v), zero)
        return O._sum((w*v[i]*v[i] for i, w in weights), zero)
    nm = dict(H.sq_norms(A, cfg, d))
    if status in ('optimal', 'unknown'):
        nm.update(Rx=ss(res['rx']), Ry=ss(res['ry']), Rz=ss(res['rz'], lw))
    elif status == 'primal infeasible':
        nm.update(HRX=ss(res['hrx']))
    elif status == 'dual infeasible':
        nm.update(HRY=ss(res['hry']), HRZ=ss(res['hrz'], lw))
    return nm

def model_ladder(goal, pc, side, tmo, data_re=None):
    """Counterexample search when the exact query is undecided: the same query with the problem
    data (and then tau, kappa) pinned to small rationals - still a solver verdict (a model of the
    pinned query is a model of the original one); only `sat` is used."""
    import z3
    from vp.pysym import sym
    t0 = time.time()
    names = set()
    for f in list(pc) + [goal]: names |= sym.consts_of(f)
    data = sorted(n for n in names if (data_re or DATA_RE).match(n))
    pats = ([1, -1, 2, 0, -2, 3], [2, 1, -1, 1, 0, 5, -3])
    for pi, pat in enumerate(pats):
        for extra_names in ((), ('tau', 'kappa')):
            pins = [z3.Real(n) == pat[i % len(pat)] for i, n in enumerate(data)]
            pins += [z3.Real(n) == 1 for n in extra_names if n in names]
            v, m, dt = sym.check(list(pc) + list(side) + pins + [z3.Not(goal)], min(tmo, 5000), want_model=True)
            if v == 'sat':
                return {'verdict': 'sat', 'model': sym.model_to_dict(m), 'secs': time.time() - t0, 'how': 'pinned(%d)' % pi}
    return None

def witnesses(st, cfg, maxiters, count=3):
    """Designed concrete states reaching the given status: generic small-rational data G, A,
    an interior iterate, and c, h, b solved (exact rational arithmetic) so that the documented
    test for that status holds with generous tolerances.  Used (i) as reachability twins and
    (ii) as anchors of the counterexample search (data pinned to a state known to satisfy a
    path condition).  Junk is planted in the unreferenced upper triangles."""
    import random
    from fractions import Fraction as Fr
    from vp.checks import conelp_h as H
    from vp.oracles import cone as O
    dims, n, p = cfg['dims'], cfg['n'], cfg['p']
    N = H.N_of(dims)
    if N == 0: return []
    lw = H.lower_weights(dims); lowpos = set(i for i, _ in lw)
    out = []
    for t in range(count):
        rnd = random.Random(1000*t + 17*N + n + p)
        ri = lambda: Fr(rnd.choice([-2, -1, 1, 2, 3]))
        e = [Fr(int(v)) for v in H.e_vector(dims)]
        def interior(shift):
            # generic strictly interior point: l: 1+shift.., q: (m+1+shift, 1, ..), s: diagonally dominant
            v = [Fr(1 + shift + i) for i in range(dims['l'])]
            for m in dims['q']: v += [Fr(m + 1 + shift)] + [Fr(1)]*(m - 1)
            for m in dims['s']:
                for j in range(m):
                    for i in range(m): v.append(Fr(m + 1 + shift + i) if i == j else Fr(1))
            return v
        s = interior(1); z = interior(t)
        junk = [i for i in range(N) if i not in lowpos]
        for i in junk: s[i] = Fr(7); z[i] = Fr(5)
        G = [[ri() for j in range(n)] for i in range(N)]
        A = [[ri() for j in range(n)] for i in range(p)]
        x = [ri() for j in range(n)]; y = [ri() for i in range(p)]
        tau = Fr(2) if t % 2 == 0 else Fr(1); kappa = Fr(1)
        Gx = [sum(G[i][j]*x[j] for j in range(n)) for i in range(N)]
        Ax = [sum(A[i][j]*x[j] for j in range(n)) for i in range(p)]
        def GTz(Gm): return [sum(w*Gm[i][j]*z[i] for i, w in lw) for j in range(n)]
        ATy = [sum(A[i][j]*y[i] for i in range(p)) for j in range(n)]
        pins = {}
        if st in ('optimal', 'unknown'):
            h = [(Gx[i] + s[i])/tau for i in range(N)]
            b = [Ax[i]/tau for i in range(p)]
            gz = GTz(G)
            c = [-(gz[j] + ATy[j])/tau for j in range(n)]
            pins.update(feastol=1000, abstol=1000, reltol=1000)
        elif st == 'primal infeasible':
            i0 = lw[0][0]
            for j in range(n):
                rest = sum(w*G[i][j]*z[i] for i, w in lw if i != i0) + ATy[j]
                G[i0][j] = -rest/z[i0]
            h = [-(2 + (i % 3))*e[i] for i in range(N)]
            b = [Fr(0)]*p
            c = [ri() for j in range(n)]
            pins.update(feastol=1000, abstol=Fr(1, 1000), reltol=Fr(1, 1000))
        else:
            c = [ri() for j in range(n)]
            if sum(c[j]*x[j] for j in range(n)) >= 0:
                x = [-v for v in x]
                if sum(c[j]*x[j] for j in range(n)) >= 0: x = [-v for v in c]
            h = [(3 + (i % 2))*e[i] for i in range(N)]
            b = [Fr(0)]*p
            pins.update(feastol=10**6, abstol=Fr(1, 1000), reltol=Fr(1, 1000))
        for i in junk: h[i] = Fr(3)
        pins.update(tau=tau, kappa=kappa, k=(maxiters if (st == 'unknown' or cfg.get('kclass') == 'ge') else (t % 2)))
        for i in range(N):
            pins['hs%d' % i] = s[i]; pins['hz%d' % i] = z[i]; pins['h%d' % i] = h[i]
            for j in range(n): pins['G%d_%d' % (i, j)] = G[i][j]
        for i in range(p):
            pins['hy%d' % i] = y[i]; pins['b%d' % i] = b[i]
            for j in range(n): pins['A%d_%d' % (i, j)] = A[i][j]
        for j in range(n):
            pins['c%d' % j] = c[j]; pins['hx%d' % j] = x[j]
        out.append(pins)
    return out

def pin_formulas(pins, names, only=None):
    import z3
    out = []
    for nme in names:
        if nme in pins and (only is None or only(nme)):
            v = pins[nme]
            out.append((z3.Int(nme) == int(v)) if nme == 'k' else (z3.Real(nme) == z3.RealVal(str(v))))
    return out

DATA_RE = re.compile(r'^(c\d+|G\d+_\d+|h\d+|A\d+_\d+|b\d+)$')

# ---------------------------------------------------------------------------------- symbolic job

_WORLD = None
def _world():
    global _WORLD
    if _WORLD is None:
        from vp.pysym import loader
        _WORLD = loader.load('sym', modules=('misc', 'coneprog', 'cvxprog'))
    return _WORLD

class ConelpSpec(object):
    """what the generic exit-block engine (job/replay below) needs to know about conelp"""
    name = 'conelp'
    norm_data_keys = ('c', 'h', 'b')
    abs_fields = ('primal infeasibility', 'dual infeasibility', 'residual as primal infeasibility certificate',
                  'residual as dual infeasibility certificate')
    option_names = ('feastol', 'abstol', 'reltol')
    @staticmethod
    def run(cfg, Wd, A, mk, assume, cap):
        from vp.checks import conelp_h as H
        return H.run_conelp(cfg, Wd, A, mk, assume, cap)
    @staticmethod
    def residuals(A, cfg, dn, sol):
        from vp.checks import conelp_h as H
        xs = {nm: H.vec_of(A, sol[nm]) for nm in ('x', 'y', 's', 'z')}
        return H.oracle_residuals(A, cfg, dn, xs)
    links = staticmethod(lambda st, cap, ores, sol: _links(st, cap, ores, sol))
    claims = staticmethod(lambda *a: claims(*a))
    norms_from_res = staticmethod(lambda *a: norms_from_res(*a))
    witnesses = staticmethod(lambda st, cfg, maxit: witnesses(st, cfg, maxit))
    @staticmethod
    def data_re(): return DATA_RE
    @staticmethod
    def prop_of(st): return 'C01' if st in ('optimal', 'unknown') else 'C02'
    @staticmethod
    def factor(st, loc, absvar):
        from vp.pysym import sym
        if st in ('optimal', 'unknown'): return absvar(sym.T(loc['tau']), 'a!tau')
        if st == 'primal infeasible': return -absvar(sym.T(loc['hz']), 'a!hz') - absvar(sym.T(loc['by']), 'a!by')
        return -absvar(sym.T(loc['cx']), 'a!cx')
    @staticmethod
    def U(st, A2, cfg, dn, ares):
        from vp.checks import conelp_h as H
        from vp.oracles import cone as O
        lw_ = H.lower_weights(cfg['dims']); zero_ = A2.const(0)
        def ssq(dct, weights=None):
            if weights is None: return O._sum((dct[i]*dct[i] for i in sorted(dct)), zero_)
            return O._sum((w*dct[i]*dct[i] for i, w in weights if i in dct), zero_)
        U = dict(H.sq_norms(A2, cfg, dn))
        if st in ('optimal', 'unknown'):
            U.update(Rx=ssq(ares.get('rx', {})), Ry=ssq(ares.get('ry', {})), Rz=ssq(ares.get('rz', {}), lw_)); scaled = {'Rx', 'Ry', 'Rz'}
        elif st == 'primal infeasible':
            U.update(HRX=ssq(ares.get('hrx', {}))); scaled = {'HRX'}
        else:
            U.update(HRY=ssq(ares.get('hry', {})), HRZ=ssq(ares.get('hrz', {}), lw_)); scaled = {'HRY', 'HRZ'}
        return U, scaled

def get_spec(name):
    if name == 'conelp': return ConelpSpec
    if name == 'coneqp':
        from vp.checks import c03
        return c03.ConeqpSpec
    if name == 'cpl':
        from vp.checks import c04
        return c04.CplSpec
    raise KeyError(name)

def _links(status, cap, res, sol):
    """linking lemmas: (label, oracle_term, factor_term, sign, code_term) meaning
    oracle*factor == sign*code; and the abstraction recipe."""
    from vp.pysym.sym import T
    loc = cap['locals']
    def cells(name):
        m = loc[name]
        return [T(m[i]) for i in range(len(m))]
    L = []
    if status in ('optimal', 'unknown'):
        tau = T(loc['tau'])
        for j, t in enumerate(cells('rx')): L.append(('rx[%d]' % j, res['rx'][j], tau, -1, t, ('rx', j)))
        for i, t in enumerate(cells('ry')): L.append(('ry[%d]' % i, res['ry'][i], tau, 1, t, ('ry', i)))
        rz = cells('rz')
        for i in res['rz']: L.append(('rz[%d]' % i, res['rz'][i], tau, 1, rz[i], ('rz', i)))
        fac = tau
    elif status == 'primal infeasible':
        fac = -T(loc['hz']) - T(loc['by'])
        for j, t in enumerate(cells('hrx')): L.append(('hrx[%d]' % j, res['hrx'][j], fac, -1, t, ('hrx', j)))
    else:
        fac = -T(loc['cx'])
        for i, t in enumerate(cells('hry')): L.append(('hry[%d]' % i, res['hry'][i], fac, 1, t, ('hry', i)))
        hrz = cells('hrz')
        for i in res['hrz']: L.append(('hrz[%d]' % i, res['hrz'][i], fac, 1, hrz[i], ('hrz', i)))
    return L, fac

def job(cfg):
    import z3
    from vp.pysym import sym, prove, alg
    from vp.checks import conelp_h as H
    from vp.oracles import cone as O
    Wd = _world()
    spec = get_spec(cfg['solver'])
    tmo = int(cfg.get('_timeout_ms', 10000))
    res = {'paths': 0, 'status': {}, 'obl': {'total': 0, 'unsat': 0, 'sat': 0, 'unknown': 0}, 'solver_s': 0.0,
           'sat': [], 'unknown': [], 'errors': [], 'samples': [], 'relax_q': 0, 'reach': {}, 'by_prop': {}}
    state = {}
    def count(prop, verdict, secs, n=1, force=False):
        if state.get('phase', 1) == 2 and not force: return     # phase 2 re-runs paths already counted
        res['obl']['total'] += n; res['obl'][verdict] += n; res['solver_s'] += secs
        bp = res['by_prop'].setdefault(prop, {'total': 0, 'unsat': 0, 'sat': 0, 'unknown': 0})
        bp['total'] += n; bp[verdict] += n
    def run_one():
        A = alg.SymAlg(); cap = {}
        state['A'], state['cap'] = A, cap
        def mk(name, kind='real'):
            return sym.SymInt(z3.Int(name)) if kind == 'int' else sym.SymReal(z3.Real(name))
        def assume(p): sym.CTX.assume(p)
        d, sol = spec.run(cfg, Wd, A, mk, assume, cap)
        return d, sol
    def on_path(kind, val, ctx):
        if state.get('phase', 1) == 1: res['paths'] += 1
        A, cap = state['A'], state['cap']
        pc = list(ctx.pc)
        if kind == 'cut':
            res['status']['cut'] = res['status'].get('cut', 0) + 1; return
        if kind == 'exception':
            if isinstance(val, H.Cut): return
            v = prove.feasible(pc, tmo)
            if v == 'unsat': count('C10', 'unsat', 0); return
            label = '%s raised %s: %s' % (cfg['solver'], type(val).__name__, str(val)[:120])
            if v == 'sat':
                _, m, _ = sym.check(pc, tmo, want_model=True)
                count('C10', 'sat', 0)
                res['sat'].append({'prop': 'C10', 'label': label, 'model': sym.model_to_dict(m)})
            else:
                count('C10', 'unknown', 0); res['unknown'].append(label)
            return
        if kind != 'return':
            res['errors'].append('path ended with %s: %s' % (kind, val)); return
        d, sol = val
        st = sol['status']
        if state.get('phase', 1) == 1: res['status'][st] = res['status'].get(st, 0) + 1
        dn = {key: [A.num(e) for e in v] for key, v in d.items()}
        ores = spec.residuals(A, cfg, dn, sol)
        k, maxit = cap['k'], cap['maxiters']
        # ---- stage 1: linking lemmas  oracle_residual * factor == +-code_residual
        links, fac = spec.links(st, cap, ores, sol)
        lemmas = [o*f == sg*t for (_, o, f, sg, t, _) in links]
        if lemmas:
            r = prove.prove(z3.And(*lemmas), pc, (), tmo)
            if r['verdict'] == 'unsat':
                count(spec.prop_of(st), 'unsat', r['secs'], len(lemmas))
                linked = True
            else:
                linked = False
                count(spec.prop_of(st), 'unknown' if r['verdict'] == 'unknown' else 'sat', r['secs'])
        else:
            linked = True
        # ---- stage 2: abstract residual cells and the scale factor by fresh variables
        full = spec.claims(A, cfg, dn, sol, spec.norms_from_res(A, cfg, dn, ores, st), cap['opts'], k, maxit)
        abs_claims = None
        if linked:
            loc = cap['locals']
            pairs = []
            allowed = {'feastol', 'abstol', 'reltol', 'k'}
            def absvar(term, name):
                """fresh variable standing for a compound code term (or the term itself if atomic)"""
                if z3.is_rational_value(term) or z3.is_const(term):
                    allowed.update(sym.consts_of(term)); return term
                v = z3.Real(name); allowed.add(name); pairs.append((term, v)); return v
            fv = spec.factor(st, loc, absvar)
            ares = {}
            for (lab, o, f, sg, t, (vn, idx)) in links:
                av = absvar(t, 'a!%s%s' % (vn, idx))
                ares.setdefault(vn, {})[idx] = sg*av          # unscaled: oracle residual = this / fv
            for key in spec.norm_data_keys:
                for e in dn[key]: allowed |= sym.consts_of(e)
            pc_abs = [z3.substitute(f, *pairs) for f in pc] if pairs else list(pc)
            sol_abs = dict(sol)
            for name in spec.abs_fields:
                if sol.get(name) is not None and sym.is_sym(sol[name]) and pairs:
                    sol_abs[name] = sym.SymReal(z3.substitute(sym.T(sol[name]), *pairs))
                if sol_abs.get(name) is not None and sym.is_sym(sol_abs[name]):
                    allowed |= set(n_ for n_ in sym.consts_of(sym.T(sol_abs[name])) if not (n_.startswith('sq!') or n_.startswith('osq!')))
            # ---- stage 3: radicands.  Unscaled oracle sums of squares U (over the a! variables)
            # and the data norms are matched against the radicands of the square roots the code
            # took (solver-checked identity U == radicand); a matched radicand becomes one fresh
            # variable V on both sides, which makes the final lemma dimension-independent.
            A2 = alg.SymAlg()
            U, scaled = spec.U(st, A2, cfg, dn, ares)
            defs = []      # (index in pc_abs, sq symbol, radicand)
            for i_, f in enumerate(pc_abs):
                if z3.is_eq(f) and f.arg(0).decl().kind() == z3.Z3_OP_MUL and f.arg(0).num_args() == 2 \
                        and f.arg(0).arg(0).eq(f.arg(0).arg(1)) and str(f.arg(0).arg(0)).startswith('sq!'):
                    defs.append((i_, f.arg(0).arg(0), f.arg(1)))
            nm_abs = {}; raw_abs = {}
            for key, u in U.items():
                vvar = None
                if callable(u): u = u(raw_abs)           # radicand composed of already abstracted ones
                if not z3.is_rational_value(z3.simplify(u)):
                    hyp = [pc_abs[i2] for (i2, _, _) in defs]
                    for (i_, sq_, rad) in defs:
                        if z3.is_true(z3.simplify(u == rad)) or sym.check(hyp + [u != rad], 2000)[0] == 'unsat':
                            vvar = z3.Real('V!%s' % key); allowed.add('V!%s' % key)
                            pc_abs[i_] = (sq_*sq_ == vvar)
                            pc_abs.append(vvar >= 0)
                            count(spec.prop_of(st), 'unsat', 0.0)   # matching identity discharged by the simplifier
                            break
                val = vvar if vvar is not None else u
                raw_abs[key] = val
                nm_abs[key] = val/(fv*fv) if key in scaled else val
            abs_all = spec.claims(A2, cfg, dn, sol_abs, nm_abs, cap['opts'], k, maxit)
            abs_claims = {lab: g for (_, lab, g, grp) in abs_all if grp == 'abstract'}
            kept, allowed2 = sym.slice_up(pc_abs + A2.side, allowed)
        # ---- designed witnesses: reachability twin + anchored counterexample search
        names = set()
        for f in pc: names |= sym.consts_of(f)
        found = state.setdefault('found', set())
        anchor = None
        matched = state.setdefault('matched', set())
        for wi, pins in enumerate(spec.witnesses(st, cfg, maxit)):
            if (st, wi) in matched: continue             # a concrete state follows exactly one path
            allp = pin_formulas(pins, names)
            if prove.feasible(pc + allp, 2000) != 'sat': continue
            matched.add((st, wi))
            res['reach'][st] = True                      # this path is exactly feasible (twin sat)
            anchor = pins
            for (prop, label, goal, group) in full:      # the witness itself as a test point (instant)
                if label in found: continue
                v, m, dt = sym.check(list(pc) + list(A.side) + allp + [z3.Not(goal)], 3000, want_model=True)
                if v == 'sat':
                    found.add(label); count(prop, 'sat', dt)
                    res['sat'].append({'prop': prop, 'label': label, 'model': sym.model_to_dict(m), 'status': st,
                                       'how': 'designed witness %d violates the claim' % wi})
            break
        # batch: all direct claims in one query, all abstract claims in one query; split on failure
        def decide_one(prop, label, goal, group):
            und = state.setdefault('undecided', {})
            phase = state.get('phase', 1)
            if phase == 2 and label not in state.get('only', ()): return
            if label in found:
                res['skipped_after_counterexample'] = res.get('skipped_after_counterexample', 0) + 1
                return
            quick_t = min(tmo, 3000)
            if group == 'abstract' and abs_claims is not None:
                r = prove.prove(abs_claims[label], kept, (), tmo, slice_first=False)
                if r['verdict'] != 'unsat':
                    r = {'verdict': 'unknown', 'model': None, 'secs': r['secs']}   # abstraction dropped hypotheses
            else:
                r = prove.prove(goal, pc, A.side, tmo if phase == 2 else quick_t, fallback=(phase == 2), full_query=(phase == 2))
            if r['verdict'] == 'unknown' and phase == 1:
                # not decided cheaply: defer the expensive exact search until all paths (and the
                # designed witnesses, which often settle the label at once) have been seen
                state.setdefault('pending', []).append((prop, label, list(ctx.taken)))
                return
            if r['verdict'] == 'unknown':
                v, m, dt = sym.check(list(pc) + list(A.side) + [z3.Not(goal)], tmo, want_model=True)
                r = {'verdict': v, 'model': sym.model_to_dict(m) if m is not None else None, 'secs': dt}
            if r['verdict'] == 'unknown' and anchor is not None:
                # anchored search: problem data pinned to a designed state known to satisfy this
                # path condition, iterate free
                datap = pin_formulas(anchor, names, lambda nme: bool(spec.data_re().match(nme)) or nme in spec.option_names)
                v, m, dt = sym.check(list(pc) + list(A.side) + datap + [z3.Not(goal)], quick_t, want_model=True)
                if v == 'sat':
                    r = {'verdict': 'sat', 'model': sym.model_to_dict(m), 'secs': dt, 'how': 'anchored'}
            if r['verdict'] == 'unknown' and state.get('ladder_budget', 2) > 0:
                state['ladder_budget'] = state.get('ladder_budget', 2) - 1
                r = model_ladder(goal, pc, A.side, quick_t, spec.data_re()) or r
            count(prop, r['verdict'], r['secs'], force=True)
            if r['verdict'] == 'sat':
                found.add(label)
                res['sat'].append({'prop': prop, 'label': label, 'model': r['model'], 'status': st})
            elif r['verdict'] == 'unknown':
                und[label] = und.get(label, 0) + 1
                res['unknown'].append('%s [%s]' % (label, st))
        direct = [c for c in full if not (c[3] == 'abstract' and abs_claims is not None)]
        abstr = [c for c in full if c[3] == 'abstract' and abs_claims is not None]
        for c in direct: decide_one(*c)      # each sliced to its own cone of influence
        if abstr:
            r = prove.prove(z3.And(*[abs_claims[c[1]] for c in abstr]), kept, (), tmo, slice_first=False)
            if r['verdict'] == 'unsat':
                for c in abstr: count(c[0], 'unsat', r['secs']/len(abstr))
            else:
                for c in abstr: decide_one(*c)
        if len(res['samples']) < 2:
            res['samples'].append({'status': st, 'path_decisions': len(ctx.taken), 'claims': [l for _, l, _, _ in full][:6],
                                   'smt_first_claim': z3.Not(full[2][2]).sexpr()[:300]})
        # reachability twin: the exact path condition of this returning path is satisfiable
    t_job = time.time()
    st_ = sym.explore(run_one, on_path=on_path, max_paths=int(cfg.get('_max_paths', 3000)))
    # ---- phase 2: claims that stayed undecided by the cheap proofs and for which no designed
    # witness gave a counterexample: exact search on (at most two of) their paths
    pend = state.get('pending', [])
    state['phase'] = 2
    done = {}
    for (prop, label, prefix) in pend:
        if label in state.get('found', set()): continue
        if done.get(label, 0) >= 2:
            continue
        done[label] = done.get(label, 0) + 1
        state['only'] = {label}
        sym.CTX.start_path(prefix, ())
        try:
            val = run_one()
        except BaseException as e:
            res['errors'].append('phase 2 re-execution diverged: %r' % (e,)); continue
        on_path('return', val, sym.CTX)
    res['deferred'] = len(pend)
    for (prop, label, prefix) in pend:
        if label not in state.get('found', set()) and done.get(label, 0) == 0:
            pass
    res['wall'] = round(time.time() - t_job, 1)
    res['relax_q'] = st_['relax_queries']
    res['relax_s'] = st_['relax_time']
    if st_['budget']: res['errors'].append('path budget exhausted')
    return res

# ---------------------------------------------------------------------------------- concrete replay

def replay(cfg, model, use_c=True):
    import fractions
    from vp.pysym import loader, alg
    from vp.checks import conelp_h as H
    Wd = loader.load('conc', use_c=use_c, modules=('misc', 'coneprog', 'cvxprog'))
    spec = get_spec(cfg['solver'])
    A = alg.ConcAlg()
    def val(name):
        v = model.get(name)
        if v is None: return 0.0
        try: return float(fractions.Fraction(v))
        except Exception: return float(v)
    def mk(name, kind='real'):
        return int(round(val(name))) if kind == 'int' else val(name)
    pre = []
    def assume(p): pre.append(bool(p))
    cap = {}
    try:
        d, sol = spec.run(cfg, Wd, A, mk, assume, cap)
    except H.Cut as e:
        return {'precond_ok': all(pre), 'status': 'cut', 'violated': []}
    except Exception as e:
        return {'precond_ok': all(pre), 'status': 'exception', 'violated': ['%s raised %s: %s' % (cfg['solver'], type(e).__name__, str(e)[:120])]}
    dn = {key: [A.num(e) for e in v] for key, v in d.items()}
    ores = spec.residuals(A, cfg, dn, sol)
    cl = spec.claims(A, cfg, dn, sol, spec.norms_from_res(A, cfg, dn, ores, sol['status']), cap['opts'], cap['k'], cap['maxiters'])
    return {'precond_ok': all(pre), 'status': sol['status'], 'violated': [l for (_, l, g, _) in cl if not g]}

def replay_on_build(path):
    from vp import common
    r = common.run_conc(['-m', 'vp.checks.c01', '--replay-conc', path])
    if r.returncode != 0: return None, 'replay process failed: ' + r.stderr[-300:]
    try: d = json.loads(r.stdout.strip().splitlines()[-1])
    except Exception: return None, 'unparsable replay output'
    if d.get('precond_ok') and d.get('violated'):
        return '%s: %s' % (d['status'], d['violated'][:3]), None
    return None, 'not reproduced (status %s, precond_ok=%s)' % (d.get('status'), d.get('precond_ok'))

def replay_main(path):
    rep, why = replay_on_build(path)
    if rep: print('REPRODUCED on the real build: %s' % rep); return 1
    print(why); return 0

# ---------------------------------------------------------------------------------- driver

def main(tier, pid='C01'):
    from vp import common
    from vp.pysym import loader
    ev = common.Evidence(pid, 'model_checking', tier)
    if pid == 'C03':
        from vp.checks import c03
        cfgs = c03.configs(tier)
    elif pid == 'C04':
        from vp.checks import c04
        cfgs = c04.configs(tier)
    else:
        cfgs = configs(tier)
    for c in cfgs:
        c['_timeout_ms'] = 10000 if tier == 'quick' else 60000
    results = common.run_jobs('vp.checks.c01', 'job', cfgs)
    # configurations with undecided obligations are re-run once, few at a time and with a three-fold solver budget:
    # under a fully loaded pool solver time doubles and borderline queries time out
    redo = [i for i, r in enumerate(results) if r['ok'] and r['res']['unknown'] and not r['res']['sat']]
    if len(redo) > 6: redo = []          # undecided obligations in many configurations are not a load artefact: no second pass, go to the witness search
    if redo:
        again = [dict(results[i]['cfg'], _timeout_ms=3*results[i]['cfg']['_timeout_ms']) for i in redo]
        for i, r2 in zip(redo, common.run_jobs('vp.checks.c01', 'job', again)):
            if r2['ok'] and len(r2['res']['unknown']) < len(results[i]['res']['unknown']): results[i] = r2
    known = common.known_findings(pid)
    violations, known_hits, herr, inconc = [], [], [], []
    paths = 0; statuses = {}; reach = {}; seen = {}; job_walls = []
    mine = {'C01': ('C01', 'C10'), 'C02': ('C02',), 'C03': ('C03', 'C10'), 'C04': ('C04', 'C10')}[pid]
    for r in results:
        cfg = {k: v for k, v in r['cfg'].items() if not k.startswith('_')}
        if not r['ok']:
            herr.append('%s: %s' % (json.dumps(cfg), r['err'])); continue
        res = r['res']
        paths += res['paths']; job_walls.append((res.get('wall', 0), json.dumps(cfg)))
        for s_, n_ in res['status'].items(): statuses[s_] = statuses.get(s_, 0) + n_
        for s_ in res['reach']: reach[s_] = True
        for prop in mine:
            bp = res['by_prop'].get(prop)
            if bp:
                for key in ('total', 'unsat', 'sat', 'unknown'): ev.obl[key] += bp[key]
        ev.solver_s += res['solver_s']
        for s_ in res['samples']: ev.sample(dict(s_, cfg=cfg), cap=6)
        for e in res['errors']: herr.append('%s: %s' % (json.dumps(cfg), e))
        for u in res['unknown']:
            inconc.append('%s: %s' % (json.dumps(cfg), u))
        for s in res['sat']:
            if s['prop'] not in mine: continue
            key = '%s:%s' % (cfg['solver'], s['label'])
            if key in seen: seen[key] += 1; continue
            seen[key] = 1
            rp = common.write_replay(pid, json.dumps(cfg, sort_keys=True) + s['label'],
                                     {'property': pid, 'cfg': cfg, 'label': s['label'], 'model': s['model']})
            rep, why = replay_on_build(rp)
            if rep is None:
                herr.append('%s: counterexample for "%s" %s (%s)' % (json.dumps(cfg), s['label'], why, rp))
            elif key in known: known_hits.append((key, known[key]['what']))
            else: violations.append((key, rp, '%s -> %s' % (json.dumps(cfg), rep)))
    if pid == 'C01':
        # supporting harness: the last statements of an iteration re-establish the invariants I1-I3 assumed above
        from vp.checks import c01_tail
        tcfgs = [{'dims': d_, '_timeout_ms': 20000 if tier == 'quick' else 120000} for d_ in c01_tail.DIMS]
        for r in common.run_jobs('vp.checks.c01_tail', 'job', tcfgs):
            cfg = {k: v for k, v in r['cfg'].items() if not k.startswith('_')}
            if not r['ok']:
                herr.append('tail %s: %s' % (json.dumps(cfg), r['err'])); continue
            res = r['res']
            for key in ('total', 'unsat', 'sat', 'unknown'): ev.obl[key] += res['obl'][key]
            ev.solver_s += res['solver_s']; paths += res['paths']
            if not res['reached']: herr.append('tail %s: end of the loop body not reached' % json.dumps(cfg))
            for e in res['errors']: herr.append('tail %s: %s' % (json.dumps(cfg), e))
            for u in res['unknown']: inconc.append('tail %s: %s' % (json.dumps(cfg), u))
            for s_ in res['sat']:
                key = 'conelp-tail:' + s_['label'].split(':')[0]
                if key in seen: seen[key] += 1; continue
                seen[key] = 1
                rp = common.write_replay(pid, json.dumps(cfg, sort_keys=True) + s_['label'], {'property': pid, 'tail': True, 'cfg': cfg, 'label': s_['label'], 'model': s_['model']})
                rr = common.run_conc(['-m', 'vp.checks.c01_tail', '--replay-conc', rp])
                try: dd = json.loads(rr.stdout.strip().splitlines()[-1])
                except Exception: dd = {}
                if dd.get('precond_ok') and dd.get('violated'):
                    if key in known: known_hits.append((key, known[key]['what']))
                    else: violations.append((key, rp, 'end of the conelp iteration, %s -> %s' % (json.dumps(cfg), dd['violated'][:2])))
                else:
                    herr.append('tail %s: counterexample for "%s" not reproduced (%s)' % (json.dumps(cfg), s_['label'], rp))
    # ---- witness search for undecided obligations: the designed states (generic data, interior iterate, residuals made nonzero by
    # shifting c, h, b) are run through the same harness on the real build; a reproduced violation is reported, anything else stays inconclusive
    still = []; tried = {}
    for item in inconc:
        if item.startswith('tail ') or '}: ' not in item: still.append(item); continue
        try: cfg = json.loads(item[:item.index('}: ') + 1]); label = item[item.index('}: ') + 3:]
        except Exception: still.append(item); continue
        st_w = label[label.rindex('[') + 1:-1] if label.endswith(']') and '[' in label else label.split(':')[0]
        ck = json.dumps(cfg, sort_keys=True) + st_w
        if ck not in tried:
            tried[ck] = None
            try: wits = get_spec(cfg["solver"]).witnesses(st_w, cfg, cfg.get("maxiters", 7))
            except Exception: wits = []
            for wi, w in enumerate(wits):
                w2 = dict(w)
                for nm in ('h0', 'c0', 'b0', 'q0'):
                    if nm in w2: w2[nm] = w2[nm] + 1
                rp = common.write_replay(pid, ck + 'witness%d' % wi, {'property': pid, 'cfg': cfg, 'label': label, 'model': {k_: str(v_) for k_, v_ in w2.items()}})
                rep, why = replay_on_build(rp)
                if rep is not None: tried[ck] = (rp, rep); break
        if tried[ck] is None: still.append(item); continue
        key = '%s:%s' % (cfg['solver'], label.split('[')[0].strip()[:60])
        if key in seen: continue
        seen[key] = 1
        rp, rep = tried[ck]
        if key in known: known_hits.append((key, known[key]['what']))
        else: violations.append((key, rp, '%s -> %s (witness found by running designed states on the real build after the solver did not decide)' % (json.dumps(cfg), rep)))
    inconc = still
    need = ('optimal',) if pid in ('C01', 'C03', 'C04') else ('primal infeasible', 'dual infeasible')
    for s_ in need:
        if not reach.get(s_): herr.append("reachability twin: no exactly-satisfiable path returning '%s'" % s_)
    ev.extra['sat_by_key'] = seen
    ev.extra['slowest_jobs'] = sorted(job_walls, reverse=True)[:5]
    src_mods = ['coneprog', 'misc'] + (['cvxprog'] if pid == 'C04' else [])
    ev.cov.update({'states': paths, 'transitions': max(1, ev.obl['total']), 'traces_validated_against_impl': 0,
                   'paths_by_status': statuses, 'configurations': len(cfgs), 'reachability_twins_sat': sorted(reach),
                   'functions_encoded': ['%s (exit block at an arbitrary iteration%s)' % ({'C03': 'coneprog.coneqp', 'C04': 'cvxprog.cpl (user F a memoised symbolic stub)'}.get(pid, 'coneprog.conelp'), '; no-inequality shortcut with exact KKT contract stub' if pid == 'C03' else ''), 'misc.sgemv/sdot/snrm2/symm/max_step/trisc/triusc (Python fallbacks)'],
                   'source_hash': loader.src_hash(src_mods),
                   'bounds': 'cone structures %s; n<=%d variables, p<=1 equalities; dense and sparse G/A; iteration index k symbolic in [0,maxiters]; all data, tolerances and the iterate symbolic reals'
                             % (json.dumps(sorted(set(json.dumps(c['dims']) for c in cfgs))), 2 if tier == 'quick' else 3)})
    ev.assumptions += ['loop invariant at the head of an arbitrary iteration: tau>0, kappa>0 (I1); gap = <s,z>/tau^2 (I2); s,z strictly inside the cone (I3)',
                       'exact real arithmetic (floats as reals); NaN/Inf excluded',
                       'user KKT solver stub ends the path after the exit block (not part of the claim)',
                       'C01 only: preservation of I1, I2 (and I3 for l blocks) by the last statements of an iteration is decided by the tail harness from an arbitrary VALID scaling; the step-length computation in between is outside',
                       "'s' blocks of order <= 2 (closed-form eigenvalue); start points concrete (cone identity)",
                       'blas/base shim is a reference model; counterexamples are replayed on the real build before being reported']
    return common.finish(ev, violations, known_hits, herr, inconc)

if __name__ == '__main__':
    if len(sys.argv) >= 3 and sys.argv[1] == '--replay-conc':
        dd = json.load(open(sys.argv[2]))
        print(json.dumps(replay(dd['cfg'], dd['model'])))
