"""cpl's saved state (relaxed line search): the save block and the two restore blocks, executed on symbols.

The statement blocks are taken from the AST of /repo's cvxprog.py on every run:
  SAVE     the statement list that ends with `relaxed_iters = 1`            ("Save state.")
  RESTORE  the statements before the `try:` in the list containing `relaxed_iters = -1`
           inside the `except ArithmeticError` handler                      ("restore the last saved state")
  RESUME   the other list containing `relaxed_iters = -1`                   ("Resume last saved line search.")
They run in the *real* local namespace of cpl captured at the head of the main loop (so the objects
x0, y0, W0, ... are the ones cpl itself allocated, with whatever aliasing that allocation has), with every
cell of the current and of the saved state a distinct solver variable.

Obligations (z3; trivial when the code is right, a model otherwise):
  SAVE     every saved quantity equals the current one afterwards; the current state is unchanged;
           nothing the caller owns (the start point returned by F()) is written (-> C09).
  RESTORE  x, y, s, z, W, lmbda, rx, ry, rznl, rzl, phi, gap equal the saved ones; the saved state is unchanged.
  RESUME   x, dx, y, dy, s, z, ds, dz, ds2, dz2, W, lmbda, phi, dphi, gap, step, dsdz, sigma, eta equal the saved ones.
Scaling cells are reported under C07 (the scaling handed to the KKT solver after a restore is the saved
one, which satisfied the invariants), everything else under C10.
Not required: lmbdasq after RESTORE - the unchanged code copies it in the wrong direction
(`blas.copy(lmbdasq, lmbdasq0)`); no listed property speaks about lmbdasq, see DESIGN.md 11.4.
"""
import ast, json, sys, os, re, time
from vp.checks import conelp_h as H
from vp.checks import c10_cpl as CC
from vp.pysym.cut import Cut

VEC_PAIRS = [('x', 'x0'), ('dx', 'dx0'), ('y', 'y0'), ('dy', 'dy0'), ('s', 's0'), ('z', 'z0'), ('ds', 'ds0'), ('dz', 'dz0'),
             ('ds2', 'ds20'), ('dz2', 'dz20'), ('lmbda', 'lmbda0'), ('lmbdasq', 'lmbdasq0'), ('rx', 'rx0'), ('ry', 'ry0'),
             ('rznl', 'rznl0'), ('rzl', 'rzl0')]
SCAL_PAIRS = [('phi', 'phi0'), ('dphi', 'dphi0'), ('gap', 'gap0'), ('step', 'step0'), ('dsdz', 'dsdz0'), ('sigma', 'sigma0'), ('eta', 'eta0')]
RESTORE_VECS = ('x', 'y', 's', 'z', 'lmbda', 'rx', 'ry', 'rznl', 'rzl')
RESTORE_SCALS = ('phi', 'gap')
RESUME_VECS = ('x', 'dx', 'y', 'dy', 's', 'z', 'ds', 'dz', 'ds2', 'dz2', 'lmbda')
RESUME_SCALS = ('phi', 'dphi', 'gap', 'step', 'dsdz', 'sigma', 'eta')
WKEYS = ('dnl', 'dnli', 'd', 'di', 'v', 'beta', 'r', 'rti')

DIMS_QUICK = [{'l': 1, 'q': [2], 's': [2]}, {'l': 2, 'q': [], 's': [1, 2]}]
DIMS_THOROUGH = DIMS_QUICK + [{'l': 0, 'q': [2, 3], 's': [2, 2]}, {'l': 1, 'q': [], 's': []}]

def configs(tier):
    out = []
    for d in (DIMS_QUICK if tier == 'quick' else DIMS_THOROUGH):
        for mnl in (1, 0):
            for block in ('save', 'restore', 'resume'):
                out.append({'solver': 'cpl', 'part': 'saveblock', 'block': block, 'dims': d, 'mnl': mnl, 'n': 2, 'p': 1})
    return out

# ---------------------------------------------------------------------------------- block extraction

def _is_assign(st, name, value):
    if not (isinstance(st, ast.Assign) and len(st.targets) == 1 and isinstance(st.targets[0], ast.Name) and st.targets[0].id == name): return False
    v = st.value
    if isinstance(v, ast.Constant): return v.value == value
    if isinstance(v, ast.UnaryOp) and isinstance(v.op, ast.USub) and isinstance(v.operand, ast.Constant): return -v.operand.value == value
    return False

def find_blocks(src):
    from vp.pysym.loader import HarnessError
    tree = ast.parse(src)
    fn = [n for n in tree.body if isinstance(n, ast.FunctionDef) and n.name == 'cpl']
    if len(fn) != 1: raise HarnessError('cvxprog.cpl not found')
    lists = []
    for node in ast.walk(fn[0]):
        for attr in ('body', 'orelse', 'finalbody'):
            l = getattr(node, attr, None)
            if isinstance(l, list) and l and isinstance(l[0], ast.stmt): lists.append(l)
    save = [l for l in lists if any(_is_assign(st, 'relaxed_iters', 1) for st in l)]
    minus = [l for l in lists if any(_is_assign(st, 'relaxed_iters', -1) for st in l)]
    restore = [l for l in minus if any(isinstance(st, ast.Try) for st in l)]
    resume = [l for l in minus if not any(isinstance(st, ast.Try) for st in l)]
    if len(save) != 1 or len(restore) != 1 or len(resume) != 1:
        raise HarnessError('cpl: expected one save, one restore and one resume block, found %d/%d/%d' % (len(save), len(restore), len(resume)))
    r1 = []
    for st in restore[0]:
        if isinstance(st, ast.Try): break
        r1.append(st)
    def code(stmts, nm):
        m = ast.Module(body=list(stmts), type_ignores=[])
        ast.fix_missing_locations(m)
        return compile(m, '<cpl:%s>' % nm, 'exec')
    return {'save': code(save[0], 'save'), 'restore': code(r1, 'restore'), 'resume': code(resume[0], 'resume')}

# ---------------------------------------------------------------------------------- the experiment

class _Done(Cut):
    pass

def run_block(cfg, Wd, A, mk, assume, cap):
    from vp.pysym import loader
    dims, n, p, mnl = cfg['dims'], cfg['n'], cfg['p'], cfg['mnl']
    num = A.num
    M = Wd.matrix
    d = H.make_data(cfg, mk)
    c, G, h, Am, b = H.to_matrices(Wd, cfg, d)
    blocks = find_blocks(loader.read_src('cvxprog'))
    user_x0 = M([1.0 + j for j in range(n)], (n, 1), 'd')
    if Wd.mode == 'sym': user_x0._ro = True
    cap['user_x0'] = user_x0; cap['user_x0_before'] = [user_x0[j] for j in range(n)]
    def Fstub(x=None, z=None):
        if x is None: return mnl, user_x0
        raise Cut('F evaluated (loop body entered)')
    mod = Wd.cvxprog
    def cells(m): return [num(m[i]) for i in range(len(m))]
    def fill(m, tag):
        for i in range(len(m)): m[i] = mk('%s%d' % (tag, i))
    def fillW(Wm, tag):
        Wv = CC.fresh_W(dims, mnl, mk, tag)
        for key in ('dnl', 'dnli', 'd', 'di'):
            for i in range(len(Wm[key])): Wm[key][i] = Wv[key][i]
        for k_ in range(len(dims['q'])):
            for i in range(dims['q'][k_]): Wm['v'][k_][i] = Wv['v'][k_][i]
            Wm['beta'][k_] = Wv['beta'][k_]
        for k_ in range(len(dims['s'])):
            for i in range(dims['s'][k_]**2):
                Wm['r'][k_][i] = Wv['r'][k_][i]
            for i in range(dims['s'][k_]**2):
                Wm['rti'][k_][i] = Wv['rti'][k_][i]
    def snapW(Wm): return CC.W_terms(A, Wm, dims, mnl)
    def vp_iters(stop):
        yield 1
        raise Cut('second iteration')
    def vp_havoc(which, loc, names):
        ns = dict(loc)
        # the current scaling does not exist before iteration 0: a fresh dictionary of the right shape
        ns['W'] = CC.W_to_matrices(Wd, dims, mnl, CC.fresh_W(dims, mnl, mk, 'Wc'))
        # saved state first, current state second: if two names share storage the later fill wins and the
        # comparison after the block shows it
        for cur, sv in VEC_PAIRS: fill(ns[sv], 'S' + sv + '_')
        fillW(ns['W0'], 'S')
        for cur, sv in VEC_PAIRS: fill(ns[cur], 'C' + cur + '_')
        for cur, sv in SCAL_PAIRS:
            ns[cur] = mk('C' + cur); ns[sv] = mk('S' + sv)
        for nm in ('pres0', 'dres0'):
            v = mk(nm); assume(A.ge(num(v), A.const(1))); ns[nm] = v
        ns['relaxed_iters'] = 1
        before = {'cur': {cur: cells(ns[cur]) for cur, _ in VEC_PAIRS}, 'sav': {sv: cells(ns[sv]) for _, sv in VEC_PAIRS},
                  'curW': snapW(ns['W']), 'savW': snapW(ns['W0']),
                  'curS': {cur: num(ns[cur]) for cur, _ in SCAL_PAIRS}, 'savS': {sv: num(ns[sv]) for _, sv in SCAL_PAIRS}}
        exec(blocks[cfg['block']], mod.__dict__, ns)
        after = {'cur': {cur: cells(ns[cur]) for cur, _ in VEC_PAIRS}, 'sav': {sv: cells(ns[sv]) for _, sv in VEC_PAIRS},
                 'curW': snapW(ns['W']), 'savW': snapW(ns['W0']),
                 'curS': {cur: num(ns[cur]) for cur, _ in SCAL_PAIRS}, 'savS': {sv: num(ns[sv]) for _, sv in SCAL_PAIRS}}
        cap['before'], cap['after'] = before, after
        cap['relaxed_iters_after'] = ns['relaxed_iters']
        raise _Done('block executed')
    mod.__dict__['__vp_iters__'] = vp_iters; mod.__dict__['__vp_havoc__'] = vp_havoc
    opts = {'show_progress': False, 'maxiters': 7, 'refinement': 0}
    def kkt(x, z, W): raise Cut('kktsolver reached')
    mod.cpl(c, Fstub, G, h, dims, Am, b, kktsolver=kkt, options=opts)
    raise RuntimeError('cpl returned without reaching the loop head')

def _flatW(Wt):
    out = []
    for key in WKEYS:
        v = Wt[key]
        if key in ('v', 'r', 'rti'):
            for k_, blk in enumerate(v): out += [('%s[%d][%d]' % (key, k_, i), e) for i, e in enumerate(blk)]
        else: out += [('%s[%d]' % (key, i), e) for i, e in enumerate(v)]
    return out

def block_claims(A, cfg, cap):
    """list of (prop, label, goal)"""
    b, a = cap['before'], cap['after']
    blk = cfg['block']
    out = []
    def eqv(u, v): return A.and_(*[A.eq(x_, y_) for x_, y_ in zip(u, v)]) if len(u) == len(v) else A.not_(A.true())
    if blk == 'save':
        for cur, sv in VEC_PAIRS:
            out.append(('C10', 'save: %s holds the current %s' % (sv, cur), eqv(a['sav'][sv], b['cur'][cur])))
            out.append(('C10', 'save: %s is not modified' % cur, eqv(a['cur'][cur], b['cur'][cur])))
        for cur, sv in SCAL_PAIRS:
            out.append(('C10', 'save: %s holds the current %s' % (sv, cur), A.eq(a['savS'][sv], b['curS'][cur])))
        fa, fb, fc = _flatW(a['savW']), _flatW(b['curW']), _flatW(a['curW'])
        out.append(('C07', 'save: W0 holds the current scaling W', A.and_(*[A.eq(x_[1], y_[1]) for x_, y_ in zip(fa, fb)])))
        out.append(('C07', 'save: W is not modified', A.and_(*[A.eq(x_[1], y_[1]) for x_, y_ in zip(fc, fb)])))
    else:
        vecs, scals = (RESTORE_VECS, RESTORE_SCALS) if blk == 'restore' else (RESUME_VECS, RESUME_SCALS)
        pair = dict(VEC_PAIRS); spair = dict(SCAL_PAIRS)
        for cur in vecs:
            out.append(('C10', '%s: %s equals the saved %s' % (blk, cur, pair[cur]), eqv(a['cur'][cur], b['sav'][pair[cur]])))
        for cur, sv in VEC_PAIRS:
            if blk == 'restore' and sv == 'lmbdasq0': continue        # see the module docstring
            out.append(('C10', '%s: saved %s is not modified' % (blk, sv), eqv(a['sav'][sv], b['sav'][sv])))
        for cur in scals:
            out.append(('C10', '%s: %s equals the saved %s' % (blk, cur, spair[cur]), A.eq(a['curS'][cur], b['savS'][spair[cur]])))
        fa, fb, fc = _flatW(a['curW']), _flatW(b['savW']), _flatW(a['savW'])
        out.append(('C07', '%s: W equals the saved scaling W0' % blk, A.and_(*[A.eq(x_[1], y_[1]) for x_, y_ in zip(fa, fb)])))
        out.append(('C07', '%s: saved scaling W0 is not modified' % blk, A.and_(*[A.eq(x_[1], y_[1]) for x_, y_ in zip(fc, fb)])))
    return out

# ---------------------------------------------------------------------------------- symbolic job

def job(cfg):
    import z3
    from vp.pysym import sym, alg
    Wd = CC._world()
    tmo = int(cfg.get('_timeout_ms', 10000))
    res = {'paths': 0, 'outcomes': {}, 'obl': {'total': 0, 'unsat': 0, 'sat': 0, 'unknown': 0}, 'solver_s': 0.0,
           'sat': [], 'unknown': [], 'errors': [], 'samples': [], 'reach': False}
    state = {}
    def run_one():
        A = alg.SymAlg(); cap = {}
        state['A'], state['cap'] = A, cap
        def mk(name, kind='real'):
            return sym.SymInt(z3.Int(name)) if kind == 'int' else sym.SymReal(z3.Real(name))
        def assume(p_): sym.CTX.assume(p_)
        return run_block(cfg, Wd, A, mk, assume, cap)
    def bump(k): res['outcomes'][k] = res['outcomes'].get(k, 0) + 1
    def count(v, secs=0.0): res['obl']['total'] += 1; res['obl'][v] += 1; res['solver_s'] += secs
    def on_path(kind, val, ctx):
        res['paths'] += 1
        A, cap = state['A'], state['cap']
        pc = list(ctx.pc)
        if kind == 'cut' and isinstance(val, _Done):
            bump('block executed'); res['reach'] = True
            cl = block_claims(A, cfg, cap)
            for (prop, label, goal) in cl:
                if any(s_['label'] == label for s_ in res['sat']): continue
                v, m, dt = sym.check(pc + list(A.side) + [z3.Not(goal)], tmo, want_model=True)
                if v == 'unsat': count('unsat', dt)
                elif v == 'sat':
                    count('sat', dt); res['sat'].append({'label': label, 'prop': prop, 'model': sym.model_to_dict(m)})
                else: count('unknown', dt); res['unknown'].append(label)
            if not res['samples']: res['samples'].append({'block': cfg['block'], 'claims': [l for _, l, _ in cl][:8]})
            return
        if kind == 'exception':
            from vp.pysym.shim import ReadOnlyViolation
            if isinstance(val, ReadOnlyViolation):
                label = '%s: the block writes into the start point returned by F()' % cfg['block']; prop = 'C09'
            else:
                label = '%s: %s raised inside the block: %s' % (cfg['block'], type(val).__name__, str(val)[:80]); prop = 'C10'
            v, m, dt = sym.check(pc, tmo, want_model=True)
            if v == 'sat':
                count('sat', dt); res['reach'] = True
                if not any(s_['label'] == label for s_ in res['sat']): res['sat'].append({'label': label, 'prop': prop, 'model': sym.model_to_dict(m)})
            elif v == 'unsat': count('unsat', dt)
            else: count('unknown', dt); res['unknown'].append(label)
            bump(label); return
        res['errors'].append('path ended with %s: %s' % (kind, val))
    t0 = time.time()
    st_ = sym.explore(run_one, on_path=on_path, max_paths=200)
    if st_['budget']: res['errors'].append('path budget exhausted')
    res['wall'] = round(time.time() - t0, 1)
    return res

# ---------------------------------------------------------------------------------- replay

def replay(cfg, model, label):
    import fractions
    from vp.pysym import loader, alg
    Wd = loader.load('conc', use_c=True, modules=('misc', 'coneprog', 'cvxprog'))
    A = alg.ConcAlg(rtol=1e-12, atol=0.0)
    cnt = [0]
    def mk(name, kind='real'):
        # distinct generic values per cell (the model of a trivial identity is arbitrary; distinctness is what matters)
        v = model.get(name)
        cnt[0] += 1
        base = 1.0 + 0.37*cnt[0]
        if v is not None:
            try: base = float(fractions.Fraction(v)) + 0.001*cnt[0]
            except Exception: pass
        return base
    cap = {}
    try:
        run_block(cfg, Wd, A, mk, lambda p_: None, cap)
    except _Done:
        bad = [l for (_, l, g) in block_claims(A, cfg, cap) if not g]
        ux = cap['user_x0']
        if [ux[j] for j in range(len(ux))] != cap['user_x0_before']:
            bad.append('%s: the block writes into the start point returned by F()' % cfg['block'])
        return {'precond_ok': True, 'outcome': 'block executed', 'violated': bad}
    except Cut as e:
        return {'precond_ok': True, 'outcome': 'cut: %s' % e}
    except Exception as e:
        return {'precond_ok': True, 'outcome': 'exception', 'violated': ['%s: %s raised inside the block: %s' % (cfg['block'], type(e).__name__, str(e)[:80])]}
    return {'precond_ok': True, 'outcome': 'returned'}

def replay_on_build(path):
    from vp import common
    r = common.run_conc(['-m', 'vp.checks.c10_save', '--replay-conc', path])
    if r.returncode != 0: return None, 'replay process failed: ' + r.stderr[-300:]
    try: dd = json.loads(r.stdout.strip().splitlines()[-1])
    except Exception: return None, 'unparsable replay output'
    if dd.get('violated'): return '%s' % (dd['violated'][:3],), None
    return None, 'not reproduced (%s)' % dd.get('outcome')

def finding_key(cfg, label):
    return 'cpl:saved-state:%s' % re.sub(r'[^A-Za-z0-9]+', '-', label)[:70].strip('-')

if __name__ == '__main__':
    if len(sys.argv) >= 3 and sys.argv[1] == '--replay-conc':
        dd = json.load(open(sys.argv[2]))
        print(json.dumps(replay(dd['cfg'], dd['model'], dd.get('label'))))
