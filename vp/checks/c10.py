"""C10 - numerical failures inside a solve are contained and reported as documented.

Engine P, fault enumeration decided by the solver: the real conelp / coneqp sources run with
a user KKT solver stub that raises ArithmeticError at a chosen call (factor call #i or solve
call #j, counted over the whole run); iterate, data, tolerances, iteration index and the
results of the non-failing KKT solves are symbolic.  Oracle: the only admissible outcomes
are ValueError('Rank(...)') during start-up / iteration 0, or a result dict with status
'unknown' whose fields are self-consistent and whose s, z are still in the cone; never
'optimal' on account of the failure, never another exception type.
"""
import json, sys, os, re, time
from vp.checks import conelp_h as H
from vp.oracles import cone as O
from vp.pysym.cut import Cut

DIMS_QUICK = [{'l': 1, 'q': [], 's': []}, {'l': 0, 'q': [2], 's': []}, {'l': 1, 'q': [], 's': [2, 2]}, {'l': 1, 'q': [2], 's': [2]}]
DIMS_THOROUGH = DIMS_QUICK + [{'l': 2, 'q': [2], 's': []}, {'l': 0, 'q': [], 's': [2]}]

def configs(tier):
    out = []
    box = DIMS_QUICK if tier == 'quick' else DIMS_THOROUGH
    for solver in ('conelp', 'coneqp'):
        for d in box:
            n, p = (2, 1)
            # start-up faults (no user start point): factor #1, solves #1, #2
            for site in (('factor', 1), ('solve', 1), ('solve', 2)):
                if solver == 'coneqp' and site == ('solve', 2): continue
                out.append({'solver': solver, 'dims': d, 'n': n, 'p': p, 'starts': 'none', 'fault': list(site), 'kclass': 'any', 'maxiters': 7})
            # in-loop faults from an arbitrary iterate, user start points given.  Solve calls of one
            # iteration: conelp #1 = auxiliary system (x1,y1,z1), #2/#3 = predictor/corrector;
            # coneqp #1/#2 = predictor/corrector.  The deeper sites need the body to be executed on
            # the arbitrary results of the earlier (stubbed) solves: restricted to the structures
            # for which that stays tractable (quick: 'l' only for the last site).
            last = 3 if solver == 'conelp' else 2
            simple = not d['q'] and not d['s']
            for kclass in ('k0', 'k1'):
                for site in [('factor', 1)] + [('solve', j) for j in range(1, last + 1)]:
                    if site[0] == 'solve' and site[1] == last and not simple: continue
                    if site[0] == 'solve' and site[1] >= 2 and d['s']: continue
                    out.append({'solver': solver, 'dims': d, 'n': n, 'p': p, 'starts': 'given', 'fault': list(site), 'kclass': kclass, 'maxiters': 7})
    # coneqp without inequalities: factor / solve of the direct solve
    for site in (('factor', 1), ('solve', 1)):
        out.append({'solver': 'coneqp', 'dims': {'l': 0, 'q': [], 's': []}, 'n': 2, 'p': 1, 'starts': 'none', 'fault': list(site), 'kclass': 'any', 'maxiters': 7})
    return out

# ---------------------------------------------------------------------------------- the fault-injecting KKT stub

def fresh_W(dims, mk, tagp):
    """arbitrary scaling dictionary of the right shape (validity is irrelevant to fault handling)"""
    def vec(nm, n): return [mk('%s%s%d' % (tagp, nm, i)) for i in range(n)]
    return {'d': vec('d', dims['l']), 'di': vec('di', dims['l']),
            'v': [vec('v%d_' % k, m) for k, m in enumerate(dims['q'])],
            'beta': [mk('%sbeta%d' % (tagp, k)) for k in range(len(dims['q']))],
            'r': [vec('r%d_' % k, m*m) for k, m in enumerate(dims['s'])],
            'rti': [vec('rti%d_' % k, m*m) for k, m in enumerate(dims['s'])]}

def W_to_matrices(Wd, dims, Wv):
    M = Wd.matrix
    def mat(v, size): return M(list(v), size, 'd') if size[0]*size[1] else M(0.0, size)
    return {'d': mat(Wv['d'], (dims['l'], 1)), 'di': mat(Wv['di'], (dims['l'], 1)),
            'v': [mat(v, (len(v), 1)) for v in Wv['v']], 'beta': list(Wv['beta']),
            'r': [mat(r, (m, m)) for r, m in zip(Wv['r'], dims['s'])],
            'rti': [mat(r, (m, m)) for r, m in zip(Wv['rti'], dims['s'])]}

def run_fault(cfg, Wd, A, mk, assume, cap):
    """Runs the real solver under the fault plan.  Returns ('return', sol) / raises."""
    solver, dims, n, p = cfg['solver'], cfg['dims'], cfg['n'], cfg['p']
    N = H.N_of(dims)
    num = A.num
    M = Wd.matrix
    counts = {'factor': 0, 'solve': 0}
    site = tuple(cfg['fault'])
    cap['counts'] = counts
    def kkt(W):
        counts['factor'] += 1
        if site == ('factor', counts['factor']): raise ArithmeticError('injected factorization failure')
        def solve(x, y, z):
            counts['solve'] += 1
            c_ = counts['solve']
            if site == ('solve', c_): raise ArithmeticError('injected solve failure')
            for nm, m in (('x', x), ('y', y), ('z', z)):
                for i in range(len(m)): m[i] = mk('u%d%s%d' % (c_, nm, i))
        return solve
    misc = Wd.misc
    saved = (misc.compute_scaling, misc.update_scaling)
    def fake_compute_scaling(s, z, lmbda, dims_, mnl=None):
        for i in range(len(lmbda)):
            v = mk('lm%d' % i); assume(A.gt(num(v), A.const(0))); lmbda[i] = v
        return W_to_matrices(Wd, dims, fresh_W(dims, mk, 'W0'))
    def _cut(*a, **k): raise Cut('end of the iteration body')
    misc.compute_scaling = fake_compute_scaling; misc.update_scaling = _cut
    def havoc_extra(loc):
        if cfg['kclass'] != 'k1': return {}
        out = {'W': W_to_matrices(Wd, dims, fresh_W(dims, mk, 'W1'))}
        lm = loc['lmbda']
        for i in range(len(lm)):
            v = mk('lm%d' % i); assume(A.gt(num(v), A.const(0))); lm[i] = v
        if solver == 'conelp':
            dg = mk('dg'); assume(A.gt(num(dg), A.const(0)))
            dgi = H.wrap_num(Wd, A.const(1)/num(dg)) if Wd.mode == 'sym' else 1.0/dg
            def vec(nm, k): return M([mk('%s%d' % (nm, i)) for i in range(k)], (k, 1), 'd') if k else M(0.0, (0, 1))
            out.update(dg=dg, dgi=dgi, x1=vec('x1_', n), y1=vec('y1_', p), z1=vec('z1_', N), th=vec('th_', N))
        return out
    cap['havoc_extra'] = havoc_extra
    # iteration class: k0 -> k == 0, k1 -> k >= 1 (and < maxiters so that the budget exit is not taken)
    kc = {'k0': 'eq0', 'k1': 'ge1', 'any': None}[cfg['kclass']]
    cfg2 = dict(cfg); cfg2['kclass'] = None
    cap['kpre'] = kc
    try:
        if solver == 'conelp':
            d, sol = run_conelp_fault(cfg2, Wd, A, mk, assume, cap, kkt)
        else:
            d, sol = run_coneqp_fault(cfg2, Wd, A, mk, assume, cap, kkt)
    finally:
        misc.compute_scaling, misc.update_scaling = saved
    return d, sol

def _kclass_assume(cap, A, k, maxiters, assume):
    kc = cap.get('kpre')
    if kc == 'eq0': assume(A.eq(A.num(k), A.const(0)))
    elif kc == 'ge1':
        assume(A.ge(A.num(k), A.const(1))); assume(A.lt(A.num(k), A.const(maxiters)))

def run_conelp_fault(cfg, Wd, A, mk, assume, cap, kkt):
    dims, n, p = cfg['dims'], cfg['n'], cfg['p']
    N = H.N_of(dims)
    d = H.make_data(cfg, mk)
    c, G, h, Am, b = H.to_matrices(Wd, cfg, d)
    feastol, abstol, reltol = mk('feastol'), mk('abstol'), mk('reltol')
    num = A.num
    assume(A.gt(num(feastol), A.const(0)))
    assume(A.or_(A.gt(num(abstol), A.const(0)), A.gt(num(reltol), A.const(0))))
    cap['opts'] = {'feastol': num(feastol), 'abstol': num(abstol), 'reltol': num(reltol)}
    maxiters = cfg.get('maxiters', 7); cap['maxiters'] = maxiters
    opts = {'show_progress': False, 'feastol': feastol, 'abstol': abstol, 'reltol': reltol, 'maxiters': maxiters, 'refinement': 0}
    M = Wd.matrix
    e = H.e_vector(dims)
    if cfg['starts'] == 'given':
        ps = {'x': M(0.0, (n, 1)), 's': M(e, (N, 1), 'd')}
        ds = {'y': M(0.0, (p, 1)), 'z': M(e, (N, 1), 'd')}
    else:
        ps = ds = None
    H.install_hooks(Wd, cfg, A, mk, assume, cap)
    inner = Wd.coneprog.__dict__['__vp_iters__']
    def vp_iters(stop):
        if cfg['starts'] == 'none':
            raise Cut('start-up finished without the injected failure being reached')
        g = inner(stop)
        k = next(g)
        _kclass_assume(cap, A, k, maxiters, assume)
        yield k
        raise Cut('second iteration')
    Wd.coneprog.__dict__['__vp_iters__'] = vp_iters
    sol = Wd.coneprog.conelp(c, G, h, dims, Am, b, primalstart=ps, dualstart=ds, kktsolver=kkt, options=opts)
    return d, sol

def run_coneqp_fault(cfg, Wd, A, mk, assume, cap, kkt):
    from vp.checks import c03
    dims, n, p = cfg['dims'], cfg['n'], cfg['p']
    # reuse c03.run_coneqp's data/hook construction but with our kkt and initvals policy
    cfg3 = dict(cfg); cfg3['shortcut'] = False
    saved_run = None
    N = H.N_of(dims)
    num = A.num
    d = c03.make_data(cfg, mk)
    M = Wd.matrix
    def mat(vals, size): return M(list(vals), size, 'd') if size[0]*size[1] else M(0.0, size)
    P = mat(d['P'], (n, n)); q = mat(d['q'], (n, 1)); G = mat(d['G'], (N, n)); h = mat(d['h'], (N, 1))
    Am = mat(d['A'], (p, n)); b = mat(d['b'], (p, 1))
    feastol, abstol, reltol = mk('feastol'), mk('abstol'), mk('reltol')
    assume(A.gt(num(feastol), A.const(0)))
    assume(A.or_(A.gt(num(abstol), A.const(0)), A.gt(num(reltol), A.const(0))))
    cap['opts'] = {'feastol': num(feastol), 'abstol': num(abstol), 'reltol': num(reltol)}
    maxiters = cfg.get('maxiters', 7); cap['maxiters'] = maxiters
    opts = {'show_progress': False, 'feastol': feastol, 'abstol': abstol, 'reltol': reltol, 'maxiters': maxiters, 'refinement': 0}
    mod = Wd.coneprog
    from vp.pysym.loader import havoc_result
    def vp_iters(stop):
        if cfg['starts'] == 'none':
            raise Cut('start-up finished without the injected failure being reached')
        k = mk('k', 'int')
        assume(A.ge(num(k), A.const(0))); assume(A.lt(num(k), num(stop)))
        _kclass_assume(cap, A, k, maxiters, assume)
        cap['k'] = k
        yield k
        raise Cut('second iteration')
    def vp_havoc(which, loc, names):
        for nm in ('x', 'y', 's', 'z'):
            m = loc[nm]
            for i in range(len(m)): m[i] = mk('h%s%d' % (nm, i))
        s = [num(loc['s'][i]) for i in range(len(loc['s']))]
        z = [num(loc['z'][i]) for i in range(len(loc['z']))]
        assume(O.in_cone(A, s, dims, 0, strict=True)); assume(O.in_cone(A, z, dims, 0, strict=True))
        cap['havoc'] = {'s': s, 'z': z}
        vals = {'gap': H.wrap_num(Wd, O.sdot(A, s, z, dims, 0))}
        vals.update(cap['havoc_extra'](loc))
        return havoc_result(loc, names, vals)
    def vp_ret(val, loc):
        cap['locals'] = dict(loc); return val
    mod.__dict__['__vp_iters__'] = vp_iters; mod.__dict__['__vp_havoc__'] = vp_havoc; mod.__dict__['__vp_ret__'] = vp_ret
    sol = mod.coneqp(P, q, G, h, dims, Am, b, initvals=({} if cfg['starts'] == 'given' else None), kktsolver=kkt, options=opts)
    return d, sol

def generic_pins(names, cfg, seed_, free=None):
    """complete concrete assignment used to anchor counterexample search: interior iterate,
    generic small-integer data, tolerances 1e-9 (so that no exit test fires), everything else 1"""
    import z3, random
    from fractions import Fraction as Fr
    dims = cfg['dims']
    rnd = random.Random(31*seed_ + 7)
    def interior(shift):
        v = [Fr(1 + shift + i) for i in range(dims['l'])]
        for m in dims['q']: v += [Fr(m + 1 + shift)] + [Fr(1)]*(m - 1)
        for m in dims['s']:
            for j in range(m):
                for i in range(m): v.append(Fr(m + 1 + shift + i) if i == j else Fr(1))
        return v
    s_, z_ = interior(1 + seed_), interior(seed_)
    out = []
    for nme in sorted(names):
        if nme.startswith('sq!') or nme.startswith('osq!'): continue
        if free is not None and re.match(free, nme): continue
        if nme == 'k':
            out.append(z3.Int('k') == (0 if cfg['kclass'] == 'k0' else 1)); continue
        m_ = re.match(r'^h([sz])(\d+)$', nme)
        if nme in ('feastol', 'abstol', 'reltol'): val = Fr(1, 10**9)
        elif m_: val = (s_ if m_.group(1) == 's' else z_)[int(m_.group(2))]
        elif re.match(r'^(c\d+|q\d+|P\d+_\d+|G\d+_\d+|h\d+|A\d+_\d+|b\d+|hx\d+|hy\d+)$', nme): val = Fr(rnd.choice([-3, -2, -1, 1, 2, 3]))
        else: val = Fr(1 + (seed_ % 2))
        out.append(z3.Real(nme) == z3.RealVal(str(val)))
    return out

def generic_value(name, cfg, seed_):
    """concrete generic state for the witness search that backs up an undecided obligation (see main): interior iterate,
    generic small-integer data, tiny tolerances, iteration index by class, everything else positive"""
    import random
    dims = cfg['dims']
    def interior(shift):
        v = [1.0 + shift + i for i in range(dims['l'])]
        for m in dims['q']: v += [m + 1.0 + shift] + [1.0]*(m - 1)
        for m in dims['s']:
            for j in range(m):
                for i in range(m): v.append(m + 1.0 + shift + i if i == j else 1.0)
        return v
    if name == 'k': return 0 if cfg['kclass'] == 'k0' else 1
    m_ = re.match(r'^h([sz])(\d+)$', name)
    if m_: return (interior(1 + seed_) if m_.group(1) == 's' else interior(seed_))[int(m_.group(2))]
    if name in ('feastol', 'abstol', 'reltol'): return 1e-9
    rnd = random.Random('%s/%d' % (name, seed_))
    if re.match(r'^(c\d+|q\d+|G\d+_\d+|h\d+|A\d+_\d+|b\d+|hx\d+|hy\d+|u\d+[xyz]\d+)$', name): return float(rnd.choice([-3, -2, -1, 1, 2, 3]))
    m_ = re.match(r'^P(\d+)_(\d+)$', name)
    if m_: return 4.0 + seed_ if m_.group(1) == m_.group(2) else 1.0
    return 1.0 + 0.25*rnd.randint(0, 4)

# ---------------------------------------------------------------------------------- symbolic job

_WORLD = None
def _world():
    global _WORLD
    if _WORLD is None:
        from vp.pysym import loader
        _WORLD = loader.load('sym', modules=('misc', 'coneprog'))
    return _WORLD

def admissible_exception(cfg, e):
    return isinstance(e, ValueError) and str(e).startswith('Rank(')

def job(cfg):
    if cfg.get('part') == 'saveblock':
        from vp.checks import c10_save
        return c10_save.job(cfg)
    if cfg['solver'] == 'cpl':
        from vp.checks import c10_cpl
        return c10_cpl.job(cfg)
    import z3
    from vp.pysym import sym, prove, alg
    from vp.checks import c01
    Wd = _world()
    spec = c01.get_spec(cfg['solver'])
    tmo = int(cfg.get('_timeout_ms', 10000))
    res = {'paths': 0, 'outcomes': {}, 'obl': {'total': 0, 'unsat': 0, 'sat': 0, 'unknown': 0}, 'solver_s': 0.0,
           'sat': [], 'unknown': [], 'errors': [], 'samples': [], 'reach': False}
    state = {}
    def count(v, secs=0.0, n=1):
        res['obl']['total'] += n; res['obl'][v] += n; res['solver_s'] += secs
    def run_one():
        A = alg.SymAlg(); cap = {}
        state['A'], state['cap'] = A, cap
        def mk(name, kind='real'):
            return sym.SymInt(z3.Int(name)) if kind == 'int' else sym.SymReal(z3.Real(name))
        def assume(p_): sym.CTX.assume(p_)
        return run_fault(cfg, Wd, A, mk, assume, cap)
    def bump(k): res['outcomes'][k] = res['outcomes'].get(k, 0) + 1
    def on_path(kind, val, ctx):
        res['paths'] += 1
        A, cap = state['A'], state['cap']
        pc = list(ctx.pc)
        injected = (cap.get('counts', {}).get(cfg['fault'][0], 0) >= cfg['fault'][1])
        if kind == 'cut':
            bump('cut (fault not reached on this path)'); return
        if kind == 'exception':
            if admissible_exception(cfg, val):
                # admissible only during start-up or at iteration 0
                if cfg['starts'] == 'none' or cfg['kclass'] == 'k0':
                    bump('ValueError(Rank...)'); count('unsat'); res['reach'] = res['reach'] or injected; return
                label = "ValueError('Rank...') raised after the first iteration"
            elif isinstance(val, ArithmeticError) and 'injected' in str(val):
                label = 'ArithmeticError escapes %s: %s' % (cfg['solver'], str(val)[:80])
            else:
                # e.g. math domain errors in the numeric body fed with the arbitrary results of the
                # stubbed KKT solves: an artefact of the over-approximating stub, outside the claim
                bump('other exception in the numeric body under the arbitrary-solve stub (outside the claim)'); return
            if any(s_['label'] == label for s_ in res['sat']):
                bump(label + ' (further paths, not re-modelled)'); return
            if state.setdefault('undecided', {}).get(label, 0) >= 3:
                bump(label + ' (undecided budget exhausted)'); return
            # anchored search first: a designed generic state (interior iterate, generic data, tiny
            # tolerances so that the exit block is passed) pinned completely - instant if this is its path
            names = set()
            for f in pc: names |= sym.consts_of(f)
            v = 'unknown'
            for seed_ in range(2):
                pins = generic_pins(names, cfg, seed_)
                v, m, dt = sym.check(pc + pins, 3000, want_model=True)
                if v == 'sat': break
                # same anchor, results of the stubbed KKT solves left free
                pins2 = generic_pins(names, cfg, seed_, free=r'^u\d+[xyz]\d+$')
                v, m, dt = sym.check(pc + pins2, 3000, want_model=True)
                if v == 'sat': break
            if v != 'sat':
                # defer the unanchored exact query to the end of the exploration
                pend = state.setdefault('pending', {}).setdefault(label, [])
                if len(pend) < 3: pend.append(list(pc))
                bump(label + ' (no anchored model on this path)'); return
            if v == 'unsat': count('unsat', dt); bump('infeasible exception path'); return
            if v == 'sat':
                count('sat', dt); bump(label); res['reach'] = True
                res['sat'].append({'label': label, 'model': sym.model_to_dict(m)})
            else:
                state['undecided'][label] = state['undecided'].get(label, 0) + 1
                count('unknown', dt); res['unknown'].append(label)
            return
        if kind != 'return':
            res['errors'].append('path ended with %s: %s' % (kind, val)); return
        d, sol = val
        st = sol['status']
        bump("returned '%s'%s" % (st, '' if injected else ' (before the fault)'))
        if not injected: return          # exit-block return before the injected failure: C01/C03's business
        res['reach'] = True
        if st != 'unknown':
            v, m, dt = sym.check(pc, tmo, want_model=True)
            label = "status '%s' returned after the injected failure" % st
            if v == 'sat':
                count('sat', dt)
                if not any(s_['label'] == label for s_ in res['sat']): res['sat'].append({'label': label, 'model': sym.model_to_dict(m)})
            elif v == 'unsat': count('unsat', dt)
            else: count('unknown', dt); res['unknown'].append(label)
            return
        count('unsat')           # status is 'unknown' (syntactic)
        dn = {key: [A.num(e) for e in v] for key, v in d.items()}
        ores = spec.residuals(A, cfg, dn, sol)
        k, maxit = cap['k'], cap['maxiters']
        full = spec.claims(A, cfg, dn, sol, spec.norms_from_res(A, cfg, dn, ores, st), cap['opts'], k, maxit)
        hv = cap.get('havoc')
        claims_ = [(label, goal) for (prop, label, goal, group) in full
                   if 'iterations==maxiters' not in label and group != 'abstract']
        # (residual-field recomputation - the 'abstract' group - is decided under C01/C03: same code path)
        for nm in ('s', 'z'):
            claims_.append(("unknown(fault): %s strictly inside the cone" % nm,
                            O.in_cone(A, H.vec_of(A, sol[nm]), cfg['dims'], 0, strict=True)))
        names = None
        for (label, goal) in claims_:
            if any(s_['label'] == label for s_ in res['sat']): continue
            r = prove.prove(goal, pc, A.side, min(tmo, 3000), fallback=False, full_query=False)
            if r['verdict'] == 'unsat':
                count('unsat', r['secs']); continue
            # not proved from the sliced hypotheses: anchored counterexample search, else defer
            if names is None:
                names = set()
                for f in pc: names |= sym.consts_of(f)
            got = None
            for seed_ in range(2):
                v, m, dt = sym.check(pc + list(A.side) + generic_pins(names, cfg, seed_) + [z3.Not(goal)], 3000, want_model=True)
                if v == 'sat': got = m; break
            if got is None:
                # same anchors with the problem data and the tolerances left to the solver (the path may need particular signs of the costs)
                for seed_ in range(2):
                    v, m, dt = sym.check(pc + list(A.side) + generic_pins(names, cfg, seed_, free=r'^(c\d+|q\d+|P\d+_\d+|h\d+|b\d+|feastol|abstol|reltol|u\d+[xyz]\d+)$') + [z3.Not(goal)], 5000, want_model=True)
                    if v == 'sat': got = m; break
            if got is not None:
                count('sat', r['secs']); res['sat'].append({'label': label, 'model': sym.model_to_dict(got)})
            else:
                pend = state.setdefault('pending_claims', {}).setdefault(label, [])
                if len(pend) < 2: pend.append((list(pc) + list(A.side), goal))
        if len(res['samples']) < 1:
            res['samples'].append({'fault': cfg['fault'], 'outcome': "returned 'unknown'", 'claims': [l for _, l, _, g_ in full if g_ != 'abstract'][:5]})
    t0 = time.time()
    st_ = sym.explore(run_one, on_path=on_path, max_paths=int(cfg.get('_max_paths', 4000)))
    if st_['budget']: res['errors'].append('path budget exhausted')
    for label, items in state.get('pending_claims', {}).items():
        if any(s_['label'] == label for s_ in res['sat']): continue
        for (hyp, goal) in items:
            v, m, dt = sym.check(hyp + [z3.Not(goal)], tmo, want_model=True)
            if v == 'sat':
                count('sat', dt); res['sat'].append({'label': label, 'model': sym.model_to_dict(m)}); break
            if v == 'unsat': count('unsat', dt)
            else:
                count('unknown', dt); res['unknown'].append(label); break
    for label, pcs in state.get('pending', {}).items():
        if any(s_['label'] == label for s_ in res['sat']): continue
        verdicts = []
        for pc_ in pcs:
            v, m, dt = sym.check(pc_, tmo, want_model=True)
            verdicts.append(v)
            if v == 'sat':
                count('sat', dt); res['reach'] = True; res['sat'].append({'label': label, 'model': sym.model_to_dict(m)}); break
            count('unsat' if v == 'unsat' else 'unknown', dt)
        if 'sat' not in verdicts and 'unknown' in verdicts: res['unknown'].append(label)
    res['wall'] = round(time.time() - t0, 1)
    return res

# ---------------------------------------------------------------------------------- replay

def replay(cfg, model):
    import fractions
    from vp.pysym import loader, alg
    from vp.checks import c01
    Wd = loader.load('conc', use_c=True, modules=('misc', 'coneprog'))
    A = alg.ConcAlg()
    def val(name):
        v = model.get(name)
        if v is None: return generic_value(name, cfg, int(model.get('__seed__', 0))) if '__seed__' in model else 1.0
        try: return float(fractions.Fraction(v))
        except Exception: return float(v)
    def mk(name, kind='real'):
        return int(round(val(name))) if kind == 'int' else val(name)
    pre = []
    def assume(p_): pre.append(bool(p_))
    cap = {}
    try:
        d, sol = run_fault(cfg, Wd, A, mk, assume, cap)
    except Cut:
        return {'precond_ok': all(pre), 'outcome': 'cut'}
    except Exception as e:
        if admissible_exception(cfg, e) and (cfg['starts'] == 'none' or cfg['kclass'] == 'k0'):
            return {'precond_ok': all(pre), 'outcome': 'admissible ValueError'}
        return {'precond_ok': all(pre), 'outcome': 'escaped', 'violated': ['%s escapes %s: %s' % (type(e).__name__, cfg['solver'], str(e)[:80])]}
    injected = cap['counts'][cfg['fault'][0]] >= cfg['fault'][1]
    if not injected: return {'precond_ok': all(pre), 'outcome': 'returned before fault'}
    if sol['status'] != 'unknown':
        return {'precond_ok': all(pre), 'outcome': 'returned', 'violated': ["status '%s' returned after the injected failure" % sol['status']]}
    spec = c01.get_spec(cfg['solver'])
    dn = {key: [A.num(e) for e in v] for key, v in d.items()}
    ores = spec.residuals(A, cfg, dn, sol)
    cl = spec.claims(A, cfg, dn, sol, spec.norms_from_res(A, cfg, dn, ores, 'unknown'), cap['opts'], cap['k'], cap['maxiters'])
    bad = [l for (_, l, g, grp) in cl if not g and 'iterations==maxiters' not in l]
    for nm in ('s', 'z'):
        if not O.in_cone(A, H.vec_of(A, sol[nm]), cfg['dims'], 0, strict=True): bad.append('unknown(fault): %s strictly inside the cone' % nm)
    return {'precond_ok': all(pre), 'outcome': 'returned unknown', 'violated': bad}

def replay_on_build(path):
    from vp import common
    r = common.run_conc(['-m', 'vp.checks.c10', '--replay-conc', path])
    if r.returncode != 0: return None, 'replay process failed: ' + r.stderr[-300:]
    try: dd = json.loads(r.stdout.strip().splitlines()[-1])
    except Exception: return None, 'unparsable replay output'
    if dd.get('precond_ok') and dd.get('violated'):
        return '%s' % (dd['violated'][:3],), None
    return None, 'not reproduced (%s)' % dd.get('outcome')

def replay_main(path):
    cfg_ = json.load(open(path)).get('cfg', {})
    if cfg_.get('part') == 'saveblock':
        from vp.checks import c10_save
        rep, why = c10_save.replay_on_build(path)
    elif cfg_.get('solver') == 'cpl':
        from vp.checks import c10_cpl
        rep, why = c10_cpl.replay_on_build(path)
    else:
        rep, why = replay_on_build(path)
    if rep: print('REPRODUCED on the real build: %s' % rep); return 1
    print(why); return 0

def finding_key(cfg, label):
    lab = re.sub(r'[^A-Za-z]+', '-', label.split(':')[0])[:60]
    return '%s:%s#%d:%s:%s' % (cfg['solver'], cfg['fault'][0], cfg['fault'][1], cfg['starts'], lab)

def main(tier):
    from vp import common
    from vp.pysym import loader
    ev = common.Evidence('C10', 'fault_enumeration', tier)
    from vp.checks import c10_cpl, c10_save
    cfgs = configs(tier) + c10_cpl.configs(tier) + c10_save.configs(tier)
    for c in cfgs: c['_timeout_ms'] = 10000 if tier == 'quick' else 60000
    results = common.run_jobs('vp.checks.c10', 'job', cfgs)
    known = common.known_findings('C10')
    violations, known_hits, herr, inconc = [], [], [], []
    paths = 0; outcomes = {}; reached = 0; seen = {}; slow = []
    for r in results:
        cfg = {k: v for k, v in r['cfg'].items() if not k.startswith('_')}
        if not r['ok']:
            herr.append('%s: %s' % (json.dumps(cfg), r['err'])); continue
        res = r['res']
        paths += res['paths']; slow.append((res['wall'], json.dumps(cfg)))
        for k_, v_ in res['outcomes'].items(): outcomes[k_] = outcomes.get(k_, 0) + v_
        for key in ('total', 'unsat', 'sat', 'unknown'): ev.obl[key] += res['obl'][key]
        ev.solver_s += res['solver_s']
        if res['reach']: reached += 1
        else: herr.append('%s: injected fault never reached (vacuous plan)' % json.dumps(cfg))
        for s_ in res['samples']: ev.sample(dict(s_, cfg=cfg), cap=5)
        for e in res['errors']: herr.append('%s: %s' % (json.dumps(cfg), e))
        for u in res['unknown']: inconc.append('%s: %s' % (json.dumps(cfg), u))
        for s in res['sat']:
            if s.get('prop', 'C10') != 'C10': continue          # C07-tagged obligations of the cpl harness are reported by the C07 check
            iscpl = cfg['solver'] == 'cpl'
            hmod = c10_save if cfg.get('part') == 'saveblock' else c10_cpl
            key = hmod.finding_key(cfg, s['label']) if iscpl else finding_key(cfg, s['label'])
            if key in seen: seen[key] += 1; continue
            seen[key] = 1
            rp = common.write_replay('C10', json.dumps(cfg, sort_keys=True) + s['label'],
                                     {'property': 'C10', 'cfg': cfg, 'label': s['label'], 'model': s['model']})
            rep, why = hmod.replay_on_build(rp) if iscpl else replay_on_build(rp)
            if rep is None:
                herr.append('%s: counterexample for "%s" %s (%s)' % (json.dumps(cfg), s['label'], why, rp))
            elif key in known: known_hits.append((key, known[key]['what']))
            else: violations.append((key, rp, '%s -> %s' % (json.dumps(cfg), rep)))
    # ---- witness search for undecided obligations of the conelp/coneqp plans: the same harness on the real build from a few
    # generic concrete states; a reproduced violation is reported as such (it is one), an obligation without witness stays inconclusive
    still = []
    tried = {}
    for item in inconc:
        try: cfg = json.loads(item[:item.index('}: ') + 1]); label = item[item.index('}: ') + 3:]
        except Exception: still.append(item); continue
        if cfg.get('solver') == 'cpl' or cfg.get('part'): still.append(item); continue
        ck = json.dumps(cfg, sort_keys=True)
        if ck not in tried:
            tried[ck] = None
            for seed_ in range(4):
                rp = common.write_replay('C10', ck + 'witness%d' % seed_, {'property': 'C10', 'cfg': cfg, 'label': label, 'model': {'__seed__': seed_}})
                rep, why = replay_on_build(rp)
                if rep is not None: tried[ck] = (rp, rep); break
        if tried[ck] is None: still.append(item); continue
        key = finding_key(cfg, label)
        if key in seen: continue
        seen[key] = 1
        rp, rep = tried[ck]
        if key in known: known_hits.append((key, known[key]['what']))
        else: violations.append((key, rp, '%s -> %s (witness found by concrete search after the solver did not decide)' % (json.dumps(cfg), rep)))
    inconc = still
    # one KNOWN-FINDING line per listed key
    kh = {}
    for k_, t_ in known_hits: kh[k_] = t_
    known_hits = sorted(kh.items())
    ev.extra['sat_by_key'] = seen
    ev.extra['slowest_jobs'] = sorted(slow, reverse=True)[:5]
    ev.cov.update({'evaluations': len(cfgs), 'distinct_nontrivial': reached,
                   'rule': 'one fault plan = (solver, cone structure, start-point mode, failing call (factor #i | solve #j), iteration class k=0 | 1<=k<maxiters); non-trivial = the injected failure is reached on at least one explored path; within a plan all data, iterate, tolerances, k and the results of the non-failing KKT solves are solver variables',
                   'paths': paths, 'outcomes': outcomes,
                   'functions_encoded': ['coneprog.conelp', 'coneprog.coneqp (incl. no-inequality shortcut)', 'cvxprog.cpl (factorisation failure at an arbitrary iteration, restore-and-retry path, user F a memoised symbolic stub)',
                                         'cvxprog.cpl: the save / restore / resume statement blocks of the relaxed line search (taken from the AST, run in cpl\'s own local namespace)'],
                   'source_hash': loader.src_hash(['coneprog', 'cvxprog', 'misc']),
                   'bounds': 'fault at factor call #1 or solve call #1..#3 of the run; cone structures %s; n=2, p=1; refinement=0; scaling W arbitrary (compute_scaling/update_scaling stubbed)' % json.dumps(DIMS_QUICK if tier == 'quick' else DIMS_THOROUGH)})
    ev.assumptions += ['loop invariant at the head of the iteration in which the fault occurs (tau,kappa>0; gap=<s,z>/tau^2; s,z interior)',
                       'non-failing KKT solves return arbitrary vectors; the scaling handed to the KKT solver is an arbitrary dictionary of the right shape',
                       'cpl: fault at the in-loop factorisation call (and at the retry); the saved state of the relaxed line search satisfies its invariant iff relaxed_iters >= 1 (the only situation in which cpl has written it), otherwise it is arbitrary; failures of the solves inside f4 and the domain backtracking of the line search are not covered',
                       'exact real arithmetic']
    return common.finish(ev, violations, known_hits, herr, inconc)

if __name__ == '__main__':
    if len(sys.argv) >= 3 and sys.argv[1] == '--replay-conc':
        dd = json.load(open(sys.argv[2]))
        print(json.dumps(replay(dd['cfg'], dd['model'])))
