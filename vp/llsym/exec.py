"""Engine L: symbolic executor for the clang -O0 LLVM IR of cvxopt's C extension.

Integers are z3 Ints with explicit wrap-around (r = v - 2^w k, range-constrained; k != 0 is
recorded as an overflow event), doubles are z3 Reals, pointers are (region, byte offset).
Control flow is explored depth-first with one incremental solver; a branch is followed
unless the solver refutes it (unknown = followed).  CPython API, cvxopt_API and libc calls
are contract stubs (listed in STUBS); external BLAS/LAPACK calls are not executed but
recorded as events with their actual arguments - they are the assertion points.
"""
import re, time
import z3
from .ir import parse_type, split_top, IRError, T

class Ptr(object):
    __slots__ = ('region', 'off')
    def __init__(self, region, off=0): self.region, self.off = region, off
    def __repr__(self): return 'Ptr(%s+%s)' % (self.region, self.off)
NULL = Ptr(None, 0)

class PathEnd(Exception):
    pass
class PathStop(Exception):
    pass
class Unsupported(Exception):
    pass

def is_conc(v): return isinstance(v, int) and not isinstance(v, bool)

def simp_int(v):
    if is_conc(v): return v
    s = z3.simplify(v)
    if z3.is_int_value(s): return s.as_long()
    return s

def exact_div(t, d):
    """t / d for an integer term that is syntactically a multiple of d (sums, products with constants, ite); None otherwise"""
    if is_conc(t): return t // d if t % d == 0 else None
    t = z3.simplify(t)
    if z3.is_int_value(t):
        v = t.as_long(); return v // d if v % d == 0 else None
    k = t.decl().kind()
    if k == z3.Z3_OP_ADD:
        parts = [exact_div(c, d) for c in t.children()]
        if any(p is None for p in parts): return None
        r = parts[0]
        for p in parts[1:]: r = r + p
        return r
    if k == z3.Z3_OP_SUB:
        parts = [exact_div(c, d) for c in t.children()]
        if any(p is None for p in parts): return None
        r = parts[0]
        for p in parts[1:]: r = r - p
        return r
    if k == z3.Z3_OP_UMINUS:
        q = exact_div(t.arg(0), d); return None if q is None else -q
    if k == z3.Z3_OP_MUL:
        ch = t.children()
        for i, c in enumerate(ch):
            if z3.is_int_value(c) and c.as_long() % d == 0:
                r = z3.IntVal(c.as_long() // d)
                for j, c2 in enumerate(ch):
                    if j != i: r = r * c2
                return r
        for i, c in enumerate(ch):
            q = exact_div(c, d) if not z3.is_int_value(c) else None
            if q is not None:
                r = q
                for j, c2 in enumerate(ch):
                    if j != i: r = r * c2
                return r
        return None
    if k == z3.Z3_OP_ITE:
        a, b = exact_div(t.arg(1), d), exact_div(t.arg(2), d)
        if a is None or b is None: return None
        return z3.If(t.arg(0), a, b)
    return None

class Event(object):
    def __init__(self, name, args): self.name, self.args = name, args
    def __repr__(self): return 'Event(%s)' % self.name

class State(object):
    def __init__(self):
        self.mem = {}; self.regs = {}; self.pc = []; self.ovf = []; self.events = []
        self.exc = None; self.notes = []; self.writes = []   # writes into matrix buffers
        self.block = None; self.prev = None
        self.fn = None; self.ip = 0; self.frames = []; self.visits = {}; self.inv = 0    # call stack for inlined internal functions
        self.known = {}                                       # concretised terms: ast id -> int (see Executor.concretize)
        self.divz = []                                        # (divisor == 0, len(pc)) of every division by a symbolic divisor
        self.acc = []                                         # accesses to array regions: (name, index term, 'r'/'w', len(pc))
    def clone(self):
        s = State()
        s.mem = dict(self.mem); s.regs = dict(self.regs); s.pc = list(self.pc); s.ovf = list(self.ovf)
        s.events = list(self.events); s.exc = self.exc; s.notes = list(self.notes); s.writes = list(self.writes)
        s.block, s.prev = self.block, self.prev
        s.fn, s.ip, s.visits, s.inv = self.fn, self.ip, dict(self.visits), self.inv
        s.frames = [dict(f, regs=dict(f['regs']), visits=dict(f['visits'])) for f in self.frames]
        s.acc = list(self.acc); s.divz = list(self.divz); s.known = dict(self.known)
        return s

class Executor(object):
    def __init__(self, mod, scenario, max_paths=3000, branch_timeout_ms=1500, loop_bound=3):
        self.mod, self.sc = mod, scenario
        self.solver = z3.Solver(); self.solver.set('timeout', branch_timeout_ms)
        self.fresh_n = 0
        self.paths = []          # finished paths: dict
        self.max_paths = max_paths
        self.stats = {'branch_queries': 0, 'unknown_branches': 0, 'instructions': 0}
        self.loop_bound = loop_bound
        self.aliases = {}        # product aliases  (id(term a), id(term b)) -> term
        self.math_ints = False   # kernel mode: machine integers as mathematical integers + 'does not fit' events (checked per path)
        self.fmul = None         # optional hook: floating multiplication as an uninterpreted function (kernel scenarios, see scen_kernel.fm)
        self.inline = set()      # names of internal functions executed inline (call stack in the state)
        self.inv_n = 0
        self.keep = []           # keep z3 terms alive (ids are used as keys)
        self.decide_hook = None  # optional: symbolic branch conditions are decided by an outer explorer (engine P) instead of forking here

    # ---------------------------------------------------------------- helpers
    def fresh(self, base, sort='int'):
        self.fresh_n += 1
        nm = '%s!%d' % (base, self.fresh_n)
        return z3.Int(nm) if sort == 'int' else (z3.Real(nm) if sort == 'real' else z3.Bool(nm))

    def assume(self, st, f):
        st.pc.append(f); self.solver.add(f)

    def wrap(self, st, v, bits, signed=True):
        v = simp_int(v)
        M = 1 << bits
        if is_conc(v):
            r = v % M
            if signed and r >= M//2: r -= M
            return r
        lo, hi = (-(M//2), M//2) if signed else (0, M)
        if self.math_ints:
            st.ovf.append(z3.Or(v < lo, v >= hi)); return v
        # bounded syntactic ranges are not tracked: always introduce the wrap variable
        r, k = self.fresh('w'), self.fresh('k')
        self.assume(st, r == v - M*k); self.assume(st, r >= lo); self.assume(st, r < hi)
        st.ovf.append(k != 0)
        return r

    def tdiv(self, a, b):
        """C division (truncation toward zero) on ints"""
        if is_conc(a) and is_conc(b):
            if b == 0: raise Unsupported('division by zero')
            q = abs(a)//abs(b); return q if (a >= 0) == (b > 0) else -q
        a_, b_ = (z3.IntVal(a) if is_conc(a) else a), (z3.IntVal(b) if is_conc(b) else b)
        absa = z3.If(a_ >= 0, a_, -a_); absb = z3.If(b_ >= 0, b_, -b_)
        q = absa / absb
        return z3.If((a_ >= 0) == (b_ > 0), q, -q)

    # ---------------------------------------------------------------- operand evaluation
    def const_init(self, gname):
        g = self.mod.globals.get(gname)
        if g is None: raise Unsupported('unknown global ' + gname)
        return g

    def cstring(self, ptr):
        """python string of a constant C string global"""
        if not isinstance(ptr, Ptr) or not str(ptr.region).startswith('g:'): raise Unsupported('not a constant string pointer: %r' % (ptr,))
        t, init, _ = self.const_init(ptr.region[2:])
        m = re.match(r'c"(.*)"$', init or '')
        if not m: raise Unsupported('global %s is not a string' % ptr.region)
        raw = re.sub(r'\\([0-9A-Fa-f]{2})', lambda mm: chr(int(mm.group(1), 16)), m.group(1))
        off = ptr.off if is_conc(ptr.off) else 0
        return raw[off:].split('\0')[0]

    def eval_operand(self, st, ty, tok):
        tok = tok.strip()
        if tok.startswith('%'):
            if tok not in st.regs: raise Unsupported('undefined register ' + tok)
            return st.regs[tok]
        if tok.startswith('@'):
            if tok[1:] in self.mod.functions or tok[1:] in self.mod.declares: return Ptr('fn:' + tok[1:], 0)
            return Ptr('g:' + tok, 0)
        if tok in ('null', 'zeroinitializer') and ty.kind in ('ptr', 'func'): return NULL
        if tok == 'null': return NULL
        if tok in ('undef', 'poison'):
            return self.fresh('undef') if ty.kind == 'int' else (self.fresh('undef', 'real') if ty.kind in ('double', 'float') else NULL)
        if tok == 'true': return 1
        if tok == 'false': return 0
        if re.match(r'^-?\d+$', tok): return int(tok)
        if ty.kind in ('double', 'float'):
            import fractions
            if tok.startswith('0x'):
                import struct
                return z3.RealVal(str(fractions.Fraction(struct.unpack('>d', bytes.fromhex(tok[2:].rjust(16, '0')))[0])))     # the exact value of the double
            return z3.RealVal(str(fractions.Fraction(float(tok))))
        if tok.startswith('getelementptr'):
            inner = tok[tok.index('(') + 1: tok.rindex(')')]
            parts = split_top(inner)
            bt, _ = parse_type(parts[0])
            pt, j = parse_type(parts[1]); base = self.eval_operand(st, pt, parts[1][j:])
            idx = []
            for p in parts[2:]:
                it, j = parse_type(p); idx.append(self.eval_operand(st, it, p[j:]))
            return self.gep(bt, base, idx)
        if tok.startswith('bitcast') or tok.startswith('inttoptr') or tok.startswith('ptrtoint'):
            inner = tok[tok.index('(') + 1: tok.rindex(')')]
            src, _ = inner.rsplit(' to ', 1)
            stt, j = parse_type(src); return self.eval_operand(st, stt, src[j:])
        raise Unsupported('operand %r' % tok)

    def gep(self, base_ty, base, idx):
        if not isinstance(base, Ptr): raise Unsupported('gep on non-pointer')
        off = base.off
        ty = base_ty
        first = True
        for ix in idx:
            ix = simp_int(ix)
            if first:
                sz = self.mod.size_of(ty); off = off + ix*sz if not (is_conc(ix) and ix == 0) else off; first = False; continue
            ty = self.mod.resolve(ty)
            if ty.kind == 'struct':
                if not is_conc(ix): raise Unsupported('symbolic struct index')
                off = off + self.mod.field_offset(ty, ix); ty = ty.fields[ix]
            elif ty.kind == 'arr':
                sz = self.mod.size_of(ty.to); off = off + ix*sz; ty = ty.to
            else: raise Unsupported('gep into %r' % ty)
        return Ptr(base.region, simp_int(off) if not is_conc(off) else off)

    # ---------------------------------------------------------------- memory
    def load(self, st, ty, ptr):
        if not isinstance(ptr, Ptr) or ptr.region is None: raise Unsupported('load through null/unknown pointer')
        ty = self.mod.resolve(ty)
        off = simp_int(ptr.off)
        r = ptr.region
        if r.startswith('g:'):
            t, init, isconst = self.const_init(r[2:])
            if r == 'g:@cvxopt_API': return Ptr('api', 0)
            key = (r, off if is_conc(off) else str(off))
            if key in st.mem: return st.mem[key]
            if r[3:].startswith('PyExc_'): return Ptr('exc:' + r[3:], 0)
            if r[3:] in ('_Py_NoneStruct',): return Ptr('obj:None', 0)
            # constant tables (function pointer arrays, E_SIZE, ...)
            if init is None and hasattr(self.sc, 'external_load'): return self.sc.external_load(self, st, r, off, ty)
            return self.load_const(t, init, off, ty, r)
        if r == 'api':
            if not is_conc(off): raise Unsupported('symbolic cvxopt_API index')
            return Ptr('fn:api#%d' % (off//8), 0)
        if r.startswith('arr:'):
            return self.arr_load(st, r[4:], off, ty)
        if r.startswith('buf:'):
            # contents of matrix buffers are not modelled in the wrapper scenarios
            st.notes.append('read of matrix buffer %s at %s' % (r, off))
            return self.fresh('bufval', 'real' if ty.kind in ('double', 'float') else 'int')
        if not is_conc(off): raise Unsupported('symbolic offset %s into %s' % (off, r))
        key = (r, off)
        if key in st.mem: return st.mem[key]
        v = self.sc.initial_value(self, st, r, off, ty)
        if v is None:
            st.notes.append('uninitialised load %s+%d' % (r, off))
            v = NULL if ty.kind in ('ptr', 'func') else (self.fresh('uninit', 'real') if ty.kind in ('double', 'float') else self.fresh('uninit'))
        st.mem[key] = v
        return v

    def load_const(self, t, init, off, ty, r):
        t = self.mod.resolve(t)
        if init is None: raise Unsupported('load from external global ' + r)
        if t.kind == 'arr' and init.startswith('['):
            elems = split_top(init[1:-1])
            esz = self.mod.size_of(t.to)
            if not is_conc(off): raise Unsupported('symbolic index into constant table ' + r)
            e = elems[off//esz].strip()
            et, j = parse_type(e)
            return self.eval_operand(State(), et, e[j:])
        if init == 'zeroinitializer': return 0 if ty.kind == 'int' else (NULL if ty.kind in ('ptr', 'func') else z3.RealVal(0))
        if t.kind in ('int',) and re.match(r'^-?\d+$', init): return int(init)
        raise Unsupported('constant load from %s (%s)' % (r, init[:40]))

    def store(self, st, ty, val, ptr):
        if not isinstance(ptr, Ptr) or ptr.region is None: raise Unsupported('store through null/unknown pointer')
        off = simp_int(ptr.off)
        if ptr.region.startswith('arr:'):
            self.arr_store(st, ptr.region[4:], off, ty, val); return
        if ptr.region.startswith('buf:'):
            st.writes.append((ptr.region, off, self.mod.size_of(ty))); return
        if not is_conc(off): raise Unsupported('symbolic offset store into %s' % ptr.region)
        st.mem[(ptr.region, off)] = val

    # ---------------------------------------------------------------- array regions (kernel scenarios)
    def arr_index(self, name, off):
        """element index of a byte offset into a typed array region (exact division by the element size)"""
        esz = self.sc.arrays[name]['esz']
        if is_conc(off):
            if off % esz: raise Unsupported('misaligned access into array %s' % name)
            return off // esz
        q = exact_div(off, esz)
        if q is None: raise Unsupported('offset %s into array %s is not a multiple of %d' % (off, name, esz))
        return simp_int(q)
    def arr_load(self, st, name, off, ty):
        a = self.sc.arrays[name]
        if self.mod.size_of(ty) != a['esz']: raise Unsupported('access of width %d into array %s of element size %d' % (self.mod.size_of(ty), name, a['esz']))
        if (ty.kind in ('double', 'float')) != (a['kind'] == 'real'): raise Unsupported('type punning on array %s' % name)
        idx = self.arr_index(name, off)
        st.acc.append((name, idx, 'r', len(st.pc)))
        cur = st.mem.get(('arr', name), a['init'])
        v = z3.simplify(z3.Select(cur, idx))
        if a.get('concretize') and not z3.is_int_value(v): return self.concretize(st, v, a['concretize'])
        return v.as_long() if z3.is_int_value(v) else v

    def concretize(self, st, v, cap):
        """small-domain integer term (structure of a sparse matrix): fork over all values that are feasible under the path
        condition (found by the solver one by one; more than `cap` values -> unsupported).  Children re-execute the current
        instruction with the value fixed."""
        key = v.get_id()
        if key in st.known: return st.known[key]
        self.keep.append(v)
        vals = []
        self.solver.push()
        try:
            while True:
                self.stats['branch_queries'] += 1
                r = self.solver.check()
                if r == z3.unknown: raise Unsupported('concretisation: solver gave up')
                if r == z3.unsat: break
                val = self.solver.model().eval(v, model_completion=True).as_long()
                vals.append(val); self.solver.add(v != val)
                if len(vals) > cap: raise Unsupported('concretisation: more than %d feasible values' % cap)
        finally:
            self.solver.pop()
        if not vals:
            self.finish(st, 'infeasible'); raise PathStop()
        for val in vals[:-1]:
            child = st.clone()
            child.ip = st.ip - 1
            self.solver.push()
            self.assume(child, v == val); child.known[key] = val
            try: self.explore(child)
            finally: self.solver.pop()
            self.fn = st.fn
        self.assume(st, v == vals[-1]); st.known[key] = vals[-1]
        return vals[-1]
    def arr_store(self, st, name, off, ty, val):
        a = self.sc.arrays[name]
        if self.mod.size_of(ty) != a['esz']: raise Unsupported('access of width %d into array %s of element size %d' % (self.mod.size_of(ty), name, a['esz']))
        idx = self.arr_index(name, off)
        st.acc.append((name, idx, 'w', len(st.pc)))
        cur = st.mem.get(('arr', name), a['init'])
        if a['kind'] == 'real' and is_conc(val): val = z3.RealVal(val)
        st.mem[('arr', name)] = z3.Store(cur, idx, val)

    # ---------------------------------------------------------------- instruction step
    RE_ASSIGN = re.compile(r'^(%[\w.$-]+|%"[^"]*") = (.*)$')

    def run(self, fname, args, st=None):
        fn = self.mod.functions[fname]
        st = st or State()
        for (t, nm), a in zip(fn.params, args): st.regs[nm] = a
        st.block, st.prev = fn.order[0], None
        st.fn, st.ip, st.visits = fn, 0, {}
        self.fn = fn
        self.explore(st)
        return self.paths

    def finish(self, st, kind, retval=None, why=None):
        self.paths.append({'kind': kind, 'ret': retval, 'pc': st.pc, 'ovf': st.ovf, 'events': st.events, 'exc': st.exc,
                           'notes': st.notes, 'why': why, 'writes': st.writes, 'mem': st.mem, 'acc': st.acc, 'divz': st.divz})
        if len(self.paths) >= self.max_paths: raise PathEnd('path budget')

    def explore(self, st, visits=None):
        while True:
            fn = st.fn; self.fn = fn
            insts = fn.blocks[st.block]
            k = st.ip
            if st.ip == 0:
                vis = st.visits.get(st.block, 0) + 1
                st.visits = dict(st.visits); st.visits[st.block] = vis
                if vis > self.loop_bound + 1:
                    self.finish(st, 'loop-bound', why='block %s of %s visited more than %d times' % (st.block, fn.name, self.loop_bound)); return
                # phi nodes first (parallel)
                newvals = {}
                if st.prev == '__merged__':
                    while k < len(insts) and ' = phi ' in insts[k]: k += 1
                while k < len(insts) and ' = phi ' in insts[k]:
                    m = self.RE_ASSIGN.match(insts[k]); rest = m.group(2)[4:]
                    ty, j = parse_type(rest)
                    for inc in re.findall(r'\[\s*(.+?),\s*%([\w.$-]+)\s*\]', rest[j:]):
                        if inc[1] == st.prev: newvals[m.group(1)] = self.eval_operand(st, ty, inc[0]); break
                    else: raise Unsupported('phi without incoming edge from %s' % st.prev)
                    k += 1
                st.regs.update(newvals)
            nxt = None
            while k < len(insts):
                s = insts[k]; k += 1; st.ip = k
                self.stats['instructions'] += 1
                try:
                    nxt = self.step(st, s, st.visits)
                except PathStop:
                    return
                except Unsupported as e:
                    self.finish(st, 'unsupported', why='%s  [in %s: %s]' % (e, fn.name, s[:120])); return
                if nxt is not None: break
            if nxt == 'done': return
            if nxt == 'frame': continue            # entered or left an inlined function: st.fn / block / ip are set
            if nxt is None:
                self.finish(st, 'unsupported', why='block %s fell through' % st.block); return
            st.prev, st.block, st.ip = st.block, nxt, 0

    def branch(self, st, cond, visits, t_label, f_label):
        """cond: z3 Bool or python bool"""
        if isinstance(cond, bool) or is_conc(cond):
            return t_label if cond else f_label
        c = z3.simplify(cond)
        if z3.is_true(c): return t_label
        if z3.is_false(c): return f_label
        if self.decide_hook is not None:
            return t_label if self.decide_hook(c) else f_label
        outs = []
        for side, lab in ((c, t_label), (z3.Not(c), f_label)):
            self.stats['branch_queries'] += 1
            self.solver.push(); self.solver.add(side)
            r = self.solver.check()
            self.solver.pop()
            if r == z3.unknown: self.stats['unknown_branches'] += 1
            if r != z3.unsat: outs.append((side, lab))
        if not outs:
            self.finish(st, 'infeasible'); return 'done'
        if len(outs) == 1:
            self.assume(st, outs[0][0]); return outs[0][1]
        if f_label is not None:
            j = self.try_diamond(st, c, t_label, f_label)
            if j is not None: return j
        # fork: explore the first alternative in a cloned state, continue with the second
        side, lab = outs[0]
        child = st.clone()
        self.solver.push()
        self.assume(child, side)
        child.prev, child.block, child.ip = st.block, lab, 0
        try:
            self.explore(child)
        finally:
            self.solver.pop()
        self.fn = st.fn
        self.assume(st, outs[1][0])
        return outs[1][1]

    PURE = ('load', 'getelementptr', 'bitcast', 'sext', 'zext', 'trunc', 'add', 'sub', 'mul', 'sdiv', 'srem', 'icmp', 'select',
            'and', 'or', 'xor', 'sitofp', 'fadd', 'fsub', 'fmul', 'fdiv', 'fneg', 'fcmp', 'shl', 'ashr')
    def try_diamond(self, st, c, t_label, f_label, depth=0):
        """if-conversion: (a) diamond - both successors are single blocks without calls that jump to the
        same join block; (b) triangle - one successor is such a block and jumps to the other successor.
        Both sides are evaluated, stores into locals (allocas) and the join's phi values are merged with
        ite; overflow events of a side are guarded by that side's condition.  Returns the join label
        (with st.block = '__merged__') or None if the shape does not apply."""
        fn = self.fn = st.fn or self.fn
        def info(lab):
            b = fn.blocks.get(lab)
            if not b: return None
            m = re.match(r'^br label %([\w.$-]+)$', b[-1])
            if not m: return None
            for ins in b[:-1]:
                mm = self.RE_ASSIGN.match(ins)
                opn = (mm.group(2) if mm else ins).split(None, 1)[0]
                if opn == 'store' and not mm: continue
                if not mm or opn not in self.PURE: return None
            return m.group(1)
        jt, jf = info(t_label), info(f_label)
        region = False
        if jt is not None and jt == jf: join_lab, labs = jt, ((t_label, c), (f_label, z3.Not(c)))
        elif jt is not None and jt == f_label: join_lab, labs = f_label, ((t_label, c),)
        elif jf is not None and jf == t_label: join_lab, labs = t_label, ((f_label, z3.Not(c)),)
        elif depth < 3 and self.reaches(t_label, f_label): join_lab, labs, region = f_label, ((t_label, c),), True
        elif depth < 3 and self.reaches(f_label, t_label): join_lab, labs, region = t_label, ((f_label, z3.Not(c)),), True
        else: return None
        join = fn.blocks[join_lab]
        sides = {}
        last = {}
        for lab, cond in labs:
            sub = st.clone(); n_ovf, n_pc = len(sub.ovf), len(sub.pc)
            try:
                if region:
                    self.solver.push(); self.solver.add(cond)
                    try: end = self.run_region(sub, lab, join_lab, depth + 1)
                    finally: self.solver.pop()
                    if end is None: return None
                    last[lab] = end
                else:
                    for ins in fn.blocks[lab][:-1]:
                        if self.step(sub, ins, {}) is not None: return None
                    last[lab] = lab
            except Unsupported:
                return None
            if sub.writes != st.writes or sub.exc != st.exc or sub.events != st.events: return None
            sides[lab] = (cond, sub, sub.pc[n_pc:], sub.ovf[n_ovf:])
        def tz(v):
            return z3.IntVal(v) if is_conc(v) else v
        def ite(vt, vf):
            if isinstance(vt, Ptr) or isinstance(vf, Ptr):
                if isinstance(vt, Ptr) and isinstance(vf, Ptr) and vt.region == vf.region and str(vt.off) == str(vf.off): return vt
                raise Unsupported('pointer merge')
            a, b = tz(vt), tz(vf)
            if a is b: return vt
            if z3.is_bool(a) != z3.is_bool(b):
                a = z3.If(a, 1, 0) if z3.is_bool(a) else a; b = z3.If(b, 1, 0) if z3.is_bool(b) else b
            if a.sort() != b.sort():
                if a.sort() == z3.IntSort(): a = z3.ToReal(a)
                if b.sort() == z3.IntSort(): b = z3.ToReal(b)
            return z3.If(c, a, b)
        # predecessor labels of the join for the two outcomes of c
        pred_t = last[t_label] if t_label in sides else st.block
        pred_f = last[f_label] if f_label in sides else st.block
        st_t = sides[t_label][1] if t_label in sides else st
        st_f = sides[f_label][1] if f_label in sides else st
        merged = {}
        try:
            for ins in join:
                if ' = phi ' not in ins: break
                m = self.RE_ASSIGN.match(ins); rest = m.group(2)[4:]
                ty, j = parse_type(rest)
                vt = vf = None
                for inc in re.findall(r'\[\s*(.+?),\s*%([\w.$-]+)\s*\]', rest[j:]):
                    if inc[1] == pred_t: vt = self.eval_operand(st_t, ty, inc[0])
                    if inc[1] == pred_f: vf = self.eval_operand(st_f, ty, inc[0])
                if vt is None or vf is None: return None
                merged[m.group(1)] = ite(vt, vf)
            # memory (locals) written on either side
            memnew = {}
            keys = set()
            for sd in (st_t, st_f):
                for k_, v_ in sd.mem.items():
                    if k_ not in st.mem or st.mem[k_] is not v_: keys.add(k_)
            for k_ in keys:
                if not (isinstance(k_[0], str) and (k_[0].startswith('a:') or k_[0].startswith('obj:') or k_[0].startswith('g:'))) and k_[0] != 'zero': return None
                a_ = st_t.mem.get(k_, st.mem.get(k_)); b_ = st_f.mem.get(k_, st.mem.get(k_))
                if a_ is None or b_ is None:
                    # first touch (lazy initial value) on one side only: same deterministic value on both
                    memnew[k_] = a_ if a_ is not None else b_
                    continue
                memnew[k_] = ite(a_, b_)
        except Unsupported:
            return None
        # commit: definitional constraints of the evaluated sides, guarded overflow events, merged values
        n_acc = len(st.acc)
        for lab, (cond, sub, newpc, newovf) in sides.items():
            for f in newpc: self.assume(st, f)
            for o in newovf: st.ovf.append(z3.And(cond, o))
        for lab, (cond, sub, newpc, newovf) in sides.items():
            for a_ in sub.acc[n_acc:]:       # array reads made inside a merged side stay bounds obligations, guarded by the side's condition
                st.acc.append((a_[0], a_[1], a_[2], len(st.pc), z3.And(cond, a_[4]) if len(a_) > 4 else cond))
            # registers defined inside a side block are only live there or through phis
        st.mem.update(memnew)
        st.regs.update(merged)
        self.stats['merged_diamonds'] = self.stats.get('merged_diamonds', 0) + 1
        st.block = '__merged__'        # becomes prev of the join
        return join_lab

    def reaches(self, start, stop, limit=12):
        """is `stop` reachable from `start` through at most `limit` blocks none of which returns or calls?
        (cheap syntactic pre-test for region if-conversion)"""
        fn = self.fn
        seen = set(); work = [start]
        while work:
            lab = work.pop()
            if lab == stop: continue
            if lab in seen: continue
            seen.add(lab)
            if len(seen) > limit: return False
            b = fn.blocks.get(lab)
            if not b: return False
            for ins in b[:-1]:
                mm = self.RE_ASSIGN.match(ins)
                opn = (mm.group(2) if mm else ins).split(None, 1)[0]
                if opn == 'store' and not mm: continue
                if not mm or opn not in self.PURE: return False
            t = b[-1]
            m1 = re.match(r'^br label %([\w.$-]+)$', t)
            m2 = re.match(r'^br i1 .+?, label %([\w.$-]+), label %([\w.$-]+)$', t)
            if m1: work.append(m1.group(1))
            elif m2: work += [m2.group(1), m2.group(2)]
            else: return False
        return True

    def run_region(self, sub, lab, stop, depth):
        """execute (on the scratch state `sub`) from block `lab` until control reaches `stop`, merging nested
        conditionals by if-conversion; returns the label of the last block before `stop`, or None"""
        fn = self.fn
        prev = sub.block
        steps = 0
        while True:
            steps += 1
            if steps > 20: return None
            b = fn.blocks[lab]
            k = 0
            if prev == '__merged__':
                while k < len(b) and ' = phi ' in b[k]: k += 1
            newvals = {}
            while k < len(b) and ' = phi ' in b[k]:
                m = self.RE_ASSIGN.match(b[k]); rest = m.group(2)[4:]
                ty, j = parse_type(rest)
                for inc in re.findall(r'\[\s*(.+?),\s*%([\w.$-]+)\s*\]', rest[j:]):
                    if inc[1] == prev: newvals[m.group(1)] = self.eval_operand(sub, ty, inc[0]); break
                else: return None
                k += 1
            sub.regs.update(newvals)
            for ins in b[k:-1]:
                if self.step(sub, ins, {}) is not None: return None
            t = b[-1]
            m1 = re.match(r'^br label %([\w.$-]+)$', t)
            if m1:
                if m1.group(1) == stop: return lab
                prev, lab = lab, m1.group(1); continue
            m2 = re.match(r'^br i1 (.+?), label %([\w.$-]+), label %([\w.$-]+)$', t)
            if not m2: return None
            c2 = self.as_bool(self.eval_operand(sub, T('int', bits=1), m2.group(1)))
            if isinstance(c2, bool):
                nxt = m2.group(2) if c2 else m2.group(3)
                if nxt == stop: return lab
                prev, lab = lab, nxt; continue
            c2 = z3.simplify(c2)
            if z3.is_true(c2) or z3.is_false(c2):
                nxt = m2.group(2) if z3.is_true(c2) else m2.group(3)
                if nxt == stop: return lab
                prev, lab = lab, nxt; continue
            if m2.group(2) == stop or m2.group(3) == stop:
                # inner triangle whose join is the outer join: treat as nested merge towards `stop`
                pass
            sub.block = lab
            # the scratch state's new facts are not in the solver yet: add them for the nested feasibility tests
            j = self.try_diamond(sub, c2, m2.group(2), m2.group(3), depth)
            if j is None: return None
            if j == stop: return '__merged__'
            prev, lab = '__merged__', j

    def step(self, st, s, visits):
        m = self.RE_ASSIGN.match(s)
        res, rhs = (m.group(1), m.group(2)) if m else (None, s)
        op = rhs.split(None, 1)[0]
        if op == 'alloca':
            st.regs[res] = Ptr('a:' + res if not st.inv else 'a:%d:%s' % (st.inv, res), 0); return None
        if op == 'store':
            body = rhs[6:]
            if body.startswith('volatile '): body = body[9:]
            parts = split_top(body)
            vt, j = parse_type(parts[0]); val = self.eval_operand(st, vt, parts[0][j:])
            pt, j = parse_type(parts[1]); ptr = self.eval_operand(st, pt, parts[1][j:])
            self.store(st, vt, val, ptr); return None
        if op == 'load':
            body = rhs[5:]
            if body.startswith('volatile '): body = body[9:]
            parts = split_top(body)
            ty, _ = parse_type(parts[0]); pt, j = parse_type(parts[1]); ptr = self.eval_operand(st, pt, parts[1][j:])
            st.regs[res] = self.load(st, ty, ptr); return None
        if op == 'getelementptr':
            body = rhs[len('getelementptr'):].replace(' inbounds', '', 1)
            parts = split_top(body)
            bt, _ = parse_type(parts[0]); pt, j = parse_type(parts[1]); base = self.eval_operand(st, pt, parts[1][j:])
            idx = []
            for p in parts[2:]:
                it, j = parse_type(p); idx.append(self.eval_operand(st, it, p[j:]))
            st.regs[res] = self.gep(bt, base, idx); return None
        if op in ('bitcast', 'inttoptr', 'ptrtoint', 'fpext', 'fptrunc', 'addrspacecast'):
            src, _ = rhs[len(op):].rsplit(' to ', 1)
            stt, j = parse_type(src); st.regs[res] = self.eval_operand(st, stt, src[j:]); return None
        if op in ('sext', 'zext', 'trunc', 'sitofp', 'fptosi', 'uitofp', 'fptoui'):
            src, dst = rhs[len(op):].rsplit(' to ', 1)
            stt, j = parse_type(src); v = self.eval_operand(st, stt, src[j:]); dt, _ = parse_type(dst)
            if op == 'sext': st.regs[res] = v
            elif op == 'zext':
                if stt.bits == 1: st.regs[res] = v if is_conc(v) else (z3.If(v, 1, 0) if z3.is_bool(v) else v)
                else:
                    M = 1 << stt.bits
                    st.regs[res] = (v % M) if is_conc(v) else z3.If(v >= 0, v, v + M)
            elif op == 'trunc':
                if dt.bits == 1: st.regs[res] = (v % 2) if is_conc(v) else (v % 2)
                else: st.regs[res] = self.wrap(st, v, dt.bits)
            elif op in ('sitofp', 'uitofp'): st.regs[res] = z3.ToReal(v) if not is_conc(v) else z3.RealVal(v)
            else:
                if z3.is_expr(v) and z3.is_rational_value(z3.simplify(v)):
                    fr = z3.simplify(v).as_fraction()
                    st.regs[res] = int(fr) if fr >= 0 else -int(-fr)          # truncation toward zero
                elif z3.is_expr(v) and v.decl().kind() == z3.Z3_OP_TO_REAL: st.regs[res] = v.arg(0)
                else:
                    st.notes.append('fptosi approximated'); st.regs[res] = self.fresh('fptosi')
            return None
        if op in ('add', 'sub', 'mul', 'sdiv', 'udiv', 'srem', 'urem', 'and', 'or', 'xor', 'shl', 'ashr', 'lshr'):
            body = rhs[len(op):]
            body = re.sub(r'^\s*(nsw|nuw|exact)\s+', ' ', body); body = re.sub(r'^\s*(nsw|nuw|exact)\s+', ' ', body)
            ty, j = parse_type(body); a_s, b_s = split_top(body[j:])
            a = self.eval_operand(st, ty, a_s); b = self.eval_operand(st, ty, b_s)
            st.regs[res] = self.arith(st, op, ty, a, b); return None
        if op in ('fadd', 'fsub', 'fmul', 'fdiv', 'fneg'):
            body = re.sub(r'^\s*(fast|nnan|ninf|nsz|arcp|contract|afn|reassoc)\s+', ' ', rhs[len(op):])
            ty, j = parse_type(body)
            if op == 'fneg':
                a = self.eval_operand(st, ty, body[j:]); st.regs[res] = -a; return None
            a_s, b_s = split_top(body[j:]); a = self.eval_operand(st, ty, a_s); b = self.eval_operand(st, ty, b_s)
            st.regs[res] = {'fadd': lambda: a + b, 'fsub': lambda: a - b, 'fmul': lambda: (self.fmul(a, b) if self.fmul else a*b), 'fdiv': lambda: a/b}[op](); return None
        if op == 'icmp':
            pred, body = rhs[5:].split(None, 1)
            ty, j = parse_type(body); a_s, b_s = split_top(body[j:])
            a = self.eval_operand(st, ty, a_s); b = self.eval_operand(st, ty, b_s)
            st.regs[res] = self.icmp(pred, ty, a, b); return None
        if op == 'fcmp':
            pred, body = rhs[5:].split(None, 1)
            ty, j = parse_type(body); a_s, b_s = split_top(body[j:])
            a = self.eval_operand(st, ty, a_s); b = self.eval_operand(st, ty, b_s)
            f = {'oeq': lambda: a == b, 'one': lambda: a != b, 'une': lambda: a != b, 'ueq': lambda: a == b, 'olt': lambda: a < b, 'ole': lambda: a <= b,
                 'ogt': lambda: a > b, 'oge': lambda: a >= b, 'ult': lambda: a < b, 'ule': lambda: a <= b, 'ugt': lambda: a > b, 'uge': lambda: a >= b}[pred]
            st.regs[res] = f(); return None
        if op == 'select':
            parts = split_top(rhs[6:])
            ct, j = parse_type(parts[0]); c = self.eval_operand(st, ct, parts[0][j:])
            at, j = parse_type(parts[1]); a = self.eval_operand(st, at, parts[1][j:])
            bt, j = parse_type(parts[2]); b = self.eval_operand(st, bt, parts[2][j:])
            if is_conc(c): st.regs[res] = a if c else b
            elif isinstance(a, Ptr) or isinstance(b, Ptr): raise Unsupported('select of pointers on a symbolic condition')
            else: st.regs[res] = z3.If(self.as_bool(c), a, b)
            return None
        if op == 'br':
            body = rhs[2:].strip()
            if body.startswith('label'): return body.split('%', 1)[1].strip()
            m2 = re.match(r'i1 (.+?), label %([\w.$-]+), label %([\w.$-]+)', body)
            c = self.eval_operand(st, T('int', bits=1), m2.group(1))
            return self.branch(st, self.as_bool(c), visits, m2.group(2), m2.group(3))
        if op == 'switch':
            m2 = re.match(r'switch (.+?), label %([\w.$-]+) \[(.*)\]', rhs)
            ty, j = parse_type(m2.group(1)); v = self.eval_operand(st, ty, m2.group(1)[j:])
            cases = re.findall(r'i\d+ (-?\d+), label %([\w.$-]+)', m2.group(3))
            # chain of binary branches
            remaining = st
            for cv, lab in cases:
                cond = (v == int(cv)) if not is_conc(v) else (v == int(cv))
                r = self.branch(remaining, cond, visits, lab, None)
                if r == 'done': return 'done'
                if r is not None: return r
            return m2.group(2)
        if op == 'ret':
            body = rhs[3:].strip()
            v = None
            if body != 'void':
                ty, j = parse_type(body); v = self.eval_operand(st, ty, body[j:])
            if st.frames:
                fr = st.frames.pop()
                st.fn, st.regs, st.block, st.prev, st.ip, st.visits, st.inv = fr['fn'], fr['regs'], fr['block'], fr['prev'], fr['ip'], fr['visits'], fr['inv']
                if fr['res'] is not None: st.regs[fr['res']] = v
                return 'frame'
            self.finish(st, 'return', v); return 'done'
        if op == 'unreachable':
            self.finish(st, 'unreachable'); return 'done'
        if op in ('call', 'tail', 'notail', 'musttail'):
            return self.call(st, res, rhs)
        if op in ('extractvalue', 'insertvalue'):
            raise Unsupported(op)
        raise Unsupported('opcode ' + op)

    def as_bool(self, c):
        if isinstance(c, bool): return c
        if is_conc(c): return c != 0
        if z3.is_bool(c): return c
        return c != 0

    def icmp(self, pred, ty, a, b):
        if isinstance(a, Ptr) or isinstance(b, Ptr):
            a = a if isinstance(a, Ptr) else NULL; b = b if isinstance(b, Ptr) else NULL
            same = (a.region == b.region) and (str(a.off) == str(b.off))
            if a.region != b.region: same = False
            if pred == 'eq': return 1 if same else 0
            if pred == 'ne': return 0 if same else 1
            if a.region == b.region and a.region is not None:
                # ordering of two pointers into one object = ordering of their offsets
                x, y = a.off, b.off
                r = {'ugt': lambda: x > y, 'uge': lambda: x >= y, 'ult': lambda: x < y, 'ule': lambda: x <= y,
                     'sgt': lambda: x > y, 'sge': lambda: x >= y, 'slt': lambda: x < y, 'sle': lambda: x <= y}[pred]()
                return (1 if r else 0) if isinstance(r, bool) else r
            raise Unsupported('pointer comparison ' + pred)
        def norm(v):
            if z3.is_expr(v) and z3.is_bool(v): return z3.If(v, 1, 0)
            return v
        a, b = norm(a), norm(b)
        if pred in ('ult', 'ule', 'ugt', 'uge'):
            M = 1 << ty.bits
            ua = (a % M) if is_conc(a) else z3.If(a >= 0, a, a + M)
            ub = (b % M) if is_conc(b) else z3.If(b >= 0, b, b + M)
            a, b = ua, ub
        f = {'eq': lambda: a == b, 'ne': lambda: a != b, 'slt': lambda: a < b, 'sle': lambda: a <= b, 'sgt': lambda: a > b, 'sge': lambda: a >= b,
             'ult': lambda: a < b, 'ule': lambda: a <= b, 'ugt': lambda: a > b, 'uge': lambda: a >= b}[pred]
        r = f()
        if isinstance(r, bool): return 1 if r else 0
        return r

    def arith(self, st, op, ty, a, b):
        def norm(v):
            if z3.is_expr(v) and z3.is_bool(v): return z3.If(v, 1, 0)
            return v
        if isinstance(a, Ptr) and isinstance(b, Ptr) and op == 'sub':
            # pointer difference (after ptrtoint) inside one object
            if a.region != b.region or a.region is None: raise Unsupported('difference of pointers into different objects')
            return simp_int(a.off - b.off)
        a, b = norm(a), norm(b)
        bits = ty.bits
        if op == 'add': return self.wrap(st, a + b, bits)
        if op == 'sub': return self.wrap(st, a - b, bits)
        if op == 'mul':
            al = self.aliases.get((self._id(a), self._id(b)))
            if al is None: al = self.aliases.get((self._id(b), self._id(a)))
            if al is not None: return al
            return self.wrap(st, a * b, bits)
        if op in ('sdiv', 'srem'):
            if is_conc(b) and b == 0: raise Unsupported('division by zero')
            if not is_conc(b): st.divz.append((b == 0, len(st.pc)))      # undefined behaviour (SIGFPE on x86) when the divisor is zero
            q = self.tdiv(a, b)
            return q if op == 'sdiv' else a - q*b
        if op in ('and', 'or', 'xor'):
            if bits == 1:
                ba, bb = self.as_bool(a), self.as_bool(b)
                if isinstance(ba, bool) and isinstance(bb, bool):
                    return int({'and': ba and bb, 'or': ba or bb, 'xor': ba != bb}[op])
                ba = z3.BoolVal(ba) if isinstance(ba, bool) else ba; bb = z3.BoolVal(bb) if isinstance(bb, bool) else bb
                return {'and': z3.And(ba, bb), 'or': z3.Or(ba, bb), 'xor': z3.Xor(ba, bb)}[op]
            if is_conc(a) and is_conc(b): return {'and': a & b, 'or': a | b, 'xor': a ^ b}[op]
            if op == 'and' and (is_conc(a) or is_conc(b)):
                c, x = (a, b) if is_conc(a) else (b, a)
                if 0 <= c < (1 << 31):
                    # x & mask for a non-negative x (recorded as an overflow-style event otherwise): sum of the selected bits
                    st.ovf.append(x < 0)
                    tot = 0
                    for k in range(c.bit_length()):
                        if (c >> k) & 1: tot = tot + ((x / (1 << k)) % 2) * (1 << k)
                    return tot
            raise Unsupported('bitwise %s on symbolic operands' % op)
        if op in ('shl', 'ashr', 'lshr'):
            if is_conc(b):
                if op == 'shl': return self.wrap(st, a * (1 << b), bits)
                if op == 'ashr':
                    return (a >> b) if is_conc(a) else z3.If(a >= 0, a / (1 << b), -((-a + (1 << b) - 1) / (1 << b)))
            raise Unsupported('shift by symbolic amount')
        raise Unsupported('arith ' + op)

    def _id(self, v):
        return v if is_conc(v) else v.get_id()

    # ---------------------------------------------------------------- calls
    def call(self, st, res, rhs):
        m = re.match(r'^(?:tail |notail |musttail )?call\s+(.*)$', rhs)
        body = m.group(1)
        body = re.sub(r'^(?:(?:fastcc|ccc|noundef|signext|zeroext|nonnull|noalias|inreg)\s+)*', '', body)
        rt, j = parse_type(body)
        rest = body[j:].strip()
        # optional function type "(...)" then callee
        mm = re.match(r'^(@[\w.$-]+|%[\w.$-]+)\s*\((.*)\)\s*(?:#\d+)?$', rest)
        if not mm: raise Unsupported('call syntax: ' + rest[:80])
        callee_tok, argstr = mm.group(1), mm.group(2)
        args = []
        for a in split_top(argstr):
            a = a.strip()
            if not a: continue
            at, j2 = parse_type(a)
            tok = re.sub(r'^(?:(?:noundef|signext|zeroext|nonnull|noalias|nocapture|readonly|writeonly|align \d+|dereferenceable\(\d+\)|byval\([^)]*\))\s+)*', '', a[j2:].strip())
            args.append((at, self.eval_operand(st, at, tok)))
        if callee_tok.startswith('@'): name = callee_tok[1:]
        else:
            fp = st.regs.get(callee_tok)
            if not isinstance(fp, Ptr) or not str(fp.region).startswith('fn:'): raise Unsupported('indirect call through %r' % (fp,))
            name = fp.region[3:]
        if name in self.inline and name in self.mod.functions:
            callee = self.mod.functions[name]
            if len(st.frames) > 12: raise Unsupported('call depth')
            st.frames.append({'fn': st.fn, 'regs': st.regs, 'block': st.block, 'prev': st.prev, 'ip': st.ip, 'visits': st.visits, 'inv': st.inv, 'res': res})
            self.inv_n += 1
            st.fn, st.regs, st.block, st.prev, st.ip, st.visits, st.inv = callee, {}, callee.order[0], None, 0, {}, self.inv_n
            for (t_, nm_), (at_, a_) in zip(callee.params, args): st.regs[nm_] = a_
            return 'frame'
        r = self.sc.call(self, st, name, args, rt)
        if r is PathEndMarker: return 'done'
        if res is not None: st.regs[res] = r
        return None

PathEndMarker = object()
