"""C01 (supporting harness 'tail'): the last statements of a conelp iteration re-establish the
loop invariant that the exit-block harness assumes.

The loop body is cut (load-time AST transform T5) to the statements after `lmbda[-1] *= ...`:
from an arbitrary VALID scaling W (documented invariants as assumptions), an arbitrary scaled
point lmbda in the cone and arbitrary dgi > 0 the real code recomputes s = W'lmbda,
z = W^{-1}lmbda, kappa, tau and gap.  z3 decides  tau > 0, kappa > 0 (I1),
gap * tau^2 == <s,z> (I2) and, for 'l' blocks, s, z > 0 (I3)."""
import json, time
from vp.checks import conelp_h as H
from vp.oracles import cone as O
from vp.pysym.cut import Cut

DIMS = [{'l': 2, 'q': [], 's': []}, {'l': 0, 'q': [2], 's': []}, {'l': 1, 'q': [3], 's': []}, {'l': 0, 'q': [], 's': [2]}, {'l': 1, 'q': [2], 's': [1]}]

_WORLD = None
def _world():
    global _WORLD
    if _WORLD is None:
        from vp.pysym import loader
        _WORLD = loader.load('sym', modules=('misc', 'coneprog'), conelp_tail=True)
    return _WORLD

def run_tail(cfg, Wd, A, mk, assume, cap):
    from vp.pysym.loader import havoc_result
    dims = cfg['dims']; n, p = 1, 0
    N = H.N_of(dims); num = A.num
    cfg2 = {'dims': dims, 'n': n, 'p': p}
    d = H.make_data(cfg2, mk)
    c, G, h, Am, b = H.to_matrices(Wd, cfg2, d)
    M = Wd.matrix
    e = H.e_vector(dims)
    ps = {'x': M(0.0, (n, 1)), 's': M(e, (N, 1), 'd')}; ds = {'y': M(0.0, (p, 1)), 'z': M(e, (N, 1), 'd')}
    mod = Wd.coneprog
    def vp_iters(stop):
        yield 1
        raise Cut('end of the tail')
    def vec(nm, k): return [mk('%s%d' % (nm, i)) for i in range(k)]
    def vp_havoc(which, loc, names):
        W = {}
        dv = vec('d', dims['l']); W['d'] = M(dv, (len(dv), 1), 'd') if dv else M(0.0, (0, 1))
        for t in dv: assume(A.gt(num(t), A.const(0)))
        W['di'] = M([H.wrap_num(Wd, A.const(1)/num(t)) for t in dv], (len(dv), 1), 'd') if dv else M(0.0, (0, 1))
        W['v'] = []; W['beta'] = []
        for k_, m in enumerate(dims['q']):
            vv = vec('v%d_' % k_, m); be = mk('beta%d' % k_)
            assume(A.gt(num(be), A.const(0))); assume(A.gt(num(vv[0]), A.const(0)))
            assume(A.eq(num(vv[0])*num(vv[0]) - O._sum((num(t)*num(t) for t in vv[1:]), A.const(0)), A.const(1)))
            W['v'].append(M(vv, (m, 1), 'd')); W['beta'].append(be)
        W['r'] = []; W['rti'] = []
        for k_, m in enumerate(dims['s']):
            r = vec('r%d_' % k_, m*m); rti = vec('rti%d_' % k_, m*m)
            for i in range(m):
                for j in range(m):        # r' * rti = I
                    assume(A.eq(O._sum((num(r[l + i*m])*num(rti[l + j*m]) for l in range(m)), A.const(0)), A.const(1 if i == j else 0)))
            W['r'].append(M(r, (m, m), 'd')); W['rti'].append(M(rti, (m, m), 'd'))
        lm = loc['lmbda']
        lv = []
        for i in range(len(lm)):
            t = mk('lm%d' % i); lm[i] = t; lv.append(num(t))
        dd = {'l': dims['l'], 'q': dims['q'], 's': []}
        nlq = dims['l'] + sum(dims['q'])
        assume(O.in_cone(A, lv[:nlq], dd, 0, strict=True))
        for t in lv[nlq:]: assume(A.gt(t, A.const(0)))
        dgi = mk('dgi'); assume(A.gt(num(dgi), A.const(0)))
        tau0, kap0, gap0 = mk('tau_old'), mk('kappa_old'), mk('gap_old')
        assume(A.gt(num(tau0), A.const(0)))
        for nm in ('s', 'z'):
            mm = loc[nm]
            for i in range(len(mm)): mm[i] = mk('old%s%d' % (nm, i))
        cap['lmbda'] = lv; cap['W'] = W
        return havoc_result(loc, names, {'tau': tau0, 'kappa': kap0, 'gap': gap0, 'W': W, 'dgi': dgi})
    def vp_tail(loc):
        cap['locals'] = dict(loc)
    mod.__dict__['__vp_iters__'] = vp_iters; mod.__dict__['__vp_havoc__'] = vp_havoc; mod.__dict__['__vp_tail__'] = vp_tail
    def kkt(W): raise Cut('kktsolver reached')
    try:
        mod.conelp(c, G, h, dims, Am, b, primalstart=ps, dualstart=ds, kktsolver=kkt,
                   options={'show_progress': False, 'maxiters': 5})
    except Cut:
        pass
    return cap

def job(cfg):
    import z3
    from vp.pysym import sym, prove, alg
    Wd = _world()
    tmo = int(cfg.get('_timeout_ms', 20000))
    res = {'paths': 0, 'obl': {'total': 0, 'unsat': 0, 'sat': 0, 'unknown': 0}, 'solver_s': 0.0, 'sat': [], 'unknown': [], 'errors': [], 'reached': 0}
    state = {}
    def run_one():
        A = alg.SymAlg(); cap = {}
        state['A'] = A
        def mk(name, kind='real'): return sym.SymReal(z3.Real(name))
        def assume(p_): sym.CTX.assume(p_)
        return run_tail(cfg, Wd, A, mk, assume, cap)
    def on_path(kind, val, ctx):
        res['paths'] += 1
        A = state['A']
        if kind == 'exception':
            v = prove.feasible(list(ctx.pc), tmo)
            res['obl']['total'] += 1
            if v == 'unsat': res['obl']['unsat'] += 1
            else: res['obl']['unknown' if v == 'unknown' else 'sat'] += 1; (res['unknown'] if v == 'unknown' else res['errors']).append('tail raised %s: %s' % (type(val).__name__, val))
            return
        if kind != 'return' or 'locals' not in val:
            res['errors'].append('tail not reached: %s %s' % (kind, val)); return
        res['reached'] += 1
        loc = val['locals']; dims = cfg['dims']
        pc = list(ctx.pc)
        num = A.num
        s = [num(loc['s'][i]) for i in range(len(loc['s']))]; z = [num(loc['z'][i]) for i in range(len(loc['z']))]
        tau, kappa, gap = num(loc['tau']), num(loc['kappa']), num(loc['gap'])
        goals = [('I1: tau > 0 and kappa > 0 after the update', z3.And(tau > 0, kappa > 0)),
                 ('I2: gap * tau^2 == <s,z> after the update', gap*tau*tau == O.sdot(A, s, z, dims, 0))]
        if dims['l']:
            goals.append(("I3 ('l' block): s > 0 and z > 0", z3.And(*[s[i] > 0 for i in range(dims['l'])] + [z[i] > 0 for i in range(dims['l'])])))
        for label, g in goals:
            r = prove.prove(g, pc, A.side, tmo, slice_first=True)
            res['obl']['total'] += 1; res['obl'][r['verdict']] += 1; res['solver_s'] += r['secs']
            if r['verdict'] == 'sat': res['sat'].append({'label': label, 'model': r['model']})
            elif r['verdict'] == 'unknown': res['unknown'].append(label)
    sym.explore(run_one, on_path=on_path, max_paths=200)
    return res

def replay(cfg, model):
    """conc world: same cut loop body on the real build with the model's values"""
    import fractions
    from vp.pysym import loader, alg
    Wd = loader.load('conc', use_c=True, modules=('misc', 'coneprog'), conelp_tail=True)
    A = alg.ConcAlg()
    def val(name):
        v = model.get(name)
        if v is None: return 1.0
        try: return float(fractions.Fraction(v))
        except Exception: return float(v)
    pre = []
    cap = run_tail(cfg, Wd, A, lambda name, kind='real': val(name), lambda p_: pre.append(bool(p_)), {})
    if 'locals' not in cap: return {'precond_ok': all(pre), 'violated': [], 'note': 'tail not reached'}
    loc = cap['locals']; dims = cfg['dims']
    s = [float(v) for v in loc['s']]; z = [float(v) for v in loc['z']]
    tau, kappa, gap = float(loc['tau']), float(loc['kappa']), float(loc['gap'])
    bad = []
    if not (tau > 0 and kappa > 0): bad.append('I1: tau > 0 and kappa > 0 after the update')
    sz = O.sdot(A, s, z, dims, 0)
    if abs(gap*tau*tau - sz) > 1e-7*(1 + abs(sz)): bad.append('I2: gap * tau^2 == <s,z> after the update (gap*tau^2 = %.6g, <s,z> = %.6g)' % (gap*tau*tau, sz))
    return {'precond_ok': all(pre), 'violated': bad}

if __name__ == '__main__':
    import sys
    if len(sys.argv) >= 3 and sys.argv[1] == '--replay-conc':
        dd = json.load(open(sys.argv[2]))
        print(json.dumps(replay(dd['cfg'], dd['model'])))
