"""Footprint specifications of the reference BLAS (transcribed from the BLAS documentation,
independent of cvxopt): formal parameter names in Fortran order and, per array parameter,
the number of elements the routine may touch as an expression of its integer/flag arguments.
`E(args)` returns {array name: z3 expression (elements)}; args maps formal names to z3 Ints
(flags are character codes)."""
import z3

def _abs(v): return z3.If(v >= 0, v, -v)
def vec(n, inc): return z3.If(n > 0, 1 + (n - 1)*_abs(inc), 0)
def mat(rows, cols, ld): return z3.If(z3.And(rows > 0, cols > 0), (cols - 1)*ld + rows, 0)
def isch(v, c): return z3.Or(v == ord(c), v == ord(c.lower()))

SIG = {
 'swap': 'N X INCX Y INCY', 'scal': 'N ALPHA X INCX', 'copy': 'N X INCX Y INCY', 'axpy': 'N ALPHA X INCX Y INCY',
 'dot': 'N X INCX Y INCY', 'nrm2': 'N X INCX', 'asum': 'N X INCX', 'amax': 'N X INCX',
 'gemv': 'TRANS M N ALPHA A LDA X INCX BETA Y INCY', 'gbmv': 'TRANS M N KL KU ALPHA A LDA X INCX BETA Y INCY',
 'symv': 'UPLO N ALPHA A LDA X INCX BETA Y INCY', 'hemv': 'UPLO N ALPHA A LDA X INCX BETA Y INCY',
 'sbmv': 'UPLO N K ALPHA A LDA X INCX BETA Y INCY', 'hbmv': 'UPLO N K ALPHA A LDA X INCX BETA Y INCY',
 'trmv': 'UPLO TRANS DIAG N A LDA X INCX', 'trsv': 'UPLO TRANS DIAG N A LDA X INCX',
 'tbmv': 'UPLO TRANS DIAG N K A LDA X INCX', 'tbsv': 'UPLO TRANS DIAG N K A LDA X INCX',
 'ger': 'M N ALPHA X INCX Y INCY A LDA', 'geru': 'M N ALPHA X INCX Y INCY A LDA', 'gerc': 'M N ALPHA X INCX Y INCY A LDA',
 'syr': 'UPLO N ALPHA X INCX A LDA', 'her': 'UPLO N ALPHA X INCX A LDA',
 'syr2': 'UPLO N ALPHA X INCX Y INCY A LDA', 'her2': 'UPLO N ALPHA X INCX Y INCY A LDA',
 'gemm': 'TRANSA TRANSB M N K ALPHA A LDA B LDB BETA C LDC',
 'symm': 'SIDE UPLO M N ALPHA A LDA B LDB BETA C LDC', 'hemm': 'SIDE UPLO M N ALPHA A LDA B LDB BETA C LDC',
 'syrk': 'UPLO TRANS N K ALPHA A LDA BETA C LDC', 'herk': 'UPLO TRANS N K ALPHA A LDA BETA C LDC',
 'syr2k': 'UPLO TRANS N K ALPHA A LDA B LDB BETA C LDC', 'her2k': 'UPLO TRANS N K ALPHA A LDA B LDB BETA C LDC',
 'trmm': 'SIDE UPLO TRANSA DIAG M N ALPHA A LDA B LDB', 'trsm': 'SIDE UPLO TRANSA DIAG M N ALPHA A LDA B LDB',
}

def base_name(ext):
    """'dgemv_' -> ('gemv', 8), 'zdscal_' -> ('scal', 16), 'idamax_' -> ('amax', 8), 'dznrm2_' -> ('nrm2', 16)"""
    n = ext.rstrip('_')
    for pre, es in (('zd', 16), ('dz', 16), ('id', 8), ('iz', 16), ('d', 8), ('z', 16)):
        if n.startswith(pre) and n[len(pre):] in SIG: return n[len(pre):], es
    return None, None

def footprints(name, a):
    """a: dict formal -> z3 term.  returns ({array: elements}, [preconditions of the routine])"""
    if name in ('swap', 'copy', 'axpy', 'dot'):
        return {'X': vec(a['N'], a['INCX']), 'Y': vec(a['N'], a['INCY'])}, [a['INCX'] != 0, a['INCY'] != 0] if name != 'dot' else []
    if name in ('scal', 'nrm2', 'asum', 'amax'):
        return {'X': vec(a['N'], a['INCX'])}, []
    if name in ('gemv', 'gbmv'):
        notr = isch(a['TRANS'], 'N')
        lx = z3.If(notr, a['N'], a['M']); ly = z3.If(notr, a['M'], a['N'])
        act = z3.And(a['M'] > 0, a['N'] > 0)
        if name == 'gemv': fa = mat(a['M'], a['N'], a['LDA']); pre = [a['LDA'] >= z3.If(a['M'] > 1, a['M'], 1)]
        else:
            fa = z3.If(act, (a['N'] - 1)*a['LDA'] + a['KL'] + a['KU'] + 1, 0); pre = [a['LDA'] >= a['KL'] + a['KU'] + 1, a['KL'] >= 0, a['KU'] >= 0]
        return {'A': fa, 'X': z3.If(act, vec(lx, a['INCX']), 0), 'Y': z3.If(act, vec(ly, a['INCY']), 0)}, pre + [a['INCX'] != 0, a['INCY'] != 0, a['M'] >= 0, a['N'] >= 0]
    if name in ('symv', 'hemv'):
        return {'A': mat(a['N'], a['N'], a['LDA']), 'X': vec(a['N'], a['INCX']), 'Y': vec(a['N'], a['INCY'])}, [a['LDA'] >= z3.If(a['N'] > 1, a['N'], 1), a['INCX'] != 0, a['INCY'] != 0]
    if name in ('sbmv', 'hbmv'):
        return {'A': z3.If(a['N'] > 0, (a['N'] - 1)*a['LDA'] + a['K'] + 1, 0), 'X': vec(a['N'], a['INCX']), 'Y': vec(a['N'], a['INCY'])}, [a['LDA'] >= a['K'] + 1, a['K'] >= 0]
    if name in ('trmv', 'trsv'):
        return {'A': mat(a['N'], a['N'], a['LDA']), 'X': vec(a['N'], a['INCX'])}, [a['LDA'] >= z3.If(a['N'] > 1, a['N'], 1), a['INCX'] != 0]
    if name in ('tbmv', 'tbsv'):
        return {'A': z3.If(a['N'] > 0, (a['N'] - 1)*a['LDA'] + a['K'] + 1, 0), 'X': vec(a['N'], a['INCX'])}, [a['LDA'] >= a['K'] + 1, a['K'] >= 0, a['INCX'] != 0]
    if name in ('ger', 'geru', 'gerc'):
        act = z3.And(a['M'] > 0, a['N'] > 0)
        return {'A': mat(a['M'], a['N'], a['LDA']), 'X': z3.If(act, vec(a['M'], a['INCX']), 0), 'Y': z3.If(act, vec(a['N'], a['INCY']), 0)}, [a['LDA'] >= z3.If(a['M'] > 1, a['M'], 1), a['INCX'] != 0, a['INCY'] != 0]
    if name in ('syr', 'her'):
        return {'A': mat(a['N'], a['N'], a['LDA']), 'X': vec(a['N'], a['INCX'])}, [a['LDA'] >= z3.If(a['N'] > 1, a['N'], 1), a['INCX'] != 0]
    if name in ('syr2', 'her2'):
        return {'A': mat(a['N'], a['N'], a['LDA']), 'X': vec(a['N'], a['INCX']), 'Y': vec(a['N'], a['INCY'])}, [a['LDA'] >= z3.If(a['N'] > 1, a['N'], 1)]
    if name == 'gemm':
        na, nb = isch(a['TRANSA'], 'N'), isch(a['TRANSB'], 'N')
        act = z3.And(a['M'] > 0, a['N'] > 0)
        fa = z3.If(z3.And(act, a['K'] > 0), z3.If(na, mat(a['M'], a['K'], a['LDA']), mat(a['K'], a['M'], a['LDA'])), 0)
        fb = z3.If(z3.And(act, a['K'] > 0), z3.If(nb, mat(a['K'], a['N'], a['LDB']), mat(a['N'], a['K'], a['LDB'])), 0)
        pre = [a['LDA'] >= z3.If(na, z3.If(a['M'] > 1, a['M'], 1), z3.If(a['K'] > 1, a['K'], 1)),
               a['LDB'] >= z3.If(nb, z3.If(a['K'] > 1, a['K'], 1), z3.If(a['N'] > 1, a['N'], 1)), a['LDC'] >= z3.If(a['M'] > 1, a['M'], 1)]
        return {'A': fa, 'B': fb, 'C': mat(a['M'], a['N'], a['LDC'])}, pre
    if name in ('symm', 'hemm'):
        left = isch(a['SIDE'], 'L'); ka = z3.If(left, a['M'], a['N'])
        act = z3.And(a['M'] > 0, a['N'] > 0)
        return {'A': z3.If(act, mat(ka, ka, a['LDA']), 0), 'B': mat(a['M'], a['N'], a['LDB']), 'C': mat(a['M'], a['N'], a['LDC'])}, \
               [a['LDA'] >= z3.If(ka > 1, ka, 1), a['LDB'] >= z3.If(a['M'] > 1, a['M'], 1), a['LDC'] >= z3.If(a['M'] > 1, a['M'], 1)]
    if name in ('syrk', 'herk', 'syr2k', 'her2k'):
        notr = isch(a['TRANS'], 'N')
        fa = z3.If(z3.And(a['N'] > 0, a['K'] > 0), z3.If(notr, mat(a['N'], a['K'], a['LDA']), mat(a['K'], a['N'], a['LDA'])), 0)
        out = {'A': fa, 'C': mat(a['N'], a['N'], a['LDC'])}
        pre = [a['LDA'] >= z3.If(notr, z3.If(a['N'] > 1, a['N'], 1), z3.If(a['K'] > 1, a['K'], 1)), a['LDC'] >= z3.If(a['N'] > 1, a['N'], 1)]
        if name in ('syr2k', 'her2k'):
            out['B'] = z3.If(z3.And(a['N'] > 0, a['K'] > 0), z3.If(notr, mat(a['N'], a['K'], a['LDB']), mat(a['K'], a['N'], a['LDB'])), 0)
            pre.append(a['LDB'] >= z3.If(notr, z3.If(a['N'] > 1, a['N'], 1), z3.If(a['K'] > 1, a['K'], 1)))
        return out, pre
    if name in ('trmm', 'trsm'):
        left = isch(a['SIDE'], 'L'); ka = z3.If(left, a['M'], a['N'])
        act = z3.And(a['M'] > 0, a['N'] > 0)
        return {'A': z3.If(act, mat(ka, ka, a['LDA']), 0), 'B': mat(a['M'], a['N'], a['LDB'])}, \
               [a['LDA'] >= z3.If(ka > 1, ka, 1), a['LDB'] >= z3.If(a['M'] > 1, a['M'], 1)]
    raise KeyError(name)
