SETUP = "python3-vt -c \"import z3, sys; print('z3', z3.get_version_string())\" && chmod +x tools/*.sh"
NOTES = ("Solver-based checking of the real code: the repo's Python sources are executed symbolically on a matrix/BLAS shim (engine P), "
         "verdicts are z3 unsat/sat over all values within stated bounds; counterexamples are replayed on a real build of /repo's working tree "
         "(tools/build_overlay.sh) before any VIOLATION line is printed. Exit 3 = harness error / inconclusive (never counted as success).")
ENGINES = [
 {'name': 'P', 'path': 'vp/pysym', 'serves_properties': ['C01', 'C02', 'C03', 'C08', 'C10'], 'kind_free_text': "symbolic execution of /repo/src/python/*.py on a symbolic matrix/BLAS shim; z3 decides obligations"},
]
_CONELP_NOTE = ("Assumes the loop invariant at the head of an arbitrary iteration (tau>0, kappa>0, gap=<s,z>/tau^2, s,z strictly interior) - its preservation by the "
  "floating-point step is outside the claim; exact real arithmetic; cone structures in a stated box (l<=2, q dims<=2(3), s orders<=2, two s blocks), n<=2(3), p<=1; "
  "user-KKT-solver path of conelp (the built-in factorisations, lp/socp/sdp wrappers and external back-ends are not yet covered by this check); the matrix/BLAS shim is a model, so every counterexample is replayed on a real build of /repo before it is reported.")
CHECKS = {
 'C01': dict(engine='P', category='model_checking', design_ref='DESIGN.md section 7 C01',
   technique='bounded symbolic execution of the real conelp exit block (z3 over reals), staged SMT obligations, replay on the real build',
   text="The real source of conelp is executed symbolically from the loop head of an arbitrary iteration with an arbitrary iterate, with all problem data, tolerances, iterate and iteration index as solver variables; for every path returning 'optimal' z3 decides (unsat of the negation) the documented residual/gap/cone conditions on the returned vectors against the caller's data and that every accuracy field equals its recomputation. Holds for all values inside the stated bounds, not for sampled problems.",
   note=_CONELP_NOTE),
 'C02': dict(engine='P', category='model_checking', design_ref='DESIGN.md section 7 C02',
   technique='bounded symbolic execution of the real conelp certificate branches (z3 over reals), staged SMT obligations, replay on the real build',
   text="Same symbolic run as C01: on every path returning 'primal infeasible' / 'dual infeasible' z3 decides h'z+b'y=-1 (c'x=-1), the certificate residual bound in the documented relative norm, cone membership, None-ness of the other half and equality of the reported residual/slack with their recomputation, for all data within the bounds.",
   note=_CONELP_NOTE),
 'C03': dict(engine='P', category='model_checking', design_ref='DESIGN.md section 7 C03',
   technique='bounded symbolic execution of the real coneqp exit block and no-inequality shortcut (z3 over reals), staged SMT obligations, replay on the real build',
   text="The real coneqp source is executed symbolically from the loop head of an arbitrary iteration with an arbitrary iterate (P's strict upper triangle independent junk symbols), and through the cdim==0 shortcut with an exact KKT contract stub; on every 'optimal' path z3 decides the residual bounds in the documented norms (P symmetrised from its lower triangle only), cone membership, one of the three gap criteria and equality of every reported field with its recomputation.",
   note=_CONELP_NOTE.replace('tau>0, kappa>0, gap=<s,z>/tau^2', 'gap=<s,z>').replace('conelp', 'coneqp') + " Shortcut: the user KKT solver is a contract stub returning any solution of the documented block system; abstol>=0 there."),
 'C10': dict(engine='P', category='fault_enumeration', design_ref='DESIGN.md section 7 C10',
   technique='symbolic execution of the real conelp/coneqp with an ArithmeticError injected at each KKT call site; z3 decides the admissible-outcome oracle per fault plan; replay on the real build',
   text="For each fault plan (solver x cone structure x start-point mode x failing factor/solve call x iteration class) the real solver source runs symbolically with the failure injected by the user-KKT-solver stub; data, iterate, tolerances, iteration index and the results of the non-failing solves are solver variables. z3 decides that the only outcomes are ValueError('Rank...') during start-up/iteration 0 or a self-consistent 'unknown' result with s,z still strictly in the cone, and finds a concrete fault scenario otherwise (replayed on the real build). This found and led to the repair of two escaping-ArithmeticError defects (see known_findings.json).",
   note="Fault sites: factor call #1 and solve calls #1..#3 of a run (start-up sites and the sites of one arbitrary iteration), conelp and coneqp only; cpl/cp restore-and-retry and domain backtracking are not covered. Non-failing KKT solves return arbitrary vectors and the scaling is arbitrary, so exceptions raised by the numeric body on such arbitrary values (math domain errors) are outside the claim. Loop invariant assumed at the head of the faulting iteration; exact real arithmetic."),
 'C08': dict(engine='P', category='translation_validation', design_ref='DESIGN.md section 7 C08',
   technique='symbolic execution of the real Python kernels on z3 reals; SMT equivalence with a written-down definition per configuration',
   text="Every Python fallback kernel of misc.py is executed symbolically (all vector/matrix data z3 reals) for each cone structure in a stated box and each flag/offset combination; z3 proves result == definition cell by cell plus the frame condition (unsat of the negation), so within the box the claim holds for all real data, not for sampled data.",
   note="Exact real arithmetic (no rounding claim); dims box, mnl in {0,1}, <=2 columns, offsets<=2 are the bounds; the blas/base shim is a model (validated against the real build; counterexamples are replayed on the real build in both implementations before being reported). The compiled kernels of misc_solvers.c are covered only through replay, not yet symbolically."),
}
NOT_APPLICABLE = {
 'C05': "convergence and correct classification of a floating-point interior-point iteration: depends on the rounding-level trajectory through tens of LAPACK factorisations; not encodable for an SMT solver (real arithmetic proves nothing about it, QF_FP is out of reach). Its loop-free parts are decided under C01/C02/C10.",
}
