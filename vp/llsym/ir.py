"""Minimal LLVM-IR (clang-14, -O0) reader for engine L: types with x86-64 layout, globals with
initialisers, functions as basic blocks of parsed instructions.  Only the subset that occurs in
cvxopt's C sources is supported; anything else raises IRError (-> harness error, never a guess)."""
import re, subprocess, os, hashlib

class IRError(Exception):
    pass

# ------------------------------------------------------------------------------------------ types

class T(object):
    """kind: int(bits) | double | float | void | ptr(to) | arr(n, of) | struct(name|fields) | func | label | meta"""
    __slots__ = ('kind', 'bits', 'to', 'n', 'name', 'fields', 'packed')
    def __init__(self, kind, **kw):
        self.kind = kind; self.bits = kw.get('bits'); self.to = kw.get('to'); self.n = kw.get('n')
        self.name = kw.get('name'); self.fields = kw.get('fields'); self.packed = kw.get('packed', False)
    def __repr__(self):
        if self.kind == 'int': return 'i%d' % self.bits
        if self.kind == 'ptr': return '%r*' % (self.to,)
        if self.kind == 'arr': return '[%d x %r]' % (self.n, self.to)
        if self.kind == 'struct': return self.name or '{%s}' % ', '.join(map(repr, self.fields))
        return self.kind

def _skip(s, i):
    while i < len(s) and s[i] in ' \t': i += 1
    return i

def parse_type(s, i=0):
    """returns (T, next index)"""
    i = _skip(s, i)
    m = re.compile(r'i(\d+)').match(s, i)
    if m and (m.end() == len(s) or not (s[m.end()].isalnum() or s[m.end()] in '._')):
        t = T('int', bits=int(m.group(1))); i = m.end()
    elif s.startswith('double', i): t = T('double'); i += 6
    elif s.startswith('float', i): t = T('float'); i += 5
    elif s.startswith('void', i): t = T('void'); i += 4
    elif s.startswith('label', i): t = T('label'); i += 5
    elif s.startswith('metadata', i): t = T('meta'); i += 8
    elif s.startswith('x86_fp80', i): t = T('fp80'); i += 8
    elif s.startswith('...', i): t = T('varargs'); i += 3
    elif s[i] == '%':
        m = re.compile(r'%("[^"]*"|[\w.$-]+)').match(s, i)
        t = T('struct', name=m.group(0)); i = m.end()
    elif s[i] == '[':
        m = re.compile(r'\[\s*(\d+)\s+x\s+').match(s, i)
        n = int(m.group(1)); et, j = parse_type(s, m.end())
        j = _skip(s, j)
        if s[j] != ']': raise IRError('bad array type: ' + s[i:i+40])
        t = T('arr', n=n, to=et); i = j + 1
    elif s[i] == '{' or s.startswith('<{', i):
        packed = s[i] == '<'
        if packed: i += 1
        i += 1; fields = []
        i = _skip(s, i)
        if s[i] == '}': i += 1
        else:
            while True:
                ft, i = parse_type(s, i); fields.append(ft); i = _skip(s, i)
                if s[i] == ',': i += 1; continue
                if s[i] == '}': i += 1; break
                raise IRError('bad struct type: ' + s[i:i+40])
        if packed:
            if s[i] != '>': raise IRError('bad packed struct')
            i += 1
        t = T('struct', fields=fields, packed=packed)
    else:
        raise IRError('cannot parse type at: ' + s[i:i+40])
    while True:
        j = _skip(s, i)
        if j < len(s) and s[j] == '*':
            t = T('ptr', to=t); i = j + 1
        elif j < len(s) and s[j] == '(':
            # function type: skip balanced parens
            depth = 0; k = j
            while k < len(s):
                if s[k] == '(': depth += 1
                elif s[k] == ')':
                    depth -= 1
                    if depth == 0: break
                k += 1
            t = T('func', to=t); i = k + 1
        else:
            break
    return t, i

class Module(object):
    def __init__(self, text):
        self.structs = {}      # name -> T(struct with fields)
        self.globals = {}      # @name -> (T, init string or None, is_constant)
        self.functions = {}    # name -> Function
        self.declares = set()
        self._parse(text)

    # ---- layout (x86-64 SysV)
    def resolve(self, t):
        if t.kind == 'struct' and t.fields is None:
            if t.name not in self.structs: raise IRError('opaque struct %s' % t.name)
            return self.structs[t.name]
        return t
    def align_of(self, t):
        t = self.resolve(t)
        if t.kind == 'int': return max(1, min(8, (t.bits + 7)//8))
        if t.kind in ('double', 'ptr', 'func'): return 8
        if t.kind == 'float': return 4
        if t.kind == 'arr': return self.align_of(t.to)
        if t.kind == 'struct':
            if t.packed: return 1
            return max([self.align_of(f) for f in t.fields] + [1])
        if t.kind == 'fp80': return 16
        raise IRError('align_of %r' % t)
    def size_of(self, t):
        t = self.resolve(t)
        if t.kind == 'int': return max(1, (t.bits + 7)//8) if t.bits != 1 else 1
        if t.kind in ('double', 'ptr', 'func'): return 8
        if t.kind == 'float': return 4
        if t.kind == 'fp80': return 16
        if t.kind == 'arr': return t.n * self.size_of(t.to)
        if t.kind == 'struct':
            off = 0
            for f in t.fields:
                a = 1 if t.packed else self.align_of(f)
                off = (off + a - 1)//a*a + self.size_of(f)
            a = self.align_of(t)
            return (off + a - 1)//a*a
        raise IRError('size_of %r' % t)
    def field_offset(self, t, k):
        t = self.resolve(t)
        off = 0
        for i, f in enumerate(t.fields):
            a = 1 if t.packed else self.align_of(f)
            off = (off + a - 1)//a*a
            if i == k: return off
            off += self.size_of(f)
        raise IRError('field index out of range')

    # ---- parsing
    def _parse(self, text):
        lines = text.split('\n')
        i = 0
        while i < len(lines):
            ln = lines[i]
            m = re.match(r'(%("[^"]*"|[\w.$-]+)) = type (.*)$', ln)
            if m:
                body = m.group(3).strip()
                if body == 'opaque': self.structs[m.group(1)] = T('struct', name=m.group(1), fields=None)
                else:
                    t, _ = parse_type(body); t.name = m.group(1); self.structs[m.group(1)] = t
                i += 1; continue
            m = re.match(r'(@[\w.$-]+) = (.*)$', ln)
            if m:
                self._parse_global(m.group(1), m.group(2)); i += 1; continue
            if ln.startswith('declare '):
                m = re.search(r'@([\w.$-]+)\s*\(', ln)
                if m: self.declares.add(m.group(1))
                i += 1; continue
            if ln.startswith('define '):
                m = re.search(r'@([\w.$-]+)\s*\((.*)\)[^)]*\{\s*$', ln)
                if not m: raise IRError('bad define: ' + ln[:100])
                name = m.group(1)
                j = i + 1; body = []
                while lines[j] != '}':
                    body.append(lines[j]); j += 1
                rt, _ = parse_type(ln[len('define '):].replace('dso_local ', '').replace('internal ', '').replace('noundef ', '').lstrip())
                self.functions[name] = Function(self, name, m.group(2), body, ln)
                i = j + 1; continue
            i += 1

    def _parse_global(self, name, rest):
        # strip linkage / attributes
        rest2 = re.sub(r'^(?:(?:private|internal|external|common|dso_local|unnamed_addr|local_unnamed_addr|hidden|weak|linkonce_odr|thread_local)\s+)*', '', rest)
        m = re.match(r'(global|constant)\s+(.*)$', rest2)
        if not m: return
        is_const = m.group(1) == 'constant'
        t, j = parse_type(m.group(2))
        init = m.group(2)[j:].strip()
        init = re.sub(r',\s*align \d+.*$', '', init).strip()
        init = re.sub(r',\s*section .*$', '', init).strip()
        self.globals[name] = (t, init or None, is_const)

class Function(object):
    def __init__(self, mod, name, params, body, header):
        self.mod, self.name, self.header = mod, name, header
        self.params = []
        for p in split_top(params):
            p = p.strip()
            if not p or p == '...': continue
            t, j = parse_type(p)
            nm = p[j:].replace('noundef', '').strip().split()[-1] if p[j:].strip() else None
            self.params.append((t, nm))
        self.blocks = {}; self.order = []
        cur = 'entry' if body and not re.match(r'^[\w.$-]+:', body[0]) else None
        if cur: self.blocks[cur] = []; self.order.append(cur)
        k = 0
        while k < len(body):
            ln = body[k]
            m = re.match(r'^([\w.$-]+):', ln)
            if m:
                cur = m.group(1); self.blocks[cur] = []; self.order.append(cur); k += 1; continue
            s = ln.strip()
            if not s or s.startswith(';'): k += 1; continue
            if s.startswith('switch ') and s.endswith('['):
                while not body[k].strip().endswith(']'):
                    k += 1; s += ' ' + body[k].strip()
            s = re.sub(r',\s*![\w.]+ !\d+', '', s)
            s = re.sub(r'\s*;.*$', '', s) if '; preds' in s else s
            self.blocks[cur].append(s)
            k += 1

def split_top(s, sep=','):
    """split on top-level separators (not inside (), [], {}, <>)"""
    out, depth, cur = [], 0, []
    i = 0
    while i < len(s):
        c = s[i]
        if c in '([{': depth += 1
        elif c in ')]}': depth -= 1
        if c == '"':
            j = s.index('"', i + 1); cur.append(s[i:j+1]); i = j + 1; continue
        if c == sep and depth == 0:
            out.append(''.join(cur)); cur = []
        else: cur.append(c)
        i += 1
    if cur or out: out.append(''.join(cur))
    return out

def compile_to_ir(cfile, repo, outdir):
    """clang -O0 -emit-llvm of one source file of the repo (regenerated on every run)"""
    pyinc = subprocess.run(['/venv/bin/python', '-c', "import sysconfig;print(sysconfig.get_paths()['include'])"],
                           capture_output=True, text=True).stdout.strip()
    out = os.path.join(outdir, os.path.basename(cfile)[:-2] + '.ll')
    r = subprocess.run(['clang', '-O0', '-Xclang', '-disable-O0-optnone', '-S', '-emit-llvm', '-fno-discard-value-names', '-w',
                        '-I' + pyinc, '-I' + os.path.join(repo, 'src', 'C'), cfile, '-o', out], capture_output=True, text=True)
    if r.returncode != 0: raise IRError('clang failed on %s: %s' % (cfile, r.stderr[-500:]))
    return out

def src_hash(path):
    return hashlib.sha256(open(path, 'rb').read()).hexdigest()[:16]
