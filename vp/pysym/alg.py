"""Two interchangeable 'algebras' in which oracles are written once:
SymAlg  - numbers are z3 Real terms, predicates are z3 Bool terms (decided by the solver);
ConcAlg - numbers are python floats, predicates are bools with a tolerance *in favour of
          the code* (used when a solver counterexample is replayed on the real build)."""
import math, fractions

class ConcAlg(object):
    sym = False
    def __init__(self, rtol=1e-7, atol=1e-9):
        self.rtol, self.atol = rtol, atol
    def num(self, v): return float(v)
    def const(self, v): return float(v)
    def sqrt(self, a): return math.sqrt(a) if a >= 0 else float('nan')
    def ite(self, c, a, b): return a if c else b
    def _tol(self, a, b): return self.atol + self.rtol * (abs(a) + abs(b))
    def eq(self, a, b):
        if a != a or b != b: return False
        return abs(a - b) <= self._tol(a, b)
    def le(self, a, b): return a <= b + self._tol(a, b)
    def lt(self, a, b): return a < b + self._tol(a, b)
    def ge(self, a, b): return self.le(b, a)
    def gt(self, a, b): return self.lt(b, a)
    # strict comparisons used inside oracle *definitions* (branching), no tolerance
    def xle(self, a, b): return a <= b
    def xlt(self, a, b): return a < b
    def and_(self, *xs): return all(xs)
    def or_(self, *xs): return any(xs)
    def not_(self, x): return not x
    def implies(self, a, b): return (not a) or b
    def max(self, *xs):
        return max(xs)
    def min(self, *xs):
        return min(xs)
    def abs(self, a): return abs(a)
    def true(self): return True

class SymAlg(object):
    sym = True
    def __init__(self):
        import z3
        self.z3 = z3
        self.side = []       # definitional side constraints (sqrt symbols) of the oracle
        self._sq = {}
        self._n = 0
    def num(self, v):
        from .sym import T
        return T(v)
    def const(self, v):
        z3 = self.z3
        if isinstance(v, float): return z3.RealVal(str(fractions.Fraction(v)))
        return z3.RealVal(str(v))
    def sqrt(self, a):
        z3 = self.z3
        a = z3.simplify(a)
        k = a.get_id()
        from .sym import CTX
        if k in CTX.sqrt_defs:          # same radicand as a sqrt the code took: same symbol
            return CTX.sqrt_defs[k][0]
        if k not in self._sq:
            r = z3.Real('osq!%d' % len(self._sq))
            self._sq[k] = (r, a)        # keep `a` alive: ids of freed ASTs are recycled
            self.side += [r >= 0, r * r == a]
        return self._sq[k][0]
    def ite(self, c, a, b): return self.z3.If(c, a, b)
    def eq(self, a, b): return a == b
    def le(self, a, b): return a <= b
    def lt(self, a, b): return a < b
    def ge(self, a, b): return a >= b
    def gt(self, a, b): return a > b
    xle, xlt = le, lt
    def and_(self, *xs): return self.z3.And(*xs) if xs else self.z3.BoolVal(True)
    def or_(self, *xs): return self.z3.Or(*xs) if xs else self.z3.BoolVal(False)
    def not_(self, x): return self.z3.Not(x)
    def implies(self, a, b): return self.z3.Implies(a, b)
    def max(self, *xs):
        r = xs[0]
        for v in xs[1:]: r = self.z3.If(r >= v, r, v)
        return r
    def min(self, *xs):
        r = xs[0]
        for v in xs[1:]: r = self.z3.If(r <= v, r, v)
        return r
    def abs(self, a): return self.z3.If(a >= 0, a, -a)
    def true(self): return self.z3.BoolVal(True)
