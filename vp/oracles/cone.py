"""Definition oracle for the cone-algebra kernels of cvxopt.misc, written directly from the
mathematical definitions (docstrings of misc.py / doc/source/coneprog.rst), independent of
either implementation.  Vectors are python lists of algebra numbers (vp.pysym.alg); the
product-cone layout is  [mnl nonlinear | dims['l'] | 'q' blocks | 's' blocks m*m column-major].
For 's' blocks only the lower triangle ('L' storage) is meaningful."""

def layout(dims, mnl=0):
    """returns (nl_end, [(start, m) for q], [(start, m) for s], total_unpacked)"""
    ind = mnl + dims['l']
    q = []
    for m in dims['q']:
        q.append((ind, m)); ind += m
    s = []
    for m in dims['s']:
        s.append((ind, m)); ind += m*m
    return mnl + dims['l'], q, s, ind

def symL(x, off, m):
    """symmetric m x m matrix (list of rows) read from the lower triangle at x[off:]"""
    return [[x[off + max(i, j) + min(i, j)*m] for j in range(m)] for i in range(m)]

def matmul(A, B):
    n, k, p = len(A), len(B), (len(B[0]) if B else 0)
    return [[_sum(A[i][l]*B[l][j] for l in range(k)) for j in range(p)] for i in range(n)]

def transpose(A):
    return [list(r) for r in zip(*A)] if A else []

def _sum(it, zero=0):
    acc = None
    for v in it:
        acc = v if acc is None else acc + v
    return zero if acc is None else acc

def colmajor(v, m):
    """m x m matrix (rows) from a column-major list"""
    return [[v[i + j*m] for j in range(m)] for i in range(m)]

# ------------------------------------------------------------------ scale

def scale(A, x, ncols, W, dims, mnl, trans, inverse):
    """x: list (n*ncols, column-major), W: dict of lists (dnl,dnli,d,di,v,beta,r,rti; r/rti
    column-major lists).  Returns dict index -> expected value for every *meaningful* cell
    (lower triangles of 's' blocks)."""
    nl, q, s, N = layout(dims, mnl)
    out = {}
    for c in range(ncols):
        base = c*N
        pos = 0
        if mnl:
            w = W['dnl'] if inverse == 'N' else W['dnli']
            for i in range(mnl): out[base + i] = w[i]*x[base + i]
            pos = mnl
        w = W['d'] if inverse == 'N' else W['di']
        for i in range(dims['l']): out[base + pos + i] = w[i]*x[base + pos + i]
        for k, (st, m) in enumerate(q):
            v, beta = W['v'][k], W['beta'][k]
            xk = [x[base + st + i] for i in range(m)]
            J = [1] + [-1]*(m - 1)
            if inverse == 'N':
                # beta*(2 v v' - J) xk
                vx = _sum(v[i]*xk[i] for i in range(m))
                for i in range(m): out[base + st + i] = beta*(2*v[i]*vx - J[i]*xk[i])
            else:
                # 1/beta * (2 J v v' J - J) xk
                vJx = _sum(v[i]*J[i]*xk[i] for i in range(m))
                for i in range(m): out[base + st + i] = (2*J[i]*v[i]*vJx - J[i]*xk[i]) / beta
        for k, (st, m) in enumerate(s):
            X = symL(x, base + st, m)
            if inverse == 'N':
                r = colmajor(W['r'][k], m)
                Y = matmul(matmul(transpose(r), X), r) if trans == 'N' else matmul(matmul(r, X), transpose(r))
            else:
                rti = colmajor(W['rti'][k], m)
                Y = matmul(matmul(rti, X), transpose(rti)) if trans == 'N' else matmul(matmul(transpose(rti), X), rti)
            for j in range(m):
                for i in range(j, m): out[base + st + i + j*m] = Y[i][j]
    return out

def scale_frame(dims, mnl, ncols):
    """cells that scale may change without the definition saying anything: strict upper
    triangles of the 's' blocks."""
    nl, q, s, N = layout(dims, mnl)
    free = set()
    for c in range(ncols):
        for (st, m) in s:
            for j in range(m):
                for i in range(j): free.add(c*N + st + i + j*m)
    return free

# ------------------------------------------------------------------ scale2

def scale2(A, lmbda, x, dims, mnl, inverse):
    """x := H(lambda^{1/2}) x ('N') or H(lambda^{-1/2}) x ('I'), single column.
    lmbda uses diagonal storage for the 's' blocks."""
    nl, q, s, N = layout(dims, mnl)
    out = {}
    for i in range(nl):
        out[i] = x[i]/lmbda[i] if inverse == 'N' else x[i]*lmbda[i]
    for (st, m) in q:
        lam = [lmbda[st + i] for i in range(m)]
        xk = [x[st + i] for i in range(m)]
        a = A.sqrt(lam[0]*lam[0] - _sum(lam[i]*lam[i] for i in range(1, m)))
        l = [e/a for e in lam]
        if inverse == 'N':
            lx = l[0]*xk[0] - _sum(l[i]*xk[i] for i in range(1, m))      # l'J x
            out[st] = lx/a
            for i in range(1, m):
                out[st + i] = (xk[i] - (xk[0] + lx)/(l[0] + 1)*l[i])/a
        else:
            lx = _sum(l[i]*xk[i] for i in range(m))
            out[st] = a*lx
            for i in range(1, m):
                out[st + i] = a*(xk[i] + (xk[0] + lx)/(l[0] + 1)*l[i])
    ind2 = nl + sum(dims['q'])
    for (st, m) in s:
        for j in range(m):
            for i in range(m):
                c = A.sqrt(lmbda[ind2 + i]) * A.sqrt(lmbda[ind2 + j])
                out[st + i + j*m] = x[st + i + j*m]/c if inverse == 'N' else x[st + i + j*m]*c
        ind2 += m
    return out

# ------------------------------------------------------------------ pack / unpack

def pack(A, x, dims, mnl, offsetx, sqrt2):
    """returns list of expected packed values (length nlq + sum m(m+1)/2)"""
    nl, q, s, N = layout(dims, mnl)
    nlq = nl + sum(dims['q'])
    out = [x[offsetx + i] for i in range(nlq)]
    for (st, m) in s:
        for j in range(m):
            for i in range(j, m):
                e = x[offsetx + st + i + j*m]
                out.append(e if i == j else sqrt2*e)
    return out

def unpack(A, xp, dims, mnl, offsetx, sqrt2):
    """returns dict (unpacked index -> expected) for lower triangles of the 's' blocks and
    the non-'s' part."""
    nl, q, s, N = layout(dims, mnl)
    nlq = nl + sum(dims['q'])
    out = {i: xp[offsetx + i] for i in range(nlq)}
    ip = offsetx + nlq
    for (st, m) in s:
        for j in range(m):
            for i in range(j, m):
                out[st + i + j*m] = xp[ip] if i == j else xp[ip]/sqrt2
                ip += 1
    return out

# ------------------------------------------------------------------ inner products

def sdot(A, x, y, dims, mnl):
    nl, q, s, N = layout(dims, mnl)
    nlq = nl + sum(dims['q'])
    acc = _sum((x[i]*y[i] for i in range(nlq)), A.const(0))
    for (st, m) in s:
        for j in range(m):
            for i in range(j, m):
                t = x[st + i + j*m]*y[st + i + j*m]
                acc = acc + (t if i == j else 2*t)
    return acc

def jdot(A, x, y, n, offsetx, offsety):
    return x[offsetx]*y[offsety] - _sum((x[offsetx + i]*y[offsety + i] for i in range(1, n)), A.const(0))

# ------------------------------------------------------------------ sgemv

def sgemv(A, G, ncolsG, x, y, dims, trans, alpha, beta):
    """G: column-major list (N x n).  returns list of expected y."""
    nl, q, s, N = layout(dims, 0)
    n = ncolsG
    if trans == 'N':
        return [alpha*_sum((G[i + j*N]*x[j] for j in range(n)), A.const(0)) + beta*y[i] for i in range(N)]
    nlq = nl + sum(dims['q'])
    out = []
    for j in range(n):
        acc = _sum((G[i + j*N]*x[i] for i in range(nlq)), A.const(0))
        for (st, m) in s:
            for c in range(m):
                for r in range(c, m):
                    t = G[st + r + c*m + j*N]*x[st + r + c*m]
                    acc = acc + (t if r == c else 2*t)
        out.append(alpha*acc + beta*y[j])
    return out

# ------------------------------------------------------------------ trisc / triusc / symm

def trisc(A, x, dims, offset):
    nl, q, s, N = layout(dims, 0)
    out = {}
    for (st, m) in s:
        for j in range(m):
            for i in range(m):
                p = offset + st + i + j*m
                out[p] = x[p] if i == j else (2*x[p] if i > j else A.const(0))
    return out

def triusc(A, x, dims, offset):
    nl, q, s, N = layout(dims, 0)
    out = {}
    for (st, m) in s:
        for j in range(m):
            for i in range(j + 1, m):
                p = offset + st + i + j*m
                out[p] = x[p]/2
    return out

def symm(A, x, n, offset):
    out = {}
    for j in range(n):
        for i in range(j):
            out[offset + i + j*n] = x[offset + j + i*n]
    return out

# ------------------------------------------------------------------ Jordan products

def sprod(A, x, y, dims, mnl, diag):
    nl, q, s, N = layout(dims, mnl)
    out = {}
    for i in range(nl): out[i] = x[i]*y[i]
    for (st, m) in q:
        out[st] = _sum(x[st + i]*y[st + i] for i in range(m))
        for i in range(1, m): out[st + i] = y[st]*x[st + i] + x[st]*y[st + i]
    if diag == 'N':
        for (st, m) in s:
            X, Y = symL(x, st, m), symL(y, st, m)
            XY, YX = matmul(X, Y), matmul(Y, X)
            for j in range(m):
                for i in range(j, m): out[st + i + j*m] = (XY[i][j] + YX[i][j])/2
    else:
        ind2 = nl + sum(dims['q'])
        for (st, m) in s:
            for j in range(m):
                for i in range(j, m):
                    out[st + i + j*m] = (y[ind2 + i] + y[ind2 + j])/2 * x[st + i + j*m]
            ind2 += m
    return out

def ssqr(A, y, dims, mnl):
    """x := y o y, diagonal storage for 's' (len = nl + sum q + sum s)"""
    nl = mnl + dims['l']
    out = {}
    for i in range(nl): out[i] = y[i]*y[i]
    ind = nl
    for m in dims['q']:
        out[ind] = _sum(y[ind + i]*y[ind + i] for i in range(m))
        for i in range(1, m): out[ind + i] = 2*y[ind]*y[ind + i]
        ind += m
    for m in dims['s']:
        for i in range(m): out[ind + i] = y[ind + i]*y[ind + i]
        ind += m
    return out

# ------------------------------------------------------------------ max_step

def max_step(A, x, dims, mnl):
    """min{t | x + t e >= 0}; 's' blocks of order <= 2 in closed form (lower triangle)."""
    nl, q, s, N = layout(dims, mnl)
    ts = []
    if nl:
        ts.append(-A.min(*[x[i] for i in range(nl)]))
    for (st, m) in q:
        ts.append(A.sqrt(_sum((x[st + i]*x[st + i] for i in range(1, m)), A.const(0))) - x[st])
    for (st, m) in s:
        if m == 0: continue
        if m == 1: ts.append(-x[st])
        elif m == 2:
            a, b, c = x[st], x[st + 1], x[st + 3]
            ts.append(-((a + c) - A.sqrt((a - c)*(a - c) + 4*b*b))/2)
        else:
            raise NotImplementedError('max_step oracle for order %d' % m)
    if not ts: return A.const(0)
    return A.max(*ts)

def in_cone(A, x, dims, mnl=0, strict=False):
    """predicate: x in the (closed/open) cone, 's' blocks of order <= 2, lower triangle."""
    nl, q, s, N = layout(dims, mnl)
    cmp_ = A.gt if strict else A.ge
    cs = [cmp_(x[i], A.const(0)) for i in range(nl)]
    for (st, m) in q:
        n2 = _sum((x[st + i]*x[st + i] for i in range(1, m)), A.const(0))
        cs.append(cmp_(x[st], A.const(0)))
        cs.append(cmp_(x[st]*x[st], n2))
    for (st, m) in s:
        if m == 0: continue
        if m == 1: cs.append(cmp_(x[st], A.const(0)))
        elif m == 2:
            a, b, c = x[st], x[st + 1], x[st + 3]
            cs += [cmp_(a, A.const(0)), cmp_(c, A.const(0)), cmp_(a*c, b*b)]
        else:
            raise NotImplementedError('in_cone for order %d' % m)
    return A.and_(*cs)
