"""C10 (and C07, C04) on cvxprog.cpl - KKT failures at the factorisation call of an arbitrary iteration,
including the restore-and-retry path after a relaxed line search.

Engine P.  The real source of cpl runs from the loop head of an arbitrary iteration k.  Symbolic:
problem data, tolerances, iterate (x, y, s, z interior), the scaling W, lmbda, the *saved state*
(x0, y0, s0, z0, W0, lmbda0, lmbdasq0, rx0, ry0, rznl0, rzl0, phi0, gap0) and the relaxed-line-search
counter relaxed_iters in [-1, MAX_RELAXED_ITERS].  The user KKT solver stub raises ArithmeticError at
its first call (the in-loop factorisation), and - plan 'twice' - again at the retry.

Stated invariant of the saved state (assumed iff relaxed_iters >= 1, the only situation in which the
code has written it, cvxprog.py "Save state"): s0, z0 strictly interior, gap0 = <s0, z0>, the
residual vectors rx0, ry0, rznl0, rzl0 are the residuals of (x0, y0, s0, z0), W0 satisfies the
documented scaling invariants and W0 z0 = W0^{-T} s0 = lmbda0 on the 'nl'/'l' blocks.  For
relaxed_iters <= 0 the saved state is arbitrary (it is all zeros until the first save).

Obligations (z3, negation must be unsat under the path condition):
 C10  k = 0: the only admissible outcome is ValueError('Rank...').
 C10  k >= 1: no exception leaves cpl; a result returned after the failure has status 'unknown',
      s and z strictly inside the cone, and every accuracy field equals its recomputation from the
      returned vectors (oracle of C04, residuals with F evaluated by the memoised stub at the
      returned x).
 C07  the scaling handed to the KKT solver at the retry satisfies the documented invariants
      (dnl*dnli = 1, d*di = 1, positive; beta > 0; v0 > 0, v'Jv = 1; r' rti = I) and maps the
      iterates handed over with it to lmbda on the 'nl'/'l' blocks; x and znl handed over are
      those of the restored iterate.
"""
import json, sys, os, re, time
from vp.checks import conelp_h as H
from vp.checks import c04
from vp.oracles import cone as O
from vp.pysym.cut import Cut

DIMS_QUICK = [{'l': 1, 'q': [], 's': []}, {'l': 0, 'q': [2], 's': []}, {'l': 1, 'q': [], 's': [2]}]
DIMS_THOROUGH = DIMS_QUICK + [{'l': 2, 'q': [], 's': []}, {'l': 0, 'q': [], 's': [2, 2]}]
# ({'l': 1, 'q': [2], 's': [1, 2]} was probed: the residual-norm identity of the returned statistics stays undecided at 60 s per query - outside)

def configs(tier):
    out = []
    for d in (DIMS_QUICK if tier == 'quick' else DIMS_THOROUGH):
        for mnl in ((1, 0) if tier == 'quick' else (1, 0, 2)):
            for plan in ('once', 'twice'):
                out.append({'solver': 'cpl', 'dims': d, 'mnl': mnl, 'n': 2, 'p': 1, 'kclass': 'k1', 'plan': plan, 'maxiters': 7})
        out.append({'solver': 'cpl', 'dims': d, 'mnl': 1, 'n': 2, 'p': 1, 'kclass': 'k0', 'plan': 'once', 'maxiters': 7})
    return out

# ---------------------------------------------------------------------------------- scaling dictionaries

def fresh_W(dims, mnl, mk, tagp):
    def vec(nm, n): return [mk('%s%s%d' % (tagp, nm, i)) for i in range(n)]
    return {'dnl': vec('dnl', mnl), 'dnli': vec('dnli', mnl), 'd': vec('d', dims['l']), 'di': vec('di', dims['l']),
            'v': [vec('v%d_' % k, m) for k, m in enumerate(dims['q'])],
            'beta': [mk('%sbeta%d' % (tagp, k)) for k in range(len(dims['q']))],
            'r': [vec('r%d_' % k, m*m) for k, m in enumerate(dims['s'])],
            'rti': [vec('rti%d_' % k, m*m) for k, m in enumerate(dims['s'])]}

def W_to_matrices(Wd, dims, mnl, Wv):
    M = Wd.matrix
    def mat(v, size): return M(list(v), size, 'd') if size[0]*size[1] else M(0.0, size)
    return {'dnl': mat(Wv['dnl'], (mnl, 1)), 'dnli': mat(Wv['dnli'], (mnl, 1)),
            'd': mat(Wv['d'], (dims['l'], 1)), 'di': mat(Wv['di'], (dims['l'], 1)),
            'v': [mat(v, (len(v), 1)) for v in Wv['v']], 'beta': list(Wv['beta']),
            'r': [mat(r, (m, m)) for r, m in zip(Wv['r'], dims['s'])],
            'rti': [mat(r, (m, m)) for r, m in zip(Wv['rti'], dims['s'])]}

def W_terms(A, Wm, dims, mnl):
    """snapshot (alg numbers) of a scaling dictionary of matrices"""
    def cells(m): return [A.num(m[i]) for i in range(len(m))]
    return {'dnl': cells(Wm['dnl']), 'dnli': cells(Wm['dnli']), 'd': cells(Wm['d']), 'di': cells(Wm['di']),
            'v': [cells(v) for v in Wm['v']], 'beta': [A.num(b) for b in Wm['beta']],
            'r': [cells(r) for r in Wm['r']], 'rti': [cells(r) for r in Wm['rti']]}

def W_invariants(A, Wt, dims, mnl):
    """list of (label, predicate): the documented invariants of a scaling dictionary"""
    one, zero = A.const(1), A.const(0)
    out = []
    for i in range(mnl):
        out.append(('dnl[%d] > 0 and dnl*dnli = 1' % i, A.and_(A.gt(Wt['dnl'][i], zero), A.eq(Wt['dnl'][i]*Wt['dnli'][i], one))))
    for i in range(dims['l']):
        out.append(('d[%d] > 0 and d*di = 1' % i, A.and_(A.gt(Wt['d'][i], zero), A.eq(Wt['d'][i]*Wt['di'][i], one))))
    for k, m in enumerate(dims['q']):
        v = Wt['v'][k]
        out.append(("beta[%d] > 0, v0 > 0, v'Jv = 1" % k,
                    A.and_(A.gt(Wt['beta'][k], zero), A.gt(v[0], zero), A.eq(v[0]*v[0] - O._sum((v[i]*v[i] for i in range(1, m)), zero), one))))
    for k, m in enumerate(dims['s']):
        r, rti = O.colmajor(Wt['r'][k], m), O.colmajor(Wt['rti'][k], m)
        P = O.matmul(O.transpose(r), rti)
        out.append(("r[%d]' * rti = I" % k, A.and_(*[A.eq(P[i][j], one if i == j else zero) for i in range(m) for j in range(m)])))
    return out

def W_maps(A, Wt, s, z, lmbda, dims, mnl):
    """W z = W^{-T} s = lmbda on the componentwise blocks ('nl', 'l')"""
    out = []
    for i in range(mnl):
        out.append(('nl[%d]: dnl*z = lmbda and s = dnl*lmbda' % i, A.and_(A.eq(Wt['dnl'][i]*z[i], lmbda[i]), A.eq(s[i], Wt['dnl'][i]*lmbda[i]))))
    for i in range(dims['l']):
        j = mnl + i
        out.append(('l[%d]: d*z = lmbda and s = d*lmbda' % i, A.and_(A.eq(Wt['d'][i]*z[j], lmbda[j]), A.eq(s[j], Wt['d'][i]*lmbda[j]))))
    return out

# ---------------------------------------------------------------------------------- the run

def run_fault(cfg, Wd, A, mk, assume, cap):
    dims, n, p, mnl = cfg['dims'], cfg['n'], cfg['p'], cfg['mnl']
    N = H.N_of(dims)
    num = A.num
    d = H.make_data(cfg, mk)
    c, G, h, Am, b = H.to_matrices(Wd, cfg, d)
    M = Wd.matrix
    feastol, abstol, reltol = mk('feastol'), mk('abstol'), mk('reltol')
    assume(A.gt(num(feastol), A.const(0)))
    assume(A.or_(A.gt(num(abstol), A.const(0)), A.gt(num(reltol), A.const(0))))
    cap['opts'] = {'feastol': num(feastol), 'abstol': num(abstol), 'reltol': num(reltol)}
    maxiters = cfg.get('maxiters', 7); cap['maxiters'] = maxiters
    opts = {'show_progress': False, 'feastol': feastol, 'abstol': abstol, 'reltol': reltol, 'maxiters': maxiters, 'refinement': 0}
    memo = {}
    d['f'] = []; d['Df'] = []
    cap['Fmemo'] = memo
    def Fstub(x=None, z=None):
        if x is None: return mnl, M(0.0, (n, 1))
        if Wd.mode == 'sym':
            import z3
            key = tuple(str(z3.simplify(num(x[i]))) for i in range(n))      # xcopy is scal(0)+axpy: 0*old + 1*new
        else:
            key = tuple(repr(float(x[i])) for i in range(n))
        if key not in memo:
            tag = 'F%d' % len(memo)
            fv = [mk('%s_f%d' % (tag, i)) for i in range(mnl)]
            Dv = [mk('%s_Df%d_%d' % (tag, i, j)) for j in range(n) for i in range(mnl)]
            memo[key] = (fv, Dv)
        fv, Dv = memo[key]
        f = M(list(fv), (mnl, 1), 'd') if mnl else M(0.0, (0, 1))
        Df = M(list(Dv), (mnl, n), 'd') if mnl else M(0.0, (0, n))
        if z is None: return f, Df
        return f, Df, M(0.0, (n, n))
    cap['Fstub'] = Fstub
    mod = Wd.cvxprog
    from vp.pysym.loader import havoc_result
    def vp_iters(stop):
        k = mk('k', 'int')
        assume(A.ge(num(k), A.const(0))); assume(A.lt(num(k), num(stop)))
        if cfg['kclass'] == 'k0': assume(A.eq(num(k), A.const(0)))
        else:
            assume(A.ge(num(k), A.const(1))); assume(A.lt(num(k), A.const(maxiters)))
        cap['k'] = k
        yield k
        raise Cut('second iteration')
    def fill(m, tag):
        for i in range(len(m)): m[i] = mk('%s%d' % (tag, i))
        return [num(m[i]) for i in range(len(m))]
    def vp_havoc(which, loc, names):
        if which != 'cpl': raise RuntimeError('unexpected havoc site ' + which)
        x, y, s, z = (fill(loc[nm], 'h' + nm) for nm in ('x', 'y', 's', 'z'))
        assume(O.in_cone(A, s, dims, mnl, strict=True)); assume(O.in_cone(A, z, dims, mnl, strict=True))
        if len(s): assume(A.gt(O.sdot(A, s, z, dims, mnl), A.const(0)))
        vals = {}
        if cfg['kclass'] == 'k0':
            return havoc_result(loc, names, vals)
        for nm in ('pres0', 'dres0', 'resx0', 'resznl0'):
            v = mk(nm); assume(A.ge(num(v), A.const(1))); vals[nm] = v
        for nm in ('theta1', 'theta2', 'theta3'):
            v = mk(nm); assume(A.gt(num(v), A.const(0))); vals[nm] = v
        # current scaling and scaled point: arbitrary (their validity is C07's business elsewhere)
        Wv = fresh_W(dims, mnl, mk, 'W1'); vals['W'] = W_to_matrices(Wd, dims, mnl, Wv)
        fill(loc['lmbda'], 'lm')
        # saved state, overwritten in place
        x0, y0, s0, z0 = (fill(loc[nm + '0'], 'sv' + nm) for nm in ('x', 'y', 's', 'z'))
        lm0 = fill(loc['lmbda0'], 'svlm'); fill(loc['lmbdasq0'], 'svlmsq')
        rx0, ry0, rznl0, rzl0 = (fill(loc[nm], 'sv' + nm) for nm in ('rx0', 'ry0', 'rznl0', 'rzl0'))
        W0v = fresh_W(dims, mnl, mk, 'W0')
        W0 = loc['W0']
        for key in ('dnl', 'dnli', 'd', 'di'):
            for i in range(len(W0[key])): W0[key][i] = W0v[key][i]
        for k_ in range(len(dims['q'])):
            for i in range(dims['q'][k_]): W0['v'][k_][i] = W0v['v'][k_][i]
            W0['beta'][k_] = W0v['beta'][k_]
        for k_ in range(len(dims['s'])):
            for i in range(dims['s'][k_]**2):
                W0['r'][k_][i] = W0v['r'][k_][i]; W0['rti'][k_][i] = W0v['rti'][k_][i]
        gap0, phi0 = mk('gap0'), mk('phi0')
        vals['gap0'] = gap0; vals['phi0'] = phi0
        ri = mk('relaxed_iters', 'int')
        assume(A.ge(num(ri), A.const(-1))); assume(A.le(num(ri), A.const(loc['MAX_RELAXED_ITERS'])))
        vals['relaxed_iters'] = ri
        # ---- invariant of the saved state: holds whenever relaxed_iters >= 1
        W0t = W_terms(A, W0, dims, mnl)
        inv = [O.in_cone(A, s0, dims, mnl, strict=True), O.in_cone(A, z0, dims, mnl, strict=True),
               A.eq(num(gap0), O.sdot(A, s0, z0, dims, mnl))]
        inv += [g for _, g in W_invariants(A, W0t, dims, mnl)]
        inv += [g for _, g in W_maps(A, W0t, s0, z0, lm0, dims, mnl)]
        # residuals of the saved point (F evaluated by the stub at x0)
        f0, Df0 = Fstub(loc['x0'])
        d0 = dict(d); d0['f'] = [f0[i] for i in range(mnl)]; d0['Df'] = [Df0[i] for i in range(mnl*n)]
        dn0 = {key: [num(e) for e in v] for key, v in d0.items()}
        sol0 = {'x': loc['x0'], 'y': loc['y0'], 'snl': loc['s0'][:mnl], 'sl': loc['s0'][mnl:], 'znl': loc['z0'][:mnl], 'zl': loc['z0'][mnl:]}
        r0 = c04.residuals(A, cfg, dn0, sol0)
        inv += [A.eq(rx0[j], r0['rx'][j]) for j in range(n)] + [A.eq(ry0[i], r0['ry'][i]) for i in range(p)]
        inv += [A.eq(rznl0[i], r0['rznl'][i]) for i in range(mnl)] + [A.eq(rzl0[i], r0['rzl'][i]) for i in r0['rzl']]
        # (decided by the explorer - a fork - so that each conjunct is a top-level hypothesis the solver can substitute)
        if ri >= 1:
            for g in inv: assume(g)
        cap['saved'] = {'x': x0, 'y': y0, 's': s0, 'z': z0, 'lmbda': lm0, 'W': W0t, 'ri': num(ri)}
        return havoc_result(loc, names, vals)
    def vp_ret(val, loc):
        cap['locals'] = dict(loc); return val
    mod.__dict__['__vp_iters__'] = vp_iters; mod.__dict__['__vp_havoc__'] = vp_havoc; mod.__dict__['__vp_ret__'] = vp_ret
    calls = []
    cap['kkt_calls'] = calls
    nfail = 1 if cfg['plan'] == 'once' else 2
    def kkt(x, znl, W):
        rec = {'x': [num(x[i]) for i in range(len(x))], 'znl': [num(znl[i]) for i in range(len(znl))], 'W': W_terms(A, W, dims, mnl)}
        calls.append(rec)
        if len(calls) <= nfail: raise ArithmeticError('injected factorization failure #%d' % len(calls))
        # the retry succeeded: what the solver holds now is what the iteration continues from
        loc = sys._getframe(1).f_locals
        rec['state'] = {nm: [num(loc[nm][i]) for i in range(len(loc[nm]))] for nm in ('x', 's', 'z', 'lmbda')}
        rec['relaxed_iters'] = loc.get('relaxed_iters')
        raise Cut('KKT factorisation succeeded at the retry')
    misc = Wd.misc
    saved = misc.compute_scaling
    def _cs(s_, z_, lmbda, dims_, mnl_=None):
        # iteration 0: the scaling is computed here; its correctness is C07's business - arbitrary scaling, positive lmbda
        if cfg['kclass'] != 'k0': raise Cut('compute_scaling reached at an iteration k >= 1')
        for i in range(len(lmbda)):
            v = mk('lm%d' % i); assume(A.gt(num(v), A.const(0))); lmbda[i] = v
        return W_to_matrices(Wd, dims, mnl, fresh_W(dims, mnl, mk, 'Wc'))
    misc.compute_scaling = _cs
    try:
        sol = mod.cpl(c, Fstub, G, h, dims, Am, b, kktsolver=kkt, options=opts)
    finally:
        misc.compute_scaling = saved
    return d, sol

def returned_claims(A, cfg, d, sol, cap):
    """claims on a result returned after the failure (C04's oracle with F at the returned x)"""
    num = A.num
    n, mnl = cfg['n'], cfg['mnl']
    f, Df = cap['Fstub'](sol['x'])
    d2 = dict(d); d2['f'] = [f[i] for i in range(mnl)]; d2['Df'] = [Df[i] for i in range(mnl*n)]
    dn = {key: [num(e) for e in v] for key, v in d2.items()}
    sol2 = dict(sol); loc = cap['locals']
    sol2['__pres0__'], sol2['__dres0__'] = loc['pres0'], loc['dres0']
    res = c04.residuals(A, cfg, dn, sol2)
    nm = c04.norms_from_res(A, cfg, dn, res, sol['status'])
    full = c04.claims(A, cfg, dn, sol2, nm, cap['opts'], cap['k'], cap['maxiters'])
    out = [(label, goal) for (prop, label, goal, group) in full]
    s_full = H.vec_of(A, sol['snl']) + H.vec_of(A, sol['sl']); z_full = H.vec_of(A, sol['znl']) + H.vec_of(A, sol['zl'])
    out.append(('unknown(fault): s strictly inside the cone', O.in_cone(A, s_full, cfg['dims'], mnl, strict=True)))
    out.append(('unknown(fault): z strictly inside the cone', O.in_cone(A, z_full, cfg['dims'], mnl, strict=True)))
    return out

def retry_claims(A, cfg, cap):
    """claims on what the solver hands to the KKT solver at the retry (second call)"""
    dims, mnl = cfg['dims'], cfg['mnl']
    rec = cap['kkt_calls'][1]
    out = [('C07', 'retry: scaling handed to the KKT solver: ' + l, g) for l, g in W_invariants(A, rec['W'], dims, mnl)]
    st = rec.get('state')
    if st is not None:
        out += [('C07', 'retry: scaled point: ' + l, g) for l, g in W_maps(A, rec['W'], st['s'], st['z'], st['lmbda'], dims, mnl)]
        out.append(('C10', 'retry: x handed to the KKT solver is the restored iterate', A.and_(*[A.eq(a, b) for a, b in zip(rec['x'], st['x'])])))
        out.append(('C10', 'retry: znl handed to the KKT solver is the restored iterate', A.and_(*[A.eq(a, b) for a, b in zip(rec['znl'], st['z'][:mnl])])))
        out.append(('C10', 'retry: s strictly inside the cone', O.in_cone(A, st['s'], dims, mnl, strict=True)))
        out.append(('C10', 'retry: z strictly inside the cone', O.in_cone(A, st['z'], dims, mnl, strict=True)))
    return out

# ---------------------------------------------------------------------------------- symbolic job

_WORLD = None
def _world():
    global _WORLD
    if _WORLD is None:
        from vp.pysym import loader
        _WORLD = loader.load('sym', modules=('misc', 'coneprog', 'cvxprog'))
    return _WORLD

def generic_pins(names, cfg, seed_, ri):
    """complete concrete anchor: interior iterate and saved state, generic data, tiny tolerances"""
    import z3, random
    from fractions import Fraction as Fr
    dims, mnl = cfg['dims'], cfg['mnl']
    rnd = random.Random(17*seed_ + 3)
    def interior(shift):
        v = [Fr(1 + shift + i) for i in range(mnl + dims['l'])]
        for m in dims['q']: v += [Fr(m + 1 + shift)] + [Fr(1)]*(m - 1)
        for m in dims['s']:
            for j in range(m):
                for i in range(m): v.append(Fr(m + 1 + shift + i) if i == j else Fr(1))
        return v
    vecs = {'hs': interior(1 + seed_), 'hz': interior(seed_), 'svs': interior(2 + seed_), 'svz': interior(1)}
    out = []
    for nme in sorted(names):
        if nme.startswith('sq!') or nme.startswith('osq!'): continue
        if nme == 'k': out.append(z3.Int('k') == (0 if cfg['kclass'] == 'k0' else 1)); continue
        if nme == 'relaxed_iters': out.append(z3.Int(nme) == ri); continue
        m_ = re.match(r'^(hs|hz|svs|svz)(\d+)$', nme)
        if m_: out.append(z3.Real(nme) == z3.RealVal(str(vecs[m_.group(1)][int(m_.group(2))]))); continue
        if nme in ('feastol', 'abstol', 'reltol'): out.append(z3.Real(nme) == z3.RealVal('1/1000000000')); continue
        if re.match(r'^(c\d+|G\d+_\d+|h\d+|A\d+_\d+|b\d+|hx\d+|hy\d+|svx\d+|svy\d+|F\d+_f\d+|F\d+_Df\d+_\d+)$', nme):
            out.append(z3.Real(nme) == z3.RealVal(str(Fr(rnd.choice([-3, -2, -1, 1, 2, 3]))))); continue
        # everything else (saved residuals, gap0, scalings, lmbda, normalisers) is left to the solver: it is
        # tied to the pinned values by the invariant
    return out

def job(cfg):
    import z3
    from vp.pysym import sym, prove, alg
    Wd = _world()
    tmo = int(cfg.get('_timeout_ms', 10000))
    res = {'paths': 0, 'outcomes': {}, 'obl': {'total': 0, 'unsat': 0, 'sat': 0, 'unknown': 0}, 'solver_s': 0.0,
           'sat': [], 'unknown': [], 'errors': [], 'samples': [], 'reach': False}
    state = {}
    def count(v, secs=0.0, n=1):
        res['obl']['total'] += n; res['obl'][v] += n; res['solver_s'] += secs
    def run_one():
        A = alg.SymAlg(); cap = {}
        state['A'], state['cap'] = A, cap
        def mk(name, kind='real'):
            return sym.SymInt(z3.Int(name)) if kind == 'int' else sym.SymReal(z3.Real(name))
        def assume(p_): sym.CTX.assume(p_)
        return run_fault(cfg, Wd, A, mk, assume, cap)
    def bump(k): res['outcomes'][k] = res['outcomes'].get(k, 0) + 1
    def have(label): return any(s_['label'] == label for s_ in res['sat'])
    def search(pc, extra, label, prop):
        """counterexample search: anchored first (both relaxed_iters classes), then free"""
        names = set()
        for f in pc: names |= sym.consts_of(f)
        for ri in (1, 0, 2, -1):
            for seed_ in range(2):
                v, m, dt = sym.check(list(pc) + generic_pins(names, cfg, seed_, ri) + list(extra), 4000, want_model=True)
                if v == 'sat': return 'sat', m, dt
        v, m, dt = sym.check(list(pc) + list(extra), tmo, want_model=True)
        return v, m, dt
    def decide(claims_, pc, A):
        for (prop, label, goal) in claims_:
            if have(label): continue
            if state.setdefault('undecided', {}).get(label, 0) >= 2: continue      # reported once as inconclusive; no further searches
            r = prove.prove(goal, pc, A.side, min(tmo, 5000), fallback=False, full_query=False)
            if r['verdict'] == 'unsat':
                count('unsat', r['secs']); continue
            v, m, dt = search(list(pc) + list(A.side), [z3.Not(goal)], label, prop)
            if v == 'sat':
                count('sat', dt); res['sat'].append({'label': label, 'prop': prop, 'model': sym.model_to_dict(m)})
            elif v == 'unsat': count('unsat', dt)
            else:
                state['undecided'][label] = state['undecided'].get(label, 0) + 1
                count('unknown', dt); res['unknown'].append(label)
    def on_path(kind, val, ctx):
        res['paths'] += 1
        A, cap = state['A'], state['cap']
        pc = list(ctx.pc)
        ncalls = len(cap.get('kkt_calls', []))
        injected = ncalls >= 1
        if kind == 'cut':
            if ncalls >= 2 and cap['kkt_calls'][1].get('state') is not None:
                bump('retry after restoring the saved state'); res['reach'] = True
                decide(retry_claims(A, cfg, cap), pc, A)
                if len(res['samples']) < 1: res['samples'].append({'plan': cfg['plan'], 'outcome': 'retry', 'claims': [l for _, l, _ in retry_claims(A, cfg, cap)][:6]})
            else:
                bump('cut (fault not reached on this path)')
            return
        if kind == 'exception':
            if isinstance(val, ValueError) and str(val).startswith('Rank('):
                if cfg['kclass'] == 'k0':
                    bump('ValueError(Rank...)'); count('unsat'); res['reach'] = True; return
                label = "ValueError('Rank...') raised after the first iteration"
            elif not injected:
                bump('exception before the fault: %s' % type(val).__name__)
                res['errors'].append('exception before the fault: %s: %s' % (type(val).__name__, str(val)[:100])); return
            else:
                label = '%s escapes cpl after the injected failure: %s' % (type(val).__name__, str(val)[:60])
            if have(label): bump(label + ' (further paths)'); return
            v, m, dt = search(pc, [], label, 'C10')
            if v == 'sat':
                count('sat', dt); bump(label); res['reach'] = True
                res['sat'].append({'label': label, 'prop': 'C10', 'model': sym.model_to_dict(m)})
            elif v == 'unsat': count('unsat', dt); bump('infeasible exception path')
            else: count('unknown', dt); res['unknown'].append(label)
            return
        if kind != 'return':
            res['errors'].append('path ended with %s: %s' % (kind, val)); return
        d, sol = val
        st = sol['status']
        bump("returned '%s'%s" % (st, '' if injected else ' (before the fault)'))
        if not injected: return
        res['reach'] = True
        if st != 'unknown':
            label = "status '%s' returned after the injected failure" % st
            v, m, dt = search(pc, [], label, 'C10')
            if v == 'sat':
                count('sat', dt)
                if not have(label): res['sat'].append({'label': label, 'prop': 'C10', 'model': sym.model_to_dict(m)})
            elif v == 'unsat': count('unsat', dt)
            else: count('unknown', dt); res['unknown'].append(label)
            return
        count('unsat')
        cl = [('C10', l, g) for l, g in returned_claims(A, cfg, d, sol, cap)]
        if ncalls >= 2:      # the failed retry hands over a scaling as well
            cl += [(p_, l, g) for (p_, l, g) in retry_claims(A, cfg, cap)]
        decide(cl, pc, A)
        if len(res['samples']) < 2: res['samples'].append({'plan': cfg['plan'], 'outcome': "returned 'unknown' after %d failure(s)" % ncalls, 'claims': [l for _, l, _ in cl][:6]})
    t0 = time.time()
    st_ = sym.explore(run_one, on_path=on_path, max_paths=int(cfg.get('_max_paths', 4000)))
    if st_['budget']: res['errors'].append('path budget exhausted')
    res['wall'] = round(time.time() - t0, 1)
    return res

# ---------------------------------------------------------------------------------- replay

def replay(cfg, model, label):
    import fractions
    from vp.pysym import loader, alg
    Wd = loader.load('conc', use_c=True, modules=('misc', 'coneprog', 'cvxprog'))
    A = alg.ConcAlg()
    def val(name):
        v = model.get(name)
        if v is None: return 1.0
        try: return float(fractions.Fraction(v))
        except Exception: return float(v)
    def mk(name, kind='real'):
        return int(round(val(name))) if kind == 'int' else val(name)
    pre = []
    def assume(p_): pre.append(bool(p_))
    cap = {}
    try:
        d, sol = run_fault(cfg, Wd, A, mk, assume, cap)
    except Cut:
        calls = cap.get('kkt_calls', [])
        if len(calls) >= 2 and calls[1].get('state') is not None:
            bad = [l for (_, l, g) in retry_claims(A, cfg, cap) if not g]
            return {'precond_ok': all(pre), 'outcome': 'retry', 'violated': bad}
        return {'precond_ok': all(pre), 'outcome': 'cut'}
    except Exception as e:
        if isinstance(e, ValueError) and str(e).startswith('Rank(') and cfg['kclass'] == 'k0':
            return {'precond_ok': all(pre), 'outcome': 'admissible ValueError'}
        return {'precond_ok': all(pre), 'outcome': 'escaped', 'violated': ['%s escapes cpl after the injected failure: %s' % (type(e).__name__, str(e)[:60])]}
    calls = cap.get('kkt_calls', [])
    if not calls: return {'precond_ok': all(pre), 'outcome': 'returned before fault'}
    if sol['status'] != 'unknown':
        return {'precond_ok': all(pre), 'outcome': 'returned', 'violated': ["status '%s' returned after the injected failure" % sol['status']]}
    bad = [l for (l, g) in returned_claims(A, cfg, d, sol, cap) if not g]
    if len(calls) >= 2: bad += [l for (_, l, g) in retry_claims(A, cfg, cap) if not g]
    return {'precond_ok': all(pre), 'outcome': 'returned unknown', 'violated': bad}

def replay_on_build(path):
    from vp import common
    r = common.run_conc(['-m', 'vp.checks.c10_cpl', '--replay-conc', path])
    if r.returncode != 0: return None, 'replay process failed: ' + r.stderr[-300:]
    try: dd = json.loads(r.stdout.strip().splitlines()[-1])
    except Exception: return None, 'unparsable replay output'
    if dd.get('precond_ok') and dd.get('violated'):
        return '%s' % (dd['violated'][:3],), None
    return None, 'not reproduced (%s; preconditions %s)' % (dd.get('outcome'), dd.get('precond_ok'))

def finding_key(cfg, label):
    lab = re.sub(r'[^A-Za-z]+', '-', label.split(':')[0] + '-' + (label.split(':')[1] if ':' in label else ''))[:70].strip('-')
    return 'cpl:factor#%s:%s:%s' % ('1' if cfg['plan'] == 'once' else '1+2', cfg['kclass'], lab)

if __name__ == '__main__':
    if len(sys.argv) >= 3 and sys.argv[1] == '--replay-conc':
        dd = json.load(open(sys.argv[2]))
        print(json.dumps(replay(dd['cfg'], dd['model'], dd.get('label'))))
