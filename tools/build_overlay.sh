#!/bin/bash
# Build an importable `cvxopt` package from a source tree (default /repo) into DEST.
#   usage: build_overlay.sh DEST [SRC]
# The pure-Python modules are copied from SRC/src/python; base, blas, lapack and
# misc_solvers are compiled from SRC/src/C against the system BLAS/LAPACK; the other
# extension modules (cholmod, umfpack, amd, glpk, dsdp, gsl, fftw) cannot be rebuilt in
# this sandbox (no headers) and are taken from the installed wheel in /venv.
set -e
DEST="$1"; SRC="${2:-/repo}"
[ -n "$DEST" ] || { echo "usage: $0 DEST [SRC]" >&2; exit 2; }
PYINC=$(/venv/bin/python -c "import sysconfig;print(sysconfig.get_paths()['include'])")
SUF=$(/venv/bin/python -c "import sysconfig;print(sysconfig.get_config_var('EXT_SUFFIX'))")
WHEEL=/venv/lib/python3.12/site-packages
mkdir -p "$DEST/cvxopt"
cp "$SRC"/src/python/*.py "$DEST/cvxopt/"
[ -f "$DEST/cvxopt/_version.py" ] || cp "$WHEEL/cvxopt/_version.py" "$DEST/cvxopt/_version.py"
C="$SRC/src/C"
CFLAGS="-O1 -g -fPIC -shared -fno-strict-aliasing -w -I$PYINC -I$C"
gcc $CFLAGS -o "$DEST/cvxopt/base$SUF" $C/base.c $C/dense.c $C/sparse.c -lm -llapack -lblas &
gcc $CFLAGS -o "$DEST/cvxopt/blas$SUF" $C/blas.c -lblas &
gcc $CFLAGS -o "$DEST/cvxopt/lapack$SUF" $C/lapack.c -llapack -lblas &
gcc $CFLAGS -o "$DEST/cvxopt/misc_solvers$SUF" $C/misc_solvers.c -lm -llapack -lblas &
FAIL=0
for j in $(jobs -p); do wait $j || FAIL=1; done
[ $FAIL = 0 ] || { echo "overlay build failed" >&2; exit 1; }
for m in cholmod umfpack amd glpk dsdp gsl fftw; do
  ln -sf "$WHEEL/cvxopt/$m$SUF" "$DEST/cvxopt/$m$SUF"
done
ln -sfn "$WHEEL/cvxopt.libs" "$DEST/cvxopt.libs"
echo "$DEST"
