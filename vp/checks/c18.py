"""C18 / C19 (lapack.c part) - LAPACK wrappers: footprints, workspace protocol, info mapping.

Engine L on /repo/src/C/lapack.c (IR regenerated on every run).  For the routines the solvers
rely on (real variants: getrf getrs gesv potrf potrs posv sytrf sytrs trtrs geqrf ormqr gels
gesvd syevd syevr) z3 decides at every external LAPACK call, for all argument values:
  Q_small / Q_wrap  every array argument (matrix buffers, pivot / tau / eigenvalue vectors,
                    malloc'ed work space) lies inside its buffer or heap block   (C19)
  Q_work            the work array handed to the routine has at least max(1,lwork) elements
                    and the size passed to malloc is lwork * element size        (C18)
  Q_info            info > 0 => ArithmeticError, info < 0 => ValueError, info = 0 => normal
                    return                                                        (C18)
  Q_rej             a rejected call made no LAPACK call and no buffer write       (C18)
  direct accesses   every load/store of the wrapper itself into a matrix buffer or heap block
                    (pivot conversion, copies) is in bounds, loops unrolled 3 times (C19)
The numerical result of LAPACK (residuals, orthogonality, ordering) is a property of the
external library and is not claimed.
"""
import json, sys, os, re, time, tempfile, shutil, subprocess
import z3
from vp.checks import c17
from vp.llsym.exec import Ptr, NULL, Unsupported, Event, is_conc, simp_int
from vp.llsym import blas_specs as B

QUICK_WRAPPERS = ['getrf', 'getrs', 'gesv', 'potrf', 'potrs', 'posv', 'sytrf', 'sytrs', 'trtrs', 'geqrf', 'ormqr', 'gels', 'gesvd', 'syevd', 'syevr']

SIG = {
 'getrf': 'M N A LDA IPIV INFO', 'getrs': 'TRANS N NRHS A LDA IPIV B LDB INFO', 'gesv': 'N NRHS A LDA IPIV B LDB INFO',
 'potrf': 'UPLO N A LDA INFO', 'potrs': 'UPLO N NRHS A LDA B LDB INFO', 'posv': 'UPLO N NRHS A LDA B LDB INFO',
 'sytrf': 'UPLO N A LDA IPIV WORK LWORK INFO', 'sytrs': 'UPLO N NRHS A LDA IPIV B LDB INFO',
 'trtrs': 'UPLO TRANS DIAG N NRHS A LDA B LDB INFO', 'geqrf': 'M N A LDA TAU WORK LWORK INFO',
 'ormqr': 'SIDE TRANS M N K A LDA TAU C LDC WORK LWORK INFO', 'gels': 'TRANS M N NRHS A LDA B LDB WORK LWORK INFO',
 'gesvd': 'JOBU JOBVT M N A LDA S U LDU VT LDVT WORK LWORK INFO',
 'syevd': 'JOBZ UPLO N A LDA W WORK LWORK IWORK LIWORK INFO',
 'syevr': 'JOBZ RANGE UPLO N A LDA VL VU IL IU ABSTOL MOUT W Z LDZ ISUPPZ WORK LWORK IWORK LIWORK INFO',
 'lacpy': 'UPLO M N A LDA B LDB',
}
INT_ARRAYS = ('IPIV', 'IWORK', 'ISUPPZ')

def mn(a, b): return z3.If(a <= b, a, b)
def mx(a, b): return z3.If(a >= b, a, b)

def footprints(name, a):
    """elements touched per array argument (reference LAPACK documentation)"""
    mat, isch = B.mat, B.isch
    work = lambda: z3.If(a['LWORK'] == -1, 1, mx(1, a['LWORK']))
    if name == 'getrf': return {'A': mat(a['M'], a['N'], a['LDA']), 'IPIV': z3.If(z3.And(a['M'] > 0, a['N'] > 0), mn(a['M'], a['N']), 0)}
    if name in ('getrs', 'gesv', 'sytrs'):
        return {'A': mat(a['N'], a['N'], a['LDA']), 'IPIV': mx(a['N'], 0), 'B': mat(a['N'], a['NRHS'], a['LDB'])}
    if name == 'potrf': return {'A': mat(a['N'], a['N'], a['LDA'])}
    if name in ('potrs', 'posv', 'trtrs'): return {'A': mat(a['N'], a['N'], a['LDA']), 'B': mat(a['N'], a['NRHS'], a['LDB'])}
    if name == 'sytrf': return {'A': z3.If(a['LWORK'] == -1, 0, mat(a['N'], a['N'], a['LDA'])), 'IPIV': z3.If(a['LWORK'] == -1, 0, mx(a['N'], 0)), 'WORK': work()}
    if name == 'geqrf': return {'A': z3.If(a['LWORK'] == -1, 0, mat(a['M'], a['N'], a['LDA'])), 'TAU': z3.If(a['LWORK'] == -1, 0, mx(mn(a['M'], a['N']), 0)), 'WORK': work()}
    if name == 'ormqr':
        nq = z3.If(isch(a['SIDE'], 'L'), a['M'], a['N'])
        q = a['LWORK'] == -1
        return {'A': z3.If(q, 0, mat(nq, a['K'], a['LDA'])), 'TAU': z3.If(q, 0, mx(a['K'], 0)), 'C': z3.If(q, 0, mat(a['M'], a['N'], a['LDC'])), 'WORK': work()}
    if name == 'gels':
        q = a['LWORK'] == -1
        return {'A': z3.If(q, 0, mat(a['M'], a['N'], a['LDA'])), 'B': z3.If(q, 0, mat(mx(a['M'], a['N']), a['NRHS'], a['LDB'])), 'WORK': work()}
    if name == 'gesvd':
        q = a['LWORK'] == -1; k = mn(a['M'], a['N'])
        fu = z3.If(isch(a['JOBU'], 'A'), mat(a['M'], a['M'], a['LDU']), z3.If(isch(a['JOBU'], 'S'), mat(a['M'], k, a['LDU']), 0))
        fv = z3.If(isch(a['JOBVT'], 'A'), mat(a['N'], a['N'], a['LDVT']), z3.If(isch(a['JOBVT'], 'S'), mat(k, a['N'], a['LDVT']), 0))
        return {'A': z3.If(q, 0, mat(a['M'], a['N'], a['LDA'])), 'S': z3.If(q, 0, mx(k, 0)), 'U': z3.If(q, 0, fu), 'VT': z3.If(q, 0, fv), 'WORK': work()}
    if name == 'syevd':
        q = z3.Or(a['LWORK'] == -1, a['LIWORK'] == -1)
        return {'A': z3.If(q, 0, mat(a['N'], a['N'], a['LDA'])), 'W': z3.If(q, 0, mx(a['N'], 0)), 'WORK': z3.If(q, 1, mx(1, a['LWORK'])), 'IWORK': z3.If(q, 1, mx(1, a['LIWORK']))}
    if name == 'syevr':
        q = z3.Or(a['LWORK'] == -1, a['LIWORK'] == -1)
        mmax = z3.If(isch(a['RANGE'], 'I'), a['IU'] - a['IL'] + 1, a['N'])
        return {'A': z3.If(q, 0, mat(a['N'], a['N'], a['LDA'])), 'W': z3.If(q, 0, mx(a['N'], 0)),
                'Z': z3.If(z3.Or(q, z3.Not(isch(a['JOBZ'], 'V'))), 0, mat(a['N'], mmax, a['LDZ'])),
                'ISUPPZ': z3.If(z3.Or(q, z3.Not(isch(a['JOBZ'], 'V'))), 0, 2*mx(1, mmax)),
                'WORK': z3.If(q, 1, mx(1, a['LWORK'])), 'IWORK': z3.If(q, 1, mx(1, a['LIWORK']))}
    if name == 'lacpy': return {'A': mat(a['M'], a['N'], a['LDA']), 'B': mat(a['M'], a['N'], a['LDB'])}
    raise KeyError(name)

ZSAME = {'zgetrf': 'getrf', 'zgetrs': 'getrs', 'zgesv': 'gesv', 'zpotrf': 'potrf', 'zpotrs': 'potrs', 'zposv': 'posv', 'zsytrf': 'sytrf', 'zhetrf': 'sytrf',
         'zsytrs': 'sytrs', 'zhetrs': 'sytrs', 'ztrtrs': 'trtrs', 'zgeqrf': 'geqrf', 'zunmqr': 'ormqr', 'zgels': 'gels', 'zlacpy': 'lacpy'}
def base_name(ext):
    n = ext.rstrip('_')
    if n.startswith('d') and n[1:] in SIG: return n[1:], 8
    if n in ZSAME: return ZSAME[n], 16
    return None, None

class LapackScenario(c17.MaskScenario):
    def __init__(self, mod, mask):
        c17.MaskScenario.__init__(self, mod, mask)
        self.heap = {}          # region -> size term (bytes)
        self.info_syms = []
        self.accesses = []
    def call(self, ex, st, name, args, rt):
        vals = [v for _, v in args]
        if name in ('malloc', 'calloc'):
            size = vals[0] if name == 'malloc' else vals[0]*vals[1]
            k = 'heap:%d' % (len(self.heap) + 1)
            self.heap[k] = simp_int(size)
            st.notes.append('malloc %s' % k)
            return Ptr(k, 0)
        if name == 'free': return None
        if name.startswith('llvm.memcpy') or name in ('memcpy', 'memmove'):
            d, s_, n = vals[0], vals[1], vals[2]
            tracked = lambda p_: isinstance(p_, Ptr) and p_.region and (p_.region.startswith('buf:') or p_.region.startswith('heap:'))
            if tracked(d) or tracked(s_):
                # block copy between matrix buffers / heap blocks: recorded as direct accesses (bounds are obligations)
                if tracked(d) and tracked(s_): st.notes.append(('copy', d.region, d.off, s_.region, s_.off, n))
                if tracked(d): st.writes.append((d.region, d.off, n))
                if tracked(s_): st.writes.append((s_.region, s_.off, n))      # reads are checked like writes
                if not ((tracked(d) or (isinstance(d, Ptr) and str(d.region).startswith('a:'))) and (tracked(s_) or (isinstance(s_, Ptr) and str(s_.region).startswith('a:')))):
                    raise Unsupported('memcpy %r <- %r' % (d, s_))
                return None
        if name == 'PyErr_SetObject':
            exc = vals[0].region[4:] if isinstance(vals[0], Ptr) and str(vals[0].region).startswith('exc:') else str(vals[0])
            st.exc = (exc, 'lapack info'); return None
        if name == 'PyErr_Occurred': return NULL
        if name in ('PyLong_AsLong',): return ex.fresh('pylong')
        return c17.MaskScenario.call(self, ex, st, name, args, rt)
    def extern_event(self, ex, st, name, args, rt):
        evargs = []
        outs = []
        for (t, v) in args:
            if isinstance(v, Ptr):
                if v.region and v.region.startswith('a:'):
                    off = v.off if is_conc(v.off) else None
                    val = st.mem.get((v.region, off))
                    if val is None and ('zero', v.region) in st.mem: val = 0
                    evargs.append(['ref', v.region[2:], val, off, t])
                    outs.append((v.region, off, t, len(evargs) - 1))
                elif v.region and v.region.startswith('buf:'): evargs.append(('buf', v.region[4:], simp_int(v.off)))
                elif v.region and v.region.startswith('heap:'): evargs.append(('heap', v.region, simp_int(v.off)))
                elif v.region is None: evargs.append(('null',))
                else: evargs.append(('ptr', v.region, v.off))
            else: evargs.append(('val', v))
        ev = Event(name, [tuple(e[:4]) if isinstance(e, list) else e for e in evargs])
        # outputs written by the routine into locals: INFO (last int*), work-space query results (double*)
        for (region, off, t, idx) in outs:
            cur = evargs[idx][2]
            tt = t.to if t.kind == 'ptr' else None
            isint = tt is not None and tt.kind == 'int'
            nm = region[2:]
            if nm in ('%info',):
                s_ = ex.fresh('info'); st.mem[(region, off)] = s_; ev.info = s_
                ex.assume(st, s_ >= -(1 << 31)); ex.assume(st, s_ < (1 << 31))
            elif cur is None or nm.startswith('%wl') or nm.startswith('%iwl'):
                if isint:
                    s_ = ex.fresh('lout'); ex.assume(st, s_ >= 1); ex.assume(st, s_ <= (1 << 31) - 1); st.mem[(region, off)] = s_
                else:
                    L = ex.fresh('lworkopt'); ex.assume(st, L >= 1); ex.assume(st, L <= (1 << 31) - 1)
                    st.mem[(region, off)] = z3.ToReal(L)
        st.events.append(ev)
        if rt.kind == 'void': return None
        return ex.fresh('lapackret', 'real' if rt.kind in ('double', 'float') else 'int')

def job(cfg):
    from vp.llsym import ir, exec as X
    t0 = time.time()
    mod = ir.Module(open(cfg['ll']).read())
    fname = cfg['fn']
    res = {'fn': fname, 'paths': 0, 'kinds': {}, 'obl': {'total': 0, 'unsat': 0, 'sat': 0, 'unknown': 0}, 'solver_s': 0.0,
           'findings': [], 'unsupported': [], 'events': 0, 'events_without_spec': 0, 'sample': None, 'by_prop': {}, 'pairs': {}}
    def count(prop, v, secs=0.0):
        res['obl']['total'] += 1; res['obl'][v] += 1; res['solver_s'] += secs
        bp = res['by_prop'].setdefault(prop, {'total': 0, 'unsat': 0, 'sat': 0, 'unknown': 0}); bp['total'] += 1; bp[v] += 1
    wrap_found = set()
    for mask in cfg['masks']:
        sc = LapackScenario(mod, mask)
        sc.id_fixed = None
        ex = X.Executor(mod, sc, max_paths=cfg.get('max_paths', 20000), loop_bound=3)
        try: ex.run(fname, [X.Ptr('obj:self'), X.Ptr('obj:args'), X.Ptr('obj:kwrds')])
        except X.PathEnd: res['unsupported'].append('path budget exhausted (mask %d)' % mask)
        pre = list(sc.pre); tmo = cfg.get('timeout_ms', 10000)
        def query(pc, extra):
            t1 = time.time()
            for budget in (tmo, 6*tmo):            # an 'unknown' under load is retried once with a larger budget
                s = z3.Solver(); s.set('timeout', budget)
                for f in pre + pc + extra: s.add(f)
                r = s.check()
                if r != z3.unknown: break
            return str(r), (s.model() if r == z3.sat else None), time.time() - t1
        def region_size(kind, key):
            if kind == 'buf':
                M = sc.mats[key]; return M.len * M.esize()
            return sc.heap[key]
        for p in ex.paths:
            res['paths'] += 1; res['kinds'][p['kind']] = res['kinds'].get(p['kind'], 0) + 1
            if p['kind'] in ('infeasible', 'loop-bound'): continue
            if p['kind'] != 'return':
                if 'z' + 'xx' in str(p['why']): pass
                res['unsupported'].append('%s: %s' % (p['kind'], p['why'])); continue
            isnull = isinstance(p['ret'], X.Ptr) and p['ret'].region is None
            noovf = [z3.Not(o) for o in p['ovf']]
            specd = [e for e in p['events'] if base_name(e.name)[0]]
            if len(specd) != len(p['events']):
                res['events_without_spec'] += len(p['events']) - len(specd)
            # ---- Q_rej / Q_info
            if isnull:
                if p['exc'] is None:
                    r, m, dt = query(p['pc'], [])
                    if r == 'sat': res['findings'].append(c17.finding(fname, 'C18', 'Q_rej', 'NULL returned without an exception set', m, sc, mask))
                    count('C18', 'sat' if r == 'sat' else 'unsat', dt)
                elif not p['events']:
                    if p['writes']:
                        r, m, dt = query(p['pc'], []); count('C18', 'sat' if r == 'sat' else 'unsat', dt)
                        if r == 'sat': res['findings'].append(c17.finding(fname, 'C18', 'Q_rej', 'matrix buffer written before the call was rejected', m, sc, mask))
                    else: count('C18', 'unsat')
                else:
                    info = getattr(p['events'][-1], 'info', None)
                    if p['exc'][1] != 'lapack info' or info is None:
                        r, m, dt = query(p['pc'], []); count('C18', 'sat' if r == 'sat' else 'unsat', dt)
                        if r == 'sat': res['findings'].append(c17.finding(fname, 'C18', 'Q_rej', 'argument error %s raised after %s had already been called' % (p['exc'], p['events'][0].name), m, sc, mask))
                    else:
                        want = (info > 0) if p['exc'][0] == 'PyExc_ArithmeticError' else ((info < 0) if p['exc'][0] == 'PyExc_ValueError' else z3.BoolVal(False))
                        r, m, dt = query(p['pc'], [z3.Not(want)]); count('C18', r if r in ('sat', 'unsat') else 'unknown', dt)
                        if r == 'sat': res['findings'].append(c17.finding(fname, 'C18', 'Q_info', 'info mapped to %s for a value of the wrong sign' % p['exc'][0], m, sc, mask, key='%s:info' % fname))
            elif p['events']:
                info = getattr(p['events'][-1], 'info', None)
                if info is not None:
                    r, m, dt = query(p['pc'], [info != 0]); count('C18', r if r in ('sat', 'unsat') else 'unknown', dt)
                    if r == 'sat': res['findings'].append(c17.finding(fname, 'C18', 'Q_info', 'normal return although info != 0', m, sc, mask, key='%s:info' % fname))
            # ---- direct accesses of the wrapper into buffers (pivot conversion, copies)
            for (region, off, size) in p['writes']:
                if not (region.startswith('buf:') or region.startswith('heap:')): continue
                total = region_size('buf' if region.startswith('buf:') else 'heap', region[4:] if region.startswith('buf:') else region)
                offt = off if not is_conc(off) else z3.IntVal(off); szt = size if not is_conc(size) else z3.IntVal(size)
                ok = z3.And(offt >= 0, offt + szt <= total)
                r, m, dt = query(p['pc'], noovf + [z3.Not(ok)]); count('C19', r if r in ('sat', 'unsat') else 'unknown', dt)
                if r == 'sat': res['findings'].append(c17.finding(fname, 'C19', 'Q_small', 'the wrapper itself writes outside %s' % region, m, sc, mask, key='%s:%s:direct-write' % (fname, region.split(':')[1] if region.startswith('buf:') else 'heap')))
            # ---- events
            for ev in specd:
                res['events'] += 1
                base, es = base_name(ev.name)
                formals = SIG[base].split()
                if len(formals) != len(ev.args):
                    res['unsupported'].append('%s: %d actual arguments, specification has %d' % (ev.name, len(ev.args), len(formals))); continue
                a = {}; arrays = {}
                for f, arg in zip(formals, ev.args):
                    if arg[0] == 'ref' and f not in ('WORK', 'IWORK') and not (f in ('INFO', 'MOUT')):
                        v = arg[2]
                        if v is None: a[f] = z3.Int('unset_%s' % f)
                        else: a[f] = v if not is_conc(v) else z3.IntVal(v)
                    elif arg[0] == 'ref': arrays[f] = ('local', arg[1], 0)
                    elif arg[0] in ('buf', 'heap'): arrays[f] = (arg[0], arg[1], arg[2])
                    elif arg[0] == 'val': a[f] = arg[1] if not is_conc(arg[1]) else z3.IntVal(arg[1])
                    elif arg[0] == 'null': arrays[f] = ('null', None, 0)
                try: fps = footprints(base, a)
                except KeyError as e:
                    res['unsupported'].append('%s: footprint needs %s' % (ev.name, e)); continue
                # Q_flag: every flag character reaches the routine unchanged (real routines may turn 'C' into 'T')
                for f in formals:
                    if f not in ('TRANS', 'UPLO', 'DIAG', 'SIDE', 'JOBZ', 'JOBU', 'JOBVT', 'RANGE'): continue
                    kwn = {'TRANS': 'trans', 'UPLO': 'uplo', 'DIAG': 'diag', 'SIDE': 'side', 'JOBZ': 'jobz', 'JOBU': 'jobu', 'JOBVT': 'jobvt', 'RANGE': 'range'}[f]
                    if kwn not in sc.kw or sc.kw[kwn][0] != 'C' or f not in a: continue
                    _, g, v, cur = sc.kw[kwn]
                    kwval = z3.If(g, v, cur) if not isinstance(g, bool) else v
                    same = a[f] == kwval
                    if es == 8 and f == 'TRANS': same = z3.Or(same, z3.And(kwval == ord('C'), a[f] == ord('T')))
                    r, m, dt = query(p['pc'], noovf + [z3.Not(same)]); count('C18', r if r in ('sat', 'unsat') else 'unknown', dt)
                    if r == 'sat': res['findings'].append(c17.finding(fname, 'C18', 'Q_flag', '%s: flag %s passed to the routine differs from the keyword %s' % (ev.name, f, kwn), m, sc, mask, key='%s:flag-%s' % (fname, f)))
                # Q_ld: an omitted leading dimension reaches the routine as the documented default max(1, <matrix>.size[0])
                c17.check_documented_defaults(fname, 'C18', p, sc, mask, a, {arr_: key_ for arr_, (kind_, key_, off_) in arrays.items() if kind_ == 'buf'},
                                              query, noovf, count, res, module='lapack', first_event=False)
                # Q_copy: a private copy handed to the routine instead of the caller's matrix (optional pivot/factor
                # argument omitted) is filled column by column from exactly the addressed block of that matrix
                for arr, (kind, key, off) in arrays.items():
                    if kind != 'heap' or arr not in ('A', 'B', 'C'): continue
                    copies = [c_ for c_ in p['notes'] if isinstance(c_, tuple) and c_[0] == 'copy' and c_[1] == key and str(c_[3]).startswith('buf:')]
                    if not copies: continue
                    ldp = a.get('LD' + arr)
                    rows = a.get('N') if base in ('gesv', 'posv', 'potrf', 'sytrf', 'getrs', 'potrs', 'sytrs', 'trtrs') else a.get('M')
                    for i_, (_, dreg, doff, sreg, soff, nbytes) in enumerate(copies):
                        mname = sreg[4:]; Msrc = sc.mats[mname]
                        okw = sc.offset_kw(mname)
                        ldk = p['mem'].get(('a:%ld' + mname, 0))
                        if okw is None or ldk is None or ldp is None or rows is None: continue
                        tz = lambda v_: v_ if not is_conc(v_) else z3.IntVal(v_)
                        want = z3.And(tz(soff) == Msrc.esize()*(okw + i_*tz(ldk)), tz(doff) == Msrc.esize()*i_*ldp, tz(nbytes) == Msrc.esize()*rows)
                        r, m, dt = query(p['pc'], noovf + [z3.Not(want)]); count('C18', r if r in ('sat', 'unsat') else 'unknown', dt)
                        if r == 'sat': res['findings'].append(c17.finding(fname, 'C18', 'Q_copy', '%s: column %d of the private copy of %s is not taken from offset + %d*ld of the caller\'s matrix' % (ev.name, i_, mname, i_), m, sc, mask, key='%s:%s:copy' % (fname, mname)))
                oks = []; per = []
                for arr, (kind, key, off) in arrays.items():
                    if arr not in fps: continue
                    fp = fps[arr]
                    esz = 4 if arr in INT_ARRAYS else es
                    if kind == 'local':
                        ok = fp <= 1
                    elif kind == 'null':
                        ok = fp <= 0
                    else:
                        total = region_size(kind, key)
                        offt = off if not is_conc(off) else z3.IntVal(off)
                        ok = z3.Or(fp <= 0, z3.And(offt >= 0, offt + fp*esz <= total))
                    oks.append(ok); per.append((arr, kind, key, ok))
                if not oks: continue
                r, m, dt = query(p['pc'], noovf + [z3.Not(z3.And(*oks))])
                if r == 'unsat':
                    for _ in per: count('C19', 'unsat', dt/len(per))
                else:
                    for arr, kind, key, ok in per:
                        r, m, dt = query(p['pc'], noovf + [z3.Not(ok)]); count('C19', r if r in ('unsat', 'sat') else 'unknown', dt)
                        prop = 'C18' if arr in ('WORK', 'IWORK') else 'C19'
                        if r == 'sat':
                            r2, m2, _ = query(p['pc'], noovf + [z3.Not(ok)] + [z3.And(M2.nrows <= 4, M2.ncols <= 4) for M2 in sc.mats.values()])   # prefer an instance that replays quickly
                            if r2 == 'sat': m = m2
                        if r == 'sat': res['findings'].append(c17.finding(fname, prop, 'Q_work' if prop == 'C18' else 'Q_small', '%s: array %s (%s %s) footprint outside its buffer without integer overflow' % (ev.name, arr, kind, key), m, sc, mask, key='%s:%s:footprint' % (fname, arr)))
                        elif r != 'unsat': res['unsupported'].append('%s %s: Q_small undecided' % (ev.name, arr))
                small = [z3.And(M2.nrows <= 64, M2.ncols <= 64) for M2 in sc.mats.values()]
                for arr, kind, key, ok in per:
                    if kind != 'buf': continue
                    wkey = '%s:%s:int-overflow' % (fname, key)
                    res['pairs'][wkey] = res['pairs'].get(wkey, 0) + 1
                    if wkey in wrap_found: continue
                    r, m, dt = query(p['pc'], small + [z3.Not(ok)]); count('C19', r if r in ('unsat', 'sat') else 'unknown', dt)
                    if r == 'sat':
                        wrap_found.add(wkey)
                        res['findings'].append(c17.finding(fname, 'C19', 'Q_wrap', '%s: array %s (matrix %s) footprint outside the buffer after C int wrap-around in the wrapper\'s length check' % (ev.name, arr, key), m, sc, mask, key=wkey))
                if res['sample'] is None:
                    res['sample'] = {'wrapper': fname, 'event': ev.name, 'formals': formals, 'actuals': [str(x)[:70] for x in ev.args]}
    res['wall'] = round(time.time() - t0, 1)
    return res

def main(tier, pid='C18', ev=None):
    from vp import common
    from vp.llsym import ir
    shared = ev is not None
    if ev is None: ev = common.Evidence(pid, 'model_checking', tier)
    work = tempfile.mkdtemp(prefix='vp.ir.', dir='/var/tmp')
    try:
        cfile = os.path.join(common.REPO, 'src', 'C', 'lapack.c')
        ll = ir.compile_to_ir(cfile, common.REPO, work)
        mod = ir.Module(open(ll).read())
        names = [n for n in c17.wrapper_names(mod) if n in QUICK_WRAPPERS]
        cfgs = []
        for fn in names:
            masks = c17.scenarios_for(mod, fn)
            for mk in masks:
                cfgs.append({'ll': ll, 'fn': fn, 'masks': [mk], 'timeout_ms': 10000 if tier == 'quick' else 60000, 'max_paths': 30000})
        cfgs.sort(key=lambda c: -len(mod.functions[c['fn']].order))
        results = common.run_jobs('vp.checks.c18', 'job', cfgs)
        known = common.known_findings(pid)
        violations, known_hits, herr, inconc = [], [], [], []
        paths = events = nospec = 0; groups = {}; allpairs = set()
        for r in results:
            if not r['ok']: herr.append('%s: %s' % (r['cfg']['fn'], r['err'])); continue
            res = r['res']
            paths += res['paths']; events += res['events']; nospec += res['events_without_spec']
            bp = res['by_prop'].get(pid)
            if bp:
                for key in ('total', 'unsat', 'sat', 'unknown'): ev.obl[key] += bp[key]
            ev.solver_s += res['solver_s']
            if res['sample']: ev.sample(res['sample'], cap=5)
            for u in res['unsupported']: herr.append('%s: %s' % (res['fn'], u))
            for wk in res['pairs']: allpairs.add('lapack.' + wk)
            for f in res['findings']:
                if f['prop'] != pid: continue
                groups.setdefault('lapack.' + f['key'], []).append(f)
        for k in sorted(groups):
            f = groups[k][0]
            if k in known: known_hits.append((k, known[k]['what'])); continue
            rp = common.write_replay(pid, k, {'property': pid, 'key': k, 'text': f['text'], 'call': f['call'], 'diff': f.get('diff')})
            rep, why = (None, 'no call rendered')
            for f2 in groups[k][:3]:
                if f2['call']:
                    cs = dict(f2['call']); cs['call'] = cs['call'].replace('blas.', 'lapack.', 1)
                    rep, why = c17.replay_diff(cs, f2.get('diff')) if f2['kind'] == 'Q_ld' else replay_call(cs)
                    if rep: break
            if rep: violations.append((k, rp, '%s -> %s' % (f['text'], rep)))
            elif f['kind'] in ('Q_info', 'Q_rej', 'Q_work', 'Q_flag', 'Q_copy'):
                violations.append((k, rp, '%s (call: %s; not observable as a memory error: %s)' % (f['text'], (f['call'] or {}).get('call'), why)))
            else: herr.append('%s: counterexample %s - %s' % (k, (f['call'] or {}).get('call'), why))
        ev.extra['finding_keys_lapack'] = sorted(groups); ev.extra['wrapper_matrix_pairs_lapack'] = sorted(allpairs)
        covd = ({'states': max(1, paths) + ev.cov.get('states', 0), 'transitions': max(1, ev.obl['total']), 'traces_validated_against_impl': 0,
                       'functions_encoded': ev.cov.get('functions_encoded', []) + ['lapack.c: ' + ', '.join(sorted(names))], 'lapack_call_events_checked': events,
                       'call_events_without_specification (complex variants, outside)': nospec,
                       'source_hash': ir.src_hash(cfile),
                       'bounds': '%d wrappers (the routines the solvers rely on), real (d) variants; all int keywords over 32 bits, shapes 0 <= nrows, ncols, nrows*ncols < 2^31; loops of the wrappers unrolled 3 times (paths needing more are cut, stated); work-space query results any value in [1, 2^31)' % len(names)})
        if ev.cov.get('bounds'): covd['bounds'] = ev.cov['bounds'] + ' | ' + covd['bounds']
        ev.cov.update(covd)
        ev.assumptions += ['malloc/calloc succeed (allocation failure outside); LAPACK writes an arbitrary info and an arbitrary optimal work-space size >= 1',
                           'complex (z) variants and the remaining wrappers of lapack.c are not covered; numerics of LAPACK are not claimed',
                           'CPython API calls are contract stubs; C int arithmetic with explicit wrap-around']
        if shared: return violations, sorted(dict(known_hits).items()), herr, inconc
        return common.finish(ev, violations, sorted(dict(known_hits).items()), herr, inconc)
    finally:
        shutil.rmtree(work, True)

REPLAY_PROG = c17.REPLAY_PROG        # (imports lapack as well)
def replay_call(callspec, timeout=300):
    old = c17.REPLAY_PROG
    c17.REPLAY_PROG = REPLAY_PROG
    try: return c17.replay_call(callspec, timeout)
    finally: c17.REPLAY_PROG = old

def replay_main(path):
    d_ = json.load(open(path))
    if d_.get('diff'):
        cs = dict(d_['call']); cs['call'] = cs['call'].replace('blas.', 'lapack.', 1)
        rep, why = c17.replay_diff(cs, d_['diff'])
        print(('REPRODUCED on the real build: %s' % rep) if rep else why)
        return 1 if rep else 0
    return _replay_main_mem(path)

def _replay_main_mem(path):
    d = json.load(open(path))
    cs = dict(d['call']); cs['call'] = cs['call'].replace('blas.', 'lapack.', 1)
    rep, why = replay_call(cs)
    if rep: print('REPRODUCED on the real build: %s' % rep); return 1
    print(why); return 0
