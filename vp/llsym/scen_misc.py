"""Engine L scenario for misc_solvers.c: the compiled cone kernels executed from LLVM IR on the *symbolic matrices of
engine P* (the shim matrices whose cells are z3 reals).  `make_module(irmod)` returns an object that can stand in for
`cvxopt.misc_solvers`: each function runs the IR of the C function of the same name on the arguments it is given and
writes the results back into the shim matrices - so the real misc.py loaded with use_C = True, and every harness written
for the Python fallbacks (C08), run on top of the compiled kernels.

What is concrete: every integer (dims, shapes, offsets, loop counters - they are concrete in each C08 configuration),
characters, the structure of the W dictionary.  What is symbolic: every double.  Comparisons of doubles are decided by
engine P's explorer (fork).  Stubs (part of the claim): CPython API (argument parsing from the constant format string
and kwlist, dict/list/int/float access, Py_BuildValue), calloc/free, and the reference semantics of the BLAS/LAPACK
routines the kernels call (dscal dcopy daxpy ddot dnrm2 dtbmv/dtbsv with k = 0, dgemv dger dtrmm dsyr2k dlacpy written
from the reference BLAS documentation incl. their quick-return rules; dsyevr/dsyevd: smallest eigenvalue in closed form
for orders <= 2, eigenvectors for order 1).  Every access of a BLAS model and every direct load/store is checked against
the extent of the object it goes into (matrix buffer or calloc block)."""
import re, types
import z3
from . import exec as X
from .exec import Ptr, NULL, Unsupported, is_conc
from .ir import T as IT, parse_type, split_top

class KernelFault(Exception):
    """the compiled kernel accesses memory outside a matrix buffer / work array, or uses an unsupported construct"""

DBL = IT('double'); I32 = IT('int', bits=32); I64 = IT('int', bits=64)

class MiscScenario(object):
    def __init__(self, mod, fname, pyargs, pykw, hooks):
        self.mod = mod; self.fname = fname
        self.pyargs, self.pykw = list(pyargs), dict(pykw)
        self.objs = {}; self.names = {}          # name -> python object ; id(obj) -> name
        self.extent = {}                         # region -> number of bytes
        self.ncalloc = 0
        self.result = None
        self.hooks = hooks                       # dict(T=..., wrap=..., sqrt=..., is_matrix=...)
        mt = mod.structs['%struct.matrix']
        self.off_buffer = mod.field_offset(mt, 1); self.off_nrows = mod.field_offset(mt, 2)
        self.off_ncols = mod.field_offset(mt, 3); self.off_id = mod.field_offset(mt, 4)
        self.blas_calls = []

    # ---- python objects as C objects
    def obj(self, o):
        if o is None: return Ptr('obj:None', 0)
        k = id(o)
        if k not in self.names:
            nm = 'o%d' % len(self.names); self.names[k] = nm; self.objs[nm] = o
            if self.hooks['is_matrix'](o): self.extent['mb:' + nm] = 8*len(o)
        return Ptr('obj:' + self.names[k], 0)
    def pyof(self, p):
        if not isinstance(p, Ptr) or p.region is None: raise Unsupported('NULL object')
        if not str(p.region).startswith('obj:'): raise Unsupported('not an object pointer: %r' % (p,))
        nm = p.region[4:]
        if nm == 'None': return None
        return self.objs[nm]

    def initial_value(self, ex, st, region, off, ty):
        if region.startswith('obj:'):
            o = self.objs.get(region[4:])
            if o is not None and self.hooks['is_matrix'](o):
                if off == self.off_buffer: return Ptr('mb:' + region[4:], 0)
                if off == self.off_nrows: return int(o.size[0])
                if off == self.off_ncols: return int(o.size[1])
                if off == self.off_id: return 1
            return None
        if region.startswith('mb:'):
            o = self.objs[region[3:]]
            if off % 8 or off < 0 or off >= 8*len(o): raise KernelFault('access at byte %d of a matrix buffer of %d doubles' % (off, len(o)))
            return self.hooks['T'](o[off // 8])
        if region.startswith('wk:'):
            if off < 0 or off >= self.extent[region]: raise KernelFault('access at byte %d of a calloc block of %d bytes' % (off, self.extent[region]))
            return z3.RealVal(0) if ty.kind in ('double', 'float') else 0
        if ('zero', region) in st.mem:
            return NULL if ty.kind in ('ptr', 'func') else (z3.RealVal(0) if ty.kind in ('double', 'float') else 0)
        return None

    # ---- cells
    def rd(self, ex, st, p, i):
        return ex.load(st, DBL, Ptr(p.region, p.off + 8*i))
    def wr(self, ex, st, p, i, v):
        off = p.off + 8*i
        ext = self.extent.get(p.region)
        if ext is not None and (off < 0 or off + 8 > ext): raise KernelFault('write at byte %d of %s (%d bytes)' % (off, p.region, ext))
        if is_conc(v) or isinstance(v, float): v = z3.RealVal(str(v))
        st.mem[(p.region, off)] = v
    def ival(self, ex, st, p):
        v = ex.load(st, I32, p)
        if not is_conc(v): raise Unsupported('symbolic integer argument of a BLAS call')
        return v
    def dval(self, ex, st, p): return ex.load(st, DBL, p)
    def chr_(self, ex, st, p):
        if isinstance(p, Ptr) and str(p.region).startswith('g:'): return ex.cstring(p)[:1]
        v = ex.load(st, IT('int', bits=8), p)
        if not is_conc(v): raise Unsupported('symbolic flag character')
        return chr(v)

    # ---- calls
    def call(self, ex, st, name, args, rt):
        vals = [v for _, v in args]
        if name == 'PyArg_ParseTupleAndKeywords': return self.parse_args(ex, st, vals)
        if name.startswith('api#'):
            k = int(name[4:])
            if k == 3:      # Matrix_Check
                try: o = self.pyof(vals[0])
                except Unsupported: return NULL
                return Ptr('nonnull', 0) if self.hooks['is_matrix'](o) else NULL
            if k == 7: return NULL      # SpMatrix_Check
            raise Unsupported('cvxopt_API[%d]' % k)
        if name == 'PyDict_GetItemString':
            d = self.pyof(vals[0]); key = ex.cstring(vals[1])
            if not isinstance(d, dict): raise Unsupported('PyDict_GetItemString on %r' % type(d))
            return self.obj(d[key]) if key in d else NULL
        if name == 'PyList_Size':
            l = self.pyof(vals[0])
            if not isinstance(l, (list, tuple)): raise Unsupported('PyList_Size on %r' % type(l))
            return len(l)
        if name == 'PyList_GetItem':
            l = self.pyof(vals[0]); k = vals[1]
            if not is_conc(k) or not (0 <= k < len(l)): raise KernelFault('PyList_GetItem index %r of a list of %d' % (k, len(l)))
            return self.obj(l[k])
        if name == 'PyLong_AsLong':
            o = self.pyof(vals[0])
            if isinstance(o, bool) or not isinstance(o, int): raise Unsupported('PyLong_AsLong on %r' % type(o))
            return int(o)
        if name in ('PyFloat_AS_DOUBLE', 'PyFloat_AsDouble'):
            return self.hooks['T'](self.pyof(vals[0]))
        if name == 'Py_BuildValue':
            try: fmt = ex.cstring(vals[0])
            except Unsupported:
                t_, init_, _ = ex.const_init(vals[0].region[2:])
                if init_ != 'zeroinitializer': raise
                fmt = ''
            if fmt == '': self.result = ('none',); return Ptr('obj:None', 0)
            if fmt == 'd': self.result = ('float', vals[1]); return Ptr('obj:result', 0)
            raise Unsupported('Py_BuildValue(%r)' % fmt)
        if name in ('PyErr_SetString', 'PyErr_Format'):
            exc = vals[0].region[4:] if isinstance(vals[0], Ptr) and str(vals[0].region).startswith('exc:') else str(vals[0])
            try: msg = ex.cstring(vals[1])
            except Unsupported: msg = '?'
            st.exc = (exc, msg); return None
        if name == 'PyErr_NoMemory': st.exc = ('PyExc_MemoryError', ''); return NULL
        if name == 'calloc':
            n, sz = vals[0], vals[1]
            if not (is_conc(n) and is_conc(sz)): raise Unsupported('calloc of a symbolic size')
            if n < 0 or sz < 0: raise KernelFault('calloc(%d, %d)' % (n, sz))
            self.ncalloc += 1
            r = 'wk:%d' % self.ncalloc; self.extent[r] = n*sz
            return Ptr(r, 0)      # (calloc(0) returning NULL is allocation failure: outside the claim)
        if name in ('free', '_Py_Dealloc', 'Py_DecRef', 'Py_IncRef'): return None
        if name == 'sqrt': return self.hooks['sqrt'](vals[0])
        if name == 'llvm.fmuladd.f64': return vals[0]*vals[1] + vals[2]
        if name in ('fabs', 'llvm.fabs.f64'):
            v = vals[0]; return z3.If(v >= 0, v, -v)
        if name.startswith('llvm.memset'):
            p, val, n = vals[0], vals[1], vals[2]
            if isinstance(p, Ptr) and p.region and p.region.startswith('a:') and is_conc(val) and val == 0:
                for key in [k_ for k_ in st.mem if k_[0] == p.region]: del st.mem[key]
                st.mem[('zero', p.region)] = True; return None
            raise Unsupported('memset %r' % (p,))
        if name.startswith('llvm.memcpy'):
            d, s_, n = vals[0], vals[1], vals[2]
            if isinstance(d, Ptr) and d.region.startswith('a:') and isinstance(s_, Ptr) and str(s_.region).startswith('g:'):
                t, init, _ = ex.const_init(s_.region[2:])
                t = self.mod.resolve(t)
                if t.kind == 'arr' and init and init.startswith('['):
                    esz = self.mod.size_of(t.to)
                    for i, e in enumerate(split_top(init[1:-1])):
                        e = e.strip(); et, j = parse_type(e)
                        st.mem[(d.region, d.off + i*esz)] = ex.eval_operand(st, et, e[j:])
                    return None
            raise Unsupported('memcpy %r <- %r' % (d, s_))
        if name.startswith('llvm.'): return None
        if name.endswith('_') and hasattr(self, 'blas_' + name[:-1]):
            self.blas_calls.append(name)
            return getattr(self, 'blas_' + name[:-1])(ex, st, vals)
        raise Unsupported('call to unmodelled function ' + name)

    def read_kwlist(self, ex, st, kwl):
        names = []; i = 0
        pt = IT('ptr', to=IT('int', bits=8))
        while i < 40:
            try: p = ex.load(st, pt, Ptr(kwl.region, kwl.off + 8*i))
            except Unsupported: break
            if not isinstance(p, Ptr) or p.region is None: break
            names.append(ex.cstring(p)); i += 1
        return names

    def parse_args(self, ex, st, vals):
        fmt = ex.cstring(vals[2]); names = self.read_kwlist(ex, st, vals[3]); outs = vals[4:]
        units = []; optional = False
        for ch in fmt.split(':')[0]:
            if ch == '|': optional = True; continue
            units.append((ch, optional))
        if len(units) != len(names) or len(outs) != len(units):
            raise Unsupported('format %r / kwlist %r / %d outputs mismatch' % (fmt, names, len(outs)))
        if len(self.pyargs) > len(names): raise TypeError('%s() takes at most %d arguments' % (self.fname, len(names)))
        given = dict(zip(names, self.pyargs))
        for k, v in self.pykw.items():
            if k not in names: raise TypeError("'%s' is an invalid keyword argument" % k)
            if k in given: raise TypeError("argument for '%s' given by name and position" % k)
            given[k] = v
        for (ch, opt), nm, out in zip(units, names, outs):
            if nm not in given:
                if not opt: raise TypeError("Required argument '%s' missing" % nm)
                continue
            v = given[nm]
            if ch == 'O': st.mem[(out.region, out.off)] = self.obj(v)
            elif ch in ('i', 'n', 'l'):
                if isinstance(v, bool) or not isinstance(v, int): raise TypeError('an integer is required for %s' % nm)
                st.mem[(out.region, out.off)] = int(v)
            elif ch in ('C', 'c'):
                if not (isinstance(v, str) and len(v) == 1): raise TypeError('a unicode character is required for %s' % nm)
                st.mem[(out.region, out.off)] = ord(v)
            elif ch == 'd': st.mem[(out.region, out.off)] = self.hooks['T'](v)
            else: raise Unsupported('format unit %r' % ch)
        return 1

    # ---------------------------------------------------------------- reference BLAS (Fortran semantics, column major)
    @staticmethod
    def _start(n, inc): return 0 if inc >= 0 else (-(n - 1)*inc)

    def blas_dscal(self, ex, st, a):
        n, inc = self.ival(ex, st, a[0]), self.ival(ex, st, a[3]); al = self.dval(ex, st, a[1])
        if n <= 0 or inc <= 0: return None
        for i in range(n): self.wr(ex, st, a[2], i*inc, al*self.rd(ex, st, a[2], i*inc))
    def blas_dcopy(self, ex, st, a):
        n, ix, iy = self.ival(ex, st, a[0]), self.ival(ex, st, a[2]), self.ival(ex, st, a[4])
        if n <= 0: return None
        sx, sy = self._start(n, ix), self._start(n, iy)
        vs = [self.rd(ex, st, a[1], sx + i*ix) for i in range(n)]
        for i in range(n): self.wr(ex, st, a[3], sy + i*iy, vs[i])
    def blas_daxpy(self, ex, st, a):
        n, ix, iy = self.ival(ex, st, a[0]), self.ival(ex, st, a[3]), self.ival(ex, st, a[5]); al = self.dval(ex, st, a[1])
        if n <= 0: return None
        sx, sy = self._start(n, ix), self._start(n, iy)
        vs = [self.rd(ex, st, a[2], sx + i*ix) for i in range(n)]
        for i in range(n): self.wr(ex, st, a[4], sy + i*iy, self.rd(ex, st, a[4], sy + i*iy) + al*vs[i])
    def blas_ddot(self, ex, st, a):
        n, ix, iy = self.ival(ex, st, a[0]), self.ival(ex, st, a[2]), self.ival(ex, st, a[4])
        tot = z3.RealVal(0)
        if n <= 0: return tot
        sx, sy = self._start(n, ix), self._start(n, iy)
        for i in range(n): tot = tot + self.rd(ex, st, a[1], sx + i*ix)*self.rd(ex, st, a[3], sy + i*iy)
        return tot
    def blas_dnrm2(self, ex, st, a):
        n, ix = self.ival(ex, st, a[0]), self.ival(ex, st, a[2])
        if n < 1 or ix < 1: return z3.RealVal(0)
        tot = z3.RealVal(0)
        for i in range(n):
            v = self.rd(ex, st, a[1], i*ix); tot = tot + v*v
        return self.hooks['sqrt'](tot)
    def _tb(self, ex, st, a, solve):
        uplo, trans, diag = (self.chr_(ex, st, a[i]) for i in (0, 1, 2))
        n, k, lda, inc = self.ival(ex, st, a[3]), self.ival(ex, st, a[4]), self.ival(ex, st, a[6]), self.ival(ex, st, a[8])
        if k != 0: raise Unsupported('dtbmv/dtbsv with %d off-diagonals' % k)
        if lda < 1 or inc == 0: raise KernelFault('dtbmv/dtbsv: lda = %d, incx = %d (XERBLA)' % (lda, inc))
        if n <= 0: return None
        s = self._start(n, inc)
        for i in range(n):
            if diag.upper() == 'U': continue
            d = self.rd(ex, st, a[5], i*lda); x = self.rd(ex, st, a[7], s + i*inc)
            self.wr(ex, st, a[7], s + i*inc, (x/d) if solve else (d*x))
    def blas_dtbmv(self, ex, st, a): return self._tb(ex, st, a, False)
    def blas_dtbsv(self, ex, st, a): return self._tb(ex, st, a, True)
    def blas_dgemv(self, ex, st, a):
        tr = self.chr_(ex, st, a[0]).upper()
        m, n, lda, ix, iy = (self.ival(ex, st, a[i]) for i in (1, 2, 5, 7, 10))
        al, be = self.dval(ex, st, a[3]), self.dval(ex, st, a[8])
        if m < 0 or n < 0 or lda < max(1, m) or ix == 0 or iy == 0: raise KernelFault('dgemv: illegal argument (XERBLA)')
        if m == 0 or n == 0: return None                     # quick return: y is not touched
        lx, ly = (n, m) if tr == 'N' else (m, n)
        sx, sy = self._start(lx, ix), self._start(ly, iy)
        xs = [self.rd(ex, st, a[6], sx + j*ix) for j in range(lx)]
        for i in range(ly):
            tot = z3.RealVal(0)
            for j in range(lx):
                aij = self.rd(ex, st, a[4], (i + j*lda) if tr == 'N' else (j + i*lda))
                tot = tot + aij*xs[j]
            self.wr(ex, st, a[9], sy + i*iy, be*self.rd(ex, st, a[9], sy + i*iy) + al*tot)
    def blas_dger(self, ex, st, a):
        m, n, ix, iy, lda = (self.ival(ex, st, a[i]) for i in (0, 1, 4, 6, 8)); al = self.dval(ex, st, a[2])
        if m < 0 or n < 0 or ix == 0 or iy == 0 or lda < max(1, m): raise KernelFault('dger: illegal argument (XERBLA)')
        if m == 0 or n == 0: return None
        sx, sy = self._start(m, ix), self._start(n, iy)
        xs = [self.rd(ex, st, a[3], sx + i*ix) for i in range(m)]; ys = [self.rd(ex, st, a[5], sy + j*iy) for j in range(n)]
        for j in range(n):
            for i in range(m):
                self.wr(ex, st, a[7], i + j*lda, self.rd(ex, st, a[7], i + j*lda) + al*xs[i]*ys[j])
    def blas_dtrmm(self, ex, st, a):
        side, uplo, tra, diag = (self.chr_(ex, st, a[i]).upper() for i in (0, 1, 2, 3))
        m, n, lda, ldb = (self.ival(ex, st, a[i]) for i in (4, 5, 8, 10)); al = self.dval(ex, st, a[6])
        k = m if side == 'L' else n
        if m < 0 or n < 0 or lda < max(1, k) or ldb < max(1, m): raise KernelFault('dtrmm: illegal argument (XERBLA)')
        if m == 0 or n == 0: return None
        def A(i, j):
            if tra != 'N': i, j = j, i
            if i == j: return z3.RealVal(1) if diag == 'U' else self.rd(ex, st, a[7], i + j*lda)
            if (uplo == 'L') == (i > j): return self.rd(ex, st, a[7], i + j*lda)
            return None        # zero (the other triangle is not referenced)
        B = [[self.rd(ex, st, a[9], i + j*ldb) for j in range(n)] for i in range(m)]
        for i in range(m):
            for j in range(n):
                tot = z3.RealVal(0)
                for l in range(k):
                    t = A(i, l) if side == 'L' else A(l, j)
                    if t is None: continue
                    tot = tot + (t*B[l][j] if side == 'L' else B[i][l]*t)
                self.wr(ex, st, a[9], i + j*ldb, al*tot)
    def blas_dsyr2k(self, ex, st, a):
        uplo, tr = self.chr_(ex, st, a[0]).upper(), self.chr_(ex, st, a[1]).upper()
        n, k, lda, ldb, ldc = (self.ival(ex, st, a[i]) for i in (2, 3, 6, 8, 11)); al, be = self.dval(ex, st, a[4]), self.dval(ex, st, a[9])
        nra = n if tr == 'N' else k
        if n < 0 or k < 0 or lda < max(1, nra) or ldb < max(1, nra) or ldc < max(1, n): raise KernelFault('dsyr2k: illegal argument (XERBLA)')
        if n == 0: return None
        def el(p, ld, i, l): return self.rd(ex, st, p, (i + l*ld) if tr == 'N' else (l + i*ld))
        for j in range(n):
            rng = range(j, n) if uplo == 'L' else range(0, j + 1)
            for i in rng:
                tot = z3.RealVal(0)
                for l in range(k): tot = tot + el(a[5], lda, i, l)*el(a[7], ldb, j, l) + el(a[7], ldb, i, l)*el(a[5], lda, j, l)
                self.wr(ex, st, a[10], i + j*ldc, be*self.rd(ex, st, a[10], i + j*ldc) + al*tot)
    def blas_dlacpy(self, ex, st, a):
        uplo = self.chr_(ex, st, a[0]).upper()
        m, n, lda, ldb = (self.ival(ex, st, a[i]) for i in (1, 2, 4, 6))
        for j in range(n):
            for i in range(m):
                if uplo == 'U' and i > j: continue
                if uplo == 'L' and i < j: continue
                self.wr(ex, st, a[5], i + j*ldb, self.rd(ex, st, a[3], i + j*lda))
    def _lmin(self, ex, st, p, n, lda):
        if n == 1: return self.rd(ex, st, p, 0)
        if n == 2:
            a_, b_, c_ = self.rd(ex, st, p, 0), self.rd(ex, st, p, 1), self.rd(ex, st, p, 1 + lda)
            return ((a_ + c_) - self.hooks['sqrt']((a_ - c_)*(a_ - c_) + 4*b_*b_))/2
        raise Unsupported('eigenvalues of a symmetric matrix of order %d' % n)
    def blas_dsyevr(self, ex, st, a):
        # dsyevr(jobz, range, uplo, n, A, lda, vl, vu, il, iu, abstol, m, w, Z, ldz, isuppz, work, lwork, iwork, liwork, info)
        jobz, rng, uplo = (self.chr_(ex, st, a[i]).upper() for i in (0, 1, 2))
        n, lda = self.ival(ex, st, a[3]), self.ival(ex, st, a[5])
        lwork, liwork = self.ival(ex, st, a[17]), self.ival(ex, st, a[19])
        if lwork == -1 or liwork == -1:
            self.wr(ex, st, a[16], 0, z3.RealVal(max(1, 26*n))); st.mem[(a[18].region, a[18].off)] = max(1, 10*n)
            st.mem[(a[20].region, a[20].off)] = 0; return None
        if not (jobz == 'N' and rng == 'I' and uplo == 'L'): raise Unsupported('dsyevr configuration %s%s%s' % (jobz, rng, uplo))
        il, iu = self.ival(ex, st, a[8]), self.ival(ex, st, a[9])
        if (il, iu) != (1, 1): raise Unsupported('dsyevr il, iu = %d, %d' % (il, iu))
        if lda < max(1, n): raise KernelFault('dsyevr: lda = %d < n = %d (XERBLA)' % (lda, n))
        if lwork < max(1, 26*n) or liwork < max(1, 10*n): raise KernelFault('dsyevr: work space smaller than the queried size')
        st.mem[(a[20].region, a[20].off)] = 0
        if n == 0:
            st.mem[(a[11].region, a[11].off)] = 0; return None
        lm = self._lmin(ex, st, a[4], n, lda)
        st.mem[(a[11].region, a[11].off)] = 1
        self.wr(ex, st, a[12], 0, lm)
        for j in range(n):                       # A is destroyed on exit
            for i in range(j, n): self.wr(ex, st, a[4], i + j*lda, ex.fresh('syevr_destroyed', 'real'))
    def blas_dsyevd(self, ex, st, a):
        # dsyevd(jobz, uplo, n, A, lda, w, work, lwork, iwork, liwork, info)
        jobz, uplo = self.chr_(ex, st, a[0]).upper(), self.chr_(ex, st, a[1]).upper()
        n, lda, lwork, liwork = (self.ival(ex, st, a[i]) for i in (2, 4, 7, 9))
        if lwork == -1 or liwork == -1:
            self.wr(ex, st, a[6], 0, z3.RealVal(max(1, 1 + 6*n + 2*n*n))); st.mem[(a[8].region, a[8].off)] = max(1, 3 + 5*n)
            st.mem[(a[10].region, a[10].off)] = 0; return None
        if lda < max(1, n): raise KernelFault('dsyevd: lda = %d < n = %d (XERBLA)' % (lda, n))
        st.mem[(a[10].region, a[10].off)] = 0
        if n == 0: return None
        if n == 1 and uplo == 'L':
            self.wr(ex, st, a[5], 0, self.rd(ex, st, a[3], 0))
            if jobz == 'V': self.wr(ex, st, a[3], 0, z3.RealVal(1))
            return None
        raise Unsupported('dsyevd of order %d' % n)


def run_kernel(irmod, fname, pyargs, pykw, hooks):
    sc = MiscScenario(irmod, fname, pyargs, pykw, hooks)
    ex = X.Executor(irmod, sc, max_paths=4, loop_bound=100000)
    ex.decide_hook = hooks['decide']
    try:
        paths = ex.run(fname, [Ptr('obj:self', 0), Ptr('obj:args', 0), Ptr('obj:kwrds', 0)])
    except X.PathEnd:
        paths = ex.paths
    if len(paths) != 1: raise KernelFault('%s: %d paths (expected exactly one with concrete structure)' % (fname, len(paths)))
    p = paths[0]
    if p['kind'] == 'unsupported': raise KernelFault('%s: unsupported: %s' % (fname, p['why']))
    if p['kind'] != 'return': raise KernelFault('%s: path ended with %s (%s)' % (fname, p['kind'], p.get('why')))
    # extent check of every direct access
    for (region, off) in [k for k in p['mem'] if isinstance(k, tuple) and len(k) == 2 and isinstance(k[0], str) and k[0][:3] in ('mb:', 'wk:')]:
        ext = sc.extent.get(region)
        if ext is not None and is_conc(off) and (off < 0 or off >= ext): raise KernelFault('%s: access at byte %d of %s (%d bytes)' % (fname, off, region, ext))
    if p['exc'] is not None:
        cls = {'PyExc_TypeError': TypeError, 'PyExc_ValueError': ValueError, 'PyExc_KeyError': KeyError, 'PyExc_MemoryError': MemoryError,
               'PyExc_ArithmeticError': ArithmeticError}.get(p['exc'][0], RuntimeError)
        raise cls(p['exc'][1])
    if not (isinstance(p['ret'], Ptr) and p['ret'].region is not None): raise KernelFault('%s returned NULL without an exception' % fname)
    # write back
    for nm, o in sc.objs.items():
        if not hooks['is_matrix'](o): continue
        for i in range(len(o)):
            key = ('mb:' + nm, 8*i)
            if key in p['mem']:
                new = p['mem'][key]
                if new is not hooks['T'](o[i]) and not z3.eq(new if z3.is_expr(new) else z3.RealVal(new), hooks['T'](o[i])):
                    hooks['set'](o, i, new)
    if sc.result is None or sc.result[0] == 'none': return None
    return hooks['wrap'](sc.result[1])


FUNCS = ('scale', 'scale2', 'pack', 'pack2', 'unpack', 'symm', 'trisc', 'triusc', 'sdot', 'sprod', 'sinv', 'max_step')

def make_module(irmod, hooks):
    m = types.ModuleType('cvxopt.misc_solvers')
    m.__vp_ir__ = True
    for f in FUNCS:
        if f not in irmod.functions: raise Unsupported('misc_solvers.c has no function %s' % f)
        def mk(fn):
            def g(*a, **k): return run_kernel(irmod, fn, a, k, hooks)
            g.__name__ = fn
            return g
        setattr(m, f, mk(f))
    return m
