"""C14 - writing an LP to MPS and reading it back preserves the problem.

Three solver-decided parts, all on the real /repo/src/python/modeling.py:
 (L) labels  - the label expression `name[:7-len(str(i))] + '_' + str(i)` is extracted from
     op.tofile's AST and translated to SMT-LIB strings (engine S); z3 decides injectivity over
     all names (|name| <= 10) and component indices (< 1000), and the 8-character limit.
 (R) reader  - op.fromfile runs on the symbolic shim on synthetic fixed-format files whose
     numeric fields are SYMBOLIC (an injected float() maps the placeholders to z3 reals): row
     types N/L/G/E x RANGES present/absent x bound kinds LO/UP/FX/FR/MI/PL/none/LO+UP, one
     or two entries per line; z3 decides that the constraints built are exactly those the MPS
     format defines, for all field values and all points (sign of R split by the solver).
 (T) round trip - for LPs from the modeling grammar op.tofile then op.fromfile run through an
     in-memory file; z3 decides for all points that the re-read problem has the same
     constraints and the same objective up to its additive constant (coefficients are exactly
     representable with 6 digits), same numbers of variables / rows.
"""
import json, sys, os, re, io, time, ast
from vp.checks import c11

# ------------------------------------------------------------------------------------------ (L) labels, engine S

def extract_label_exprs(src):
    """all assignments `X = X[:(7-len(str(I)))] + '_' + str(I)` in op.tofile -> count, and check shape"""
    tree = ast.parse(src)
    found = []
    for node in ast.walk(tree):
        if isinstance(node, ast.FunctionDef) and node.name == 'tofile':
            for n in ast.walk(node):
                if isinstance(n, ast.BinOp) and isinstance(n.op, ast.Add):
                    txt = ast.unparse(n)
                    m = re.fullmatch(r"(\w+)\[:\s*\(?7 - len\(str\((\w+)\)\)\)?\] \+ '_' \+ str\((\w+)\)", txt)
                    if m and m.group(2) == m.group(3): found.append((m.group(1), m.group(2), txt))
                    elif m: MIXED.append((m.group(1), m.group(2), m.group(3), txt))
    return found

MIXED = []      # label-shaped expressions of op.tofile whose truncation index and suffix index are different names

def mixed_label_obligation(tmo_s=20):
    """a section that builds its label as name[:7-len(str(a))] + '_' + str(b) writes a label that differs from the one every
    other section uses for (name, b) for some name and indices - decided with z3 strings; indices <= 12 so that the witness
    can be replayed with a small problem"""
    import z3
    def digits(i, s_):
        return z3.And(i >= 0, i <= 12, z3.InRe(s_, z3.Union(z3.Re('0'), z3.Concat(z3.Range('1', '9'), z3.Star(z3.Range('0', '9'))))), z3.StrToInt(s_) == i, z3.Length(s_) <= 2)
    def label(name, si_trunc, si):
        k = 7 - z3.Length(si_trunc)
        return z3.Concat(z3.SubString(name, 0, z3.If(k < z3.Length(name), k, z3.Length(name))), z3.StringVal('_'), si)
    n1, sa, sb = z3.String('n1'), z3.String('sa'), z3.String('sb'); a, b = z3.Int('a'), z3.Int('b')
    sol = z3.Solver(); sol.set('timeout', tmo_s*1000)
    sol.add(digits(a, sa), digits(b, sb), z3.Length(n1) >= 1, z3.Length(n1) <= 8, z3.InRe(n1, z3.Plus(z3.Range('a', 'z'))), label(n1, sa, sb) != label(n1, sb, sb))
    r = sol.check()
    if r == z3.sat:
        mm = sol.model()
        return str(r), {'n1': mm.eval(n1, True).as_string(), 'a': mm.eval(a, True).as_long(), 'b': mm.eval(b, True).as_long()}
    return str(r), None

def label_obligations(tmo_s=20):
    """z3 string obligations.  Returns list of (label, verdict, model)"""
    import z3
    out = []
    def digits(i, s):
        # s is the decimal rendering of i, 0 <= i < 1000 (bounded: no unbounded str.from_int)
        return z3.And(i >= 0, i < 1000, z3.InRe(s, z3.Union(z3.Re('0'), z3.Concat(z3.Range('1', '9'), z3.Star(z3.Range('0', '9'))))),
                      z3.StrToInt(s) == i, z3.Length(s) <= 3)
    def label(name, i, si):
        k = 7 - z3.Length(si)
        return z3.Concat(z3.SubString(name, 0, z3.If(k < z3.Length(name), k, z3.Length(name))), z3.StringVal('_'), si)
    n1, n2, s1, s2 = z3.String('n1'), z3.String('n2'), z3.String('s1'), z3.String('s2')
    i1, i2 = z3.Int('i1'), z3.Int('i2')
    base = [digits(i1, s1), digits(i2, s2), z3.Length(n1) <= 10, z3.Length(n2) <= 10, z3.Length(n1) >= 1, z3.Length(n2) >= 1,
            z3.Not(z3.Contains(n1, ' ')), z3.Not(z3.Contains(n2, ' '))]
    def run(label_, extra):
        s = z3.Solver(); s.set('timeout', tmo_s*1000)
        for f in base + extra: s.add(f)
        r = s.check()
        m = None
        if r == z3.sat:
            mm = s.model()
            m = {'n1': mm.eval(n1, True).as_string(), 'n2': mm.eval(n2, True).as_string(), 'i1': mm.eval(i1, True).as_long(), 'i2': mm.eval(i2, True).as_long()}
        out.append((label_, str(r), m))
    # 1. length limit
    run('label length <= 8', [z3.Length(label(n1, i1, s1)) > 8])
    # 2. injectivity whenever no truncation occurs (len(name) + digits <= 7)
    run('labels injective when len(name) + len(str(i)) <= 7', [z3.Length(n1) + z3.Length(s1) <= 7, z3.Length(n2) + z3.Length(s2) <= 7, z3.Or(n1 != n2, i1 != i2),
         z3.Not(z3.Contains(n1, '_')), z3.Not(z3.Contains(n2, '_')), label(n1, i1, s1) == label(n2, i2, s2)])
    # 3. injectivity for distinct names in general (expected: violated by truncation)
    run('labels injective for distinct names (any length <= 10)', [n1 != n2, z3.Not(z3.Contains(n1, '_')), z3.Not(z3.Contains(n2, '_')), label(n1, i1, s1) == label(n2, i2, s2)])
    return out

def width_obligation():
    """printf model of the writer's numeric field '% 7.5E': sign/blank + d.ddddd + 'E' + sign + max(2, digits(|e|))
    exponent digits; the reader takes 12 characters (s[24:36]).  z3 (integers): is there a decimal exponent in
    the double range for which the field is wider than 12?  (the model is validated against the real % operator)"""
    import z3
    e, w, nd = z3.Ints('e w nd')
    s = z3.Solver(); s.set('timeout', 10000)
    ae = z3.If(e >= 0, e, -e)
    s.add(e >= -323, e <= 308, nd == z3.If(ae >= 100, 3, 2), w == 1 + 7 + 1 + 1 + nd, w > 12)
    r = s.check()
    model = {'e': s.model().eval(e, True).as_long()} if r == z3.sat else None
    # validate the width model against the real formatting on every exponent
    for ex in range(-323, 309):
        v = float('1.5e%d' % ex)
        if v == 0.0 or v == float('inf'): continue
        real = len('% 7.5E' % v); mod = 1 + 7 + 1 + 1 + (3 if abs(ex) >= 100 else 2)
        if real != mod: return ('numeric field fits the 12 characters read back', 'model-mismatch', {'e': ex})
    return ('numeric field fits the 12 characters read back', str(r), model)

# ------------------------------------------------------------------------------------------ (R) reader semantics

BOUND_KINDS = ['none', 'LO', 'UP', 'FX', 'FR', 'MI', 'PL', 'LO+UP', 'MI+UP']

def mps_line(kind, f1, f2, v1, f3=None, v2=None):
    """fixed format: cols 2-3 kind, 5-12 name, 15-22 name, 25-36 number, 40-47 name, 50-61 number"""
    s = ' ' + kind.ljust(2) + ' ' + f1.ljust(8) + '  ' + f2.ljust(8) + '  ' + (v1 if v1 is not None else '').rjust(12)
    if f3 is not None:
        s += '   ' + f3.ljust(8) + '  ' + v2.rjust(12)
    return s.rstrip() + '\n'

def reader_specs(tier):
    specs = []
    for rt in ('L', 'G', 'E'):
        for rng in (False, True):
            for bk in BOUND_KINDS:
                specs.append({'rows': [(rt, rng)], 'bounds': [bk, 'none'], 'two_per_line': False, 'rhs': True})
    for rt in ('L', 'G', 'E'):
        specs.append({'rows': [(rt, True), ('G' if rt != 'G' else 'L', False)], 'bounds': ['LO', 'UP'], 'two_per_line': True, 'rhs': True})
        specs.append({'rows': [(rt, False)], 'bounds': ['none', 'none'], 'two_per_line': False, 'rhs': False})
        specs.append({'rows': [(rt, True), ('E', True)], 'bounds': ['FR', 'FX'], 'two_per_line': True, 'rhs': True})
    return specs

def build_file(spec):
    """returns (text, placeholders) - numeric fields are placeholders '@k'"""
    ph = []
    def num(tag):
        ph.append(tag); return '@%d' % (len(ph) - 1)
    rows = spec['rows']; cols = ['c1', 'c2']
    t = 'NAME          TEST\nROWS\n N  cost\n'
    for k, (rt, rng) in enumerate(rows): t += ' %s  r%d\n' % (rt, k)
    t += 'COLUMNS\n'
    for c in cols:
        names = ['cost'] + ['r%d' % k for k in range(len(rows))]
        ents = [(nm, num('a_%s_%s' % (nm, c))) for nm in names]
        if spec['two_per_line']:
            while ents:
                e1 = ents.pop(0); e2 = ents.pop(0) if ents else None
                t += mps_line('', c, e1[0], e1[1], e2[0] if e2 else None, e2[1] if e2 else None)
        else:
            for e in ents: t += mps_line('', c, e[0], e[1])
    t += 'RHS\n'
    if spec['rhs']:
        for k in range(len(rows)): t += mps_line('', 'rhs', 'r%d' % k, num('rhs_r%d' % k))
    t += 'RANGES\n'
    for k, (rt, rng) in enumerate(rows):
        if rng: t += mps_line('', 'rng', 'r%d' % k, num('R_r%d' % k))
    t += 'BOUNDS\n'
    for c, bk in zip(cols, spec['bounds']):
        for part in ([] if bk == 'none' else bk.split('+')):
            if part in ('FR', 'MI', 'PL'): t += mps_line(part, 'bnd', c, None)
            else: t += mps_line(part, 'bnd', c, num('%s_%s' % (part, c)))
    t += 'ENDATA\n'
    return t, ph

def mps_oracle(spec, F, X):
    """constraints the MPS format defines; F: tag -> z3 term of the field, X: column -> z3 term.
    Returns (list of z3 constraints, objective term)."""
    import z3
    rows = spec['rows']; cols = ['c1', 'c2']
    cons = []
    for k, (rt, rng) in enumerate(rows):
        ax = z3.Sum([F['a_r%d_%s' % (k, c)] * X[c] for c in cols])
        rhs = F['rhs_r%d' % k] if spec['rhs'] else z3.RealVal(0)
        if not rng:
            cons.append(ax <= rhs if rt == 'L' else (ax >= rhs if rt == 'G' else ax == rhs))
        else:
            R = F['R_r%d' % k]; aR = z3.If(R >= 0, R, -R)
            if rt == 'L': cons += [ax <= rhs, ax >= rhs - aR]
            elif rt == 'G': cons += [ax >= rhs, ax <= rhs + aR]
            else:
                cons.append(z3.If(R == 0, ax == rhs, z3.If(R > 0, z3.And(ax >= rhs, ax <= rhs + R), z3.And(ax <= rhs, ax >= rhs + R))))
    for c, bk in zip(cols, spec['bounds']):
        lo, up = z3.RealVal(0), None
        parts = [] if bk == 'none' else bk.split('+')
        for part in parts:
            if part == 'LO': lo = F['LO_' + c]
            elif part == 'UP': up = F['UP_' + c]
            elif part == 'FX': lo = up = F['FX_' + c]
            elif part == 'FR': lo, up = None, None
            elif part == 'MI': lo = None
            elif part == 'PL': up = None
        if lo is not None: cons.append(X[c] >= lo)
        if up is not None: cons.append(X[c] <= up)
    obj = z3.Sum([F['a_cost_%s' % c] * X[c] for c in cols])
    return cons, obj

class FakeFS(object):
    def __init__(self): self.files = {}
    def open(self, name, mode='r'):
        fs = self
        if 'w' in mode:
            class W(io.StringIO):
                def close(s_):
                    fs.files[name] = s_.getvalue(); io.StringIO.close(s_)
            return W()
        return io.StringIO(self.files[name])

_WORLD = None
def _world():
    global _WORLD
    if _WORLD is None: _WORLD = c11._world()
    return _WORLD

def problem_at_point(M, p, colvals, ops_num):
    """evaluate a (re-read) op at a point: returns (list of z3 constraints, objective term).
    colvals: variable name -> term"""
    import z3
    from vp.pysym import sym
    for v in p.variables():
        v.value = M.matrix([sym.SymReal(colvals[v.name])], (1, 1), 'd') if False else None
    return None

def job_reader(cfg):
    import z3
    from vp.pysym import sym, prove
    Wd = _world(); M = Wd.modeling
    tmo = int(cfg.get('_timeout_ms', 10000))
    res = {'n': 0, 'paths': 0, 'obl': {'total': 0, 'unsat': 0, 'sat': 0, 'unknown': 0}, 'solver_s': 0.0, 'sat': [], 'unknown': [], 'errors': [], 'sample': None}
    def count(v, secs=0.0): res['obl']['total'] += 1; res['obl'][v] += 1; res['solver_s'] += secs
    for spec in cfg['specs']:
        res['n'] += 1
        text, ph = build_file(spec)
        F = {tag: z3.Real('f!' + tag) for tag in ph}
        fs = FakeFS(); fs.files['in.mps'] = text
        def sym_float(s):
            s = s.strip()
            if s.startswith('@'): return sym.SymReal(F[ph[int(s[1:])]])
            return float(s)
        state = {}
        def run_one():
            M.__dict__['open'] = fs.open; M.__dict__['__vp_float__'] = sym_float; M.__dict__['print'] = lambda *a, **k: None
            try:
                p = M.op(); p.fromfile('in.mps')
            finally:
                for k_ in ('open', 'print'): M.__dict__.pop(k_, None)
                M.__dict__['__vp_float__'] = float
            return p
        def on_path(kind, val, ctx):
            res['paths'] += 1
            pc = list(ctx.pc)
            X = {'c1': z3.Real('x!c1'), 'c2': z3.Real('x!c2')}
            ocons, oobj = mps_oracle(spec, F, X)
            if kind == 'exception':
                # fromfile may refuse only what the oracle cannot satisfy structurally: constants-only
                # rows etc. do not occur in these specs -> any exception must be on an infeasible path
                v = prove.feasible(pc, tmo)
                if v == 'unsat': count('unsat'); return
                if isinstance(val, ValueError) and 'has no variables' in str(val):
                    # a row whose coefficients are all zero: the code's documented refusal of an inconsistent empty row
                    count('unsat'); return
                _, m, _ = sym.check(pc, tmo, want_model=True)
                count('sat' if v == 'sat' else 'unknown')
                if v == 'sat': res['sat'].append({'spec': spec, 'label': 'fromfile raises %s: %s' % (type(val).__name__, str(val)[:60]), 'model': sym.model_to_dict(m)})
                else: res['unknown'].append(json.dumps(spec))
                return
            if kind != 'return':
                res['errors'].append('%s: %s' % (kind, val)); return
            p = val
            byname = {}
            for v in p.variables(): byname[v.name] = v
            for v in p.variables():
                v.value = Wd.matrix([sym.SymReal(X[v.name])], (1, 1), 'd')
            # variables dropped by the code (all coefficients zero) keep no constraint: fine
            ccons = []
            try:
                for c in p.inequalities():
                    for e in c._f.value(): ccons.append(sym.T(e) <= 0)
                for c in p.equalities():
                    for e in c._f.value(): ccons.append(sym.T(e) == 0)
                cobj = sym.T(p.objective.value()[0]) if p.objective.variables() else sym.T(p.objective._constant[0])
            except Exception as e:
                res['errors'].append('%s: evaluating the re-read problem: %s' % (json.dumps(spec), e)); return
            pc2 = list(ctx.pc)
            # a column that does not occur in the re-read problem is unconstrained there
            goal = z3.And((z3.And(*ccons) if ccons else z3.BoolVal(True)) == (z3.And(*ocons) if ocons else z3.BoolVal(True)), cobj == oobj)
            # removed redundant constraints: the code drops constraints without variables -> handled by value semantics
            r = prove.prove(goal, pc2, (), tmo, slice_first=False)
            count(r['verdict'], r['secs'])
            if r['verdict'] == 'sat': res['sat'].append({'spec': spec, 'label': 'constraints built by fromfile differ from the MPS definition', 'model': r['model']})
            elif r['verdict'] == 'unknown': res['unknown'].append(json.dumps(spec))
            if res['sample'] is None: res['sample'] = {'spec': spec, 'file': text, 'smt': z3.Not(goal).sexpr()[:300]}
        sym.explore(run_one, on_path=on_path, max_paths=400)
    return res

# ------------------------------------------------------------------------------------------ (T) round trip

RT_OBJECTIVES = ['sum(x)', 'dot(b3, x) + y', 'y', '2.0*y - z[0] + 3.0', 'sum(D33*x) + sum(z)']
RT_CONSTRAINTS = [('<=', 'x', 'b3'), ('>=', 'x', '-2.0'), ('<=', 'A23*x', '4.0'), ('==', 'z', 'x + 1.0'), ('==', 'A23*x', 'b3[:2]'),
                  ('==', 'y', '1.0'), ('>=', 'z', 'x - 1.0'), ('<=', 'A33*x - y', 'b3'), ('==', 'sum(z)', 'y'), ('<=', 'r3*x + y', '7.0'),
                  ('<=', '2.0*z + D33*x', 'b3 + 9.0'), ('>=', 'y', '-1.0'), ('<=', 'z', '5.0'), ('<=', 'S33*x + y', '2.0'), ('<=', 'y + A31*y', 'b3'),
                  ('<=', 'x - y', '1.5'), ('==', 'x[0] + z[2]', 'y'), ('<=', 'x[0] - y', '1.0')]

def rt_problems(tier):
    out = []
    nC = len(RT_CONSTRAINTS)
    for i in range(nC):
        out.append((RT_OBJECTIVES[i % len(RT_OBJECTIVES)], [i, 1, 11, 12]))
        out.append((RT_OBJECTIVES[(i + 2) % len(RT_OBJECTIVES)], [(i + 3) % nC, i, 1, 6, 11]))
        if tier == 'thorough':
            for j in range(i + 1, nC): out.append((RT_OBJECTIVES[(i + j) % len(RT_OBJECTIVES)], [i, j, 1, 11, 12]))
    out.append(('x[0] + y', [17, 11]))       # components x[1], x[2] have only zero coefficients
    return [{'obj': o, 'cons': cs} for o, cs in out]

def job_roundtrip(cfg):
    import z3
    from vp.pysym import sym, prove
    from vp.checks import c12
    Wd = _world(); M = Wd.modeling
    ops = c11.Ops(True)
    tmo = int(cfg.get('_timeout_ms', 10000))
    res = {'n': 0, 'obl': {'total': 0, 'unsat': 0, 'sat': 0, 'unknown': 0}, 'solver_s': 0.0, 'sat': [], 'unknown': [], 'errors': [], 'sample': None}
    def count(v, secs=0.0): res['obl']['total'] += 1; res['obl'][v] += 1; res['solver_s'] += secs
    saved = (c12.CONSTRAINTS,)
    for prob in cfg['probs']:
        res['n'] += 1
        key = json.dumps(prob)
        sym.CTX.reset_all(); sym.CTX.start_path([])
        ns = c11.real_namespace(Wd, {nm: [0.0]*n for nm, n in c11.VARS.items()})
        for nm in c11.VARS: ns[nm].value = None
        c12.CONSTRAINTS = RT_CONSTRAINTS
        try:
            p, cons = c12.build_real(Wd, ns, {'obj': prob['obj'], 'cons': prob['cons']})
        finally:
            c12.CONSTRAINTS = saved[0]
        fs = FakeFS()
        M.__dict__['open'] = fs.open; M.__dict__['print'] = lambda *a, **k: None
        try:
            try:
                p.tofile('rt.mps')
                q = M.op(); q.fromfile('rt.mps')
            except NotImplementedError as e:
                res['errors'].append('%s: shim does not model: %s' % (key, e)); continue
            except Exception as e:
                count('sat'); res['sat'].append({'prob': prob, 'label': 'round trip raises %s: %s' % (type(e).__name__, str(e)[:70]), 'model': {}}); continue
        finally:
            for k_ in ('open', 'print'): M.__dict__.pop(k_, None)
        # symbolic point for the original variables that occur in p
        used = [nm for nm in c11.VARS if ns[nm] in p.variables()]
        V = {nm: [z3.Real('%s%d' % (nm, i)) for i in range(c11.VARS[nm])] for nm in c11.VARS}
        # structure: numbers of variables / rows
        n_orig = sum(c11.VARS[nm] for nm in used)
        m_orig = sum(len(c) for c in p.inequalities()); p_orig = sum(len(c) for c in p.equalities())
        qn = len(q.variables()); qm = sum(len(c) for c in q.inequalities()); qp = sum(len(c) for c in q.equalities())
        if (n_orig, m_orig, p_orig) != (qn, qm, qp):
            count('sat'); res['sat'].append({'prob': prob, 'label': 'counts differ after the round trip: variables/inequality rows/equality rows %s -> %s' % ((n_orig, m_orig, p_orig), (qn, qm, qp)), 'model': {}}); continue
        count('unsat')
        # evaluate the re-read problem at the mapped point: label name_i -> component i of variable name
        ok = True
        for v in q.variables():
            mm = re.fullmatch(r'(\w+?)_(\d+)', v.name)
            if not mm or mm.group(1) not in V or int(mm.group(2)) >= len(V[mm.group(1)]): ok = False; break
            v.value = Wd.matrix([sym.SymReal(V[mm.group(1)][int(mm.group(2))])], (1, 1), 'd')
        if not ok:
            count('sat'); res['sat'].append({'prob': prob, 'label': 'a re-read column label is not <name>_<index> of an original variable', 'model': {}}); continue
        qcons = []
        for c in q.inequalities(): qcons += [sym.T(e) <= 0 for e in c._f.value()]
        for c in q.equalities(): qcons += [sym.T(e) == 0 for e in c._f.value()]
        qobj = sym.T(q.objective.value()[0]) if q.objective.variables() else sym.T(q.objective._constant[0])
        # the written problem through the reference evaluator
        c12.CONSTRAINTS = RT_CONSTRAINTS
        try: f0, rcons = c12.ref_problem(ops, V, {'obj': prob['obj'], 'cons': prob['cons']})
        finally: c12.CONSTRAINTS = saved[0]
        ocons = []
        for rel, comps in rcons:
            ocons += [(e <= 0) if rel == '<=' else ((e >= 0) if rel == '>=' else (e == 0)) for e in comps]
        # objective equal up to the additive constant: compare the linear parts via difference at two points
        V2 = {nm: [z3.Real('w!%s%d' % (nm, i)) for i in range(c11.VARS[nm])] for nm in c11.VARS}
        sub = [(V[nm][i], V2[nm][i]) for nm in V for i in range(len(V[nm]))]
        goal = z3.And(z3.And(*qcons) == z3.And(*ocons), (qobj - z3.substitute(qobj, *sub)) == (f0 - z3.substitute(f0, *sub)))
        r = prove.prove(goal, [], (), tmo, slice_first=False)
        count(r['verdict'], r['secs'])
        if r['verdict'] == 'sat': res['sat'].append({'prob': prob, 'label': 'the re-read problem differs from the written one (constraints or linear objective)', 'model': r['model']})
        elif r['verdict'] == 'unknown': res['unknown'].append(key)
        if res['sample'] is None: res['sample'] = {'problem': prob, 'mps_file_head': fs.files.get('rt.mps', '')[:400]}
    return res

# ------------------------------------------------------------------------------------------ replay on the real build

def replay(d):
    from vp.pysym import loader
    import tempfile, fractions
    Wd = loader.load('conc', modules=('modeling',), transform_solvers=False)
    M = Wd.modeling
    from cvxopt import matrix
    def val(model, name, default=1.0):
        v = model.get(name)
        if v is None: return default
        try: return float(fractions.Fraction(v))
        except Exception: return float(v)
    tmp = tempfile.mkdtemp(prefix='vp.c14.', dir='/var/tmp')
    try:
        fn = os.path.join(tmp, 'f.mps')
        if d['kind'] == 'labels':
            n1, n2, i1, i2 = d['model']['n1'], d['model']['n2'], d['model']['i1'], d['model']['i2']
            a = M.variable(max(i1, i2) + 1, n1); b = M.variable(max(i1, i2) + 1, n2)
            p = M.op(M.sum(a) + M.sum(b), [a >= 1.0, b >= 2.0])
            try:
                p.tofile(fn); q = M.op(); q.fromfile(fn)
            except Exception as e:
                return {'violated': ['distinct variable names %r, %r: round trip raises %s: %s' % (n1, n2, type(e).__name__, str(e)[:60])]}
            if len(q.variables()) != len(a) + len(b):
                return {'violated': ['distinct variable names %r, %r: %d variables written, %d read back' % (n1, n2, len(a) + len(b), len(q.variables()))]}
            return {'violated': []}
        if d['kind'] == 'labels-mixed':
            # K constraints of L rows each over one variable; the constraint at position a and the one at position b carry the
            # witness name (+ a distinguishing letter is not possible without changing the label: names are n1 and 'c<k>')
            n1, a_, b_ = d['model']['n1'], d['model']['a'], d['model']['b']
            K = max(a_, b_) + 1
            x = M.variable(K, 'x')
            cons = []
            for k_ in range(K):
                c = (x <= matrix([10.0*k_ + l_ + 1.0 for l_ in range(K)]))
                c.name = n1 if k_ == a_ else 'c%d' % k_
                cons.append(c)
            p = M.op(-M.sum(x), cons)
            try:
                p.tofile(fn); q = M.op(); q.fromfile(fn)
            except Exception as e:
                return {'violated': ['constraint %r at position %d with %d rows: round trip raises %s: %s' % (n1, a_, K, type(e).__name__, str(e)[:60])]}
            want = sorted(10.0*k_ + l_ + 1.0 for k_ in range(K) for l_ in range(K))
            got = sorted(-float(c._f._constant[i]) for c in q.inequalities() for i in range(len(c)))
            if len(got) != len(want) or any(abs(g - w) > 1e-4 for g, w in zip(got, want)):
                return {'violated': ['constraint %r at position %d with %d rows: right-hand sides read back differ from those written' % (n1, a_, K)]}
            return {'violated': []}
        if d['kind'] == 'width':
            v = float('1.5e%d' % d['model']['e'])
            a = M.variable(1, 'a')
            p = M.op(a[0], [v*a <= 1.0])
            p.tofile(fn); q = M.op(); q.fromfile(fn)
            got = [list(c._f._linear._coeff.values())[0][0] for c in q.inequalities() if c._f._linear._coeff]
            if not any(abs(g - v) <= 1e-5*abs(v) for g in got):
                return {'violated': ['coefficient %r written with a 13-character field is read back as %r' % (v, got)]}
            return {'violated': []}
        if d['kind'] == 'reader':
            spec, model = d['spec'], d['model']
            text, ph = build_file(spec)
            for k, tag in enumerate(ph):
                text = text.replace(('@%d' % k).rjust(12), ('% .5E' % val(model, 'f!' + tag, 1.0)).rjust(12), 1)
            open(fn, 'w').write(text)
            import io as _io, contextlib
            q = M.op()
            try:
                with contextlib.redirect_stdout(_io.StringIO()): q.fromfile(fn)
            except Exception as e:
                return {'violated': ['fromfile raises %s: %s' % (type(e).__name__, str(e)[:60])], 'file': text}
            X = {'c1': val(model, 'x!c1', 0.3), 'c2': val(model, 'x!c2', -0.7)}
            for v in q.variables(): v.value = matrix(X[v.name])
            code_ok = all(e <= 1e-9 for c in q.inequalities() for e in c._f.value()) and all(abs(e) <= 1e-9 for c in q.equalities() for e in c._f.value())
            # oracle numerically
            F = {tag: float('% .5E' % val(model, 'f!' + tag, 1.0)) for tag in ph}
            rows = spec['rows']; ok = True
            for k, (rt, rng) in enumerate(rows):
                ax = sum(F['a_r%d_%s' % (k, c)]*X[c] for c in ('c1', 'c2')); rhs = F['rhs_r%d' % k] if spec['rhs'] else 0.0
                lo, hi = (None, rhs) if rt == 'L' else ((rhs, None) if rt == 'G' else (rhs, rhs))
                if rng:
                    R = F['R_r%d' % k]
                    if rt == 'L': lo = rhs - abs(R)
                    elif rt == 'G': hi = rhs + abs(R)
                    elif R > 0: hi = rhs + R
                    elif R < 0: lo = rhs + R
                if lo is not None and ax < lo - 1e-9: ok = False
                if hi is not None and ax > hi + 1e-9: ok = False
            for c, bk in zip(('c1', 'c2'), spec['bounds']):
                lo, up = 0.0, None
                for part in ([] if bk == 'none' else bk.split('+')):
                    if part == 'LO': lo = F['LO_' + c]
                    elif part == 'UP': up = F['UP_' + c]
                    elif part == 'FX': lo = up = F['FX_' + c]
                    elif part == 'FR': lo, up = None, None
                    elif part == 'MI': lo = None
                    elif part == 'PL': up = None
                if lo is not None and X[c] < lo - 1e-9: ok = False
                if up is not None and X[c] > up + 1e-9: ok = False
            if code_ok != ok:
                return {'violated': ['at the point %s the constraints read by fromfile are %s but the MPS definition says %s' % (X, code_ok, ok)], 'file': text}
            return {'violated': []}
        if d['kind'] == 'roundtrip':
            from vp.checks import c12
            prob = d['prob']
            ns = c11.real_namespace(Wd, {nm: [0.0]*n for nm, n in c11.VARS.items()})
            c12.CONSTRAINTS = RT_CONSTRAINTS
            p, cons = c12.build_real(Wd, ns, {'obj': prob['obj'], 'cons': prob['cons']})
            import io as _io, contextlib
            try:
                p.tofile(fn); q = M.op()
                with contextlib.redirect_stdout(_io.StringIO()): q.fromfile(fn)
            except Exception as e:
                return {'violated': ['round trip raises %s: %s' % (type(e).__name__, str(e)[:70])]}
            used = [nm for nm in c11.VARS if ns[nm] in p.variables()]
            counts = (sum(c11.VARS[nm] for nm in used), sum(len(c) for c in p.inequalities()), sum(len(c) for c in p.equalities()))
            qc = (len(q.variables()), sum(len(c) for c in q.inequalities()), sum(len(c) for c in q.equalities()))
            if counts != qc: return {'violated': ['counts differ after the round trip: %s -> %s' % (counts, qc)]}
            model = d.get('model') or {}
            pts = {nm: [val(model, '%s%d' % (nm, i), 0.25*(i + 1)) for i in range(n)] for nm, n in c11.VARS.items()}
            for nm in c11.VARS: ns[nm].value = matrix(pts[nm])
            for v in q.variables():
                mm = re.fullmatch(r'(\w+?)_(\d+)', v.name); v.value = matrix(pts[mm.group(1)][int(mm.group(2))])
            def feas(o):
                return all(e <= 1e-9 for c in o.inequalities() for e in c._f.value()) and all(abs(e) <= 1e-9 for c in o.equalities() for e in c._f.value())
            if feas(p) != feas(q):
                return {'violated': ['at the solver\'s point the written problem is %s but the re-read problem is %s' % ('feasible' if feas(p) else 'infeasible', 'feasible' if feas(q) else 'infeasible')]}
            return {'violated': []}
    finally:
        import shutil; shutil.rmtree(tmp, True)

def replay_on_build(path):
    from vp import common
    r = common.run_conc(['-m', 'vp.checks.c14', '--replay-conc', path], timeout=600)
    if r.returncode != 0: return None, 'replay process failed: ' + r.stderr[-300:]
    try: d = json.loads(r.stdout.strip().splitlines()[-1])
    except Exception: return None, 'unparsable replay output'
    if d.get('violated'): return json.dumps(d)[:300], None
    return None, 'not reproduced'

def replay_main(path):
    rep, why = replay_on_build(path)
    if rep: print('REPRODUCED on the real build: %s' % rep); return 1
    print(why); return 0

def main(tier):
    from vp import common
    from vp.pysym import loader
    ev = common.Evidence('C14', 'model_checking', tier)
    known = common.known_findings('C14')
    violations, known_hits, herr, inconc = [], [], [], []
    # (L)
    found = extract_label_exprs(loader.read_src('modeling'))
    if len(found) < 5:
        herr.append('label expression not found in op.tofile as expected (found %d occurrences)' % len(found))
    t0 = time.time()
    for label, verdict, model in label_obligations(20 if tier == 'quick' else 120):
        ev.solver_s += 0
        if verdict == 'unsat': ev.add_obl('unsat')
        elif verdict == 'sat':
            ev.add_obl('sat')
            key = 'labels:' + label
            rp = common.write_replay('C14', key, {'property': 'C14', 'kind': 'labels', 'label': label, 'model': model})
            rep, why = replay_on_build(rp)
            if rep is None: herr.append('%s: counterexample %s %s' % (label, model, why))
            elif key in known: known_hits.append((key, known[key]['what'] + ' (solver witness: %r/%d vs %r/%d)' % (model['n1'], model['i1'], model['n2'], model['i2'])))
            else: violations.append((key, rp, '%s: %s -> %s' % (label, model, rep)))
        else:
            ev.add_obl('unknown'); inconc.append('labels: ' + label)
    for (nm_, ia_, ib_, txt_) in list(MIXED):
        verdict, model = mixed_label_obligation(20 if tier == 'quick' else 120)
        lab_ = 'label expression `%s` of op.tofile differs from the label of the other sections' % txt_
        if verdict == 'unsat': ev.add_obl('unsat')
        elif verdict == 'sat':
            ev.add_obl('sat'); key = 'labels-mixed:' + txt_
            rp = common.write_replay('C14', key, {'property': 'C14', 'kind': 'labels-mixed', 'label': lab_, 'model': model})
            rep, why = replay_on_build(rp)
            if rep is None: herr.append('%s: witness %s %s' % (lab_, model, why))
            elif key in known: known_hits.append((key, known[key]['what']))
            else: violations.append((key, rp, '%s: %s -> %s' % (lab_, model, rep)))
        else:
            ev.add_obl('unknown'); inconc.append('labels: ' + lab_)
    label, verdict, model = width_obligation()
    if verdict == 'unsat': ev.add_obl('unsat')
    elif verdict == 'sat':
        ev.add_obl('sat'); key = 'width:' + label
        rp = common.write_replay('C14', key, {'property': 'C14', 'kind': 'width', 'label': label, 'model': model})
        rep, why = replay_on_build(rp)
        if rep is None: herr.append('%s: counterexample %s %s' % (label, model, why))
        elif key in known: known_hits.append((key, known[key]['what']))
        else: violations.append((key, rp, '%s: exponent %s -> %s' % (label, model, rep)))
    else: herr.append('width obligation: %s %s' % (verdict, model))
    ev.solver_s += time.time() - t0
    # (R) + (T)
    specs = reader_specs(tier); probs = rt_problems(tier)
    cfgs = [{'specs': specs[i::16], '_timeout_ms': 10000 if tier == 'quick' else 60000} for i in range(16) if specs[i::16]]
    r1 = common.run_jobs('vp.checks.c14', 'job_reader', cfgs)
    cfgs2 = [{'probs': probs[i::16], '_timeout_ms': 10000 if tier == 'quick' else 60000} for i in range(16) if probs[i::16]]
    r2 = common.run_jobs('vp.checks.c14', 'job_roundtrip', cfgs2)
    paths = 0
    groups = {}
    for kind, results in (('reader', r1), ('roundtrip', r2)):
        for r in results:
            if not r['ok']: herr.append(r['err']); continue
            res = r['res']
            for key in ('total', 'unsat', 'sat', 'unknown'): ev.obl[key] += res['obl'][key]
            ev.solver_s += res['solver_s']; paths += res.get('paths', res['n'])
            if res['sample']: ev.sample(res['sample'], cap=4)
            herr += res['errors']; inconc += res['unknown']
            for s in res['sat']:
                g = kind + ':' + re.sub(r'\d+', '#', s['label'])[:80]
                groups.setdefault(g, []).append((kind, s))
    for g, items in sorted(groups.items()):
        rep = None
        for kind, s in items[:5]:
            payload = {'property': 'C14', 'kind': kind, 'label': s['label'], 'model': s['model']}
            payload.update({'spec': s['spec']} if kind == 'reader' else {'prob': s['prob']})
            rp = common.write_replay('C14', g + json.dumps(payload.get('spec') or payload.get('prob')), payload)
            rep, why = replay_on_build(rp)
            if rep: break
        if rep is None: herr.append('%s: counterexample %s (%s)' % (g, why, rp))
        elif g in known: known_hits.append((g, known[g]['what']))
        else: violations.append((g, rp, '%d cases, e.g. %s -> %s' % (len(items), json.dumps(s.get('spec') or s.get('prob')), rep)))
    ev.extra['counterexample_groups'] = {k: len(v) for k, v in groups.items()}
    ev.cov.update({'states': max(1, paths), 'transitions': max(1, ev.obl['total']), 'traces_validated_against_impl': 0,
                   'reader_specs': len(specs), 'roundtrip_problems': len(probs), 'label_expressions_found_in_tofile': len(found),
                   'functions_encoded': ['op.tofile (label expression: AST -> SMT-LIB strings; whole writer on the shim)', 'op.fromfile (symbolic numeric fields)'],
                   'source_hash': loader.src_hash(['modeling']),
                   'bounds': 'labels: |name| <= 10, index < 1000; reader: 2 columns, 1-2 rows, every row type x RANGES x bound kind, field values symbolic; round trip: %d affine LPs over x(3), y(1), z(3) with exactly representable coefficients' % len(probs)})
    ev.assumptions += ['round trip: coefficient VALUES are concrete (exactly representable in the 6-digit format), the comparison of the two problems is for all points',
                       'coefficients with three-digit exponents and variables whose coefficients are all zero are not generated by the round-trip grammar (see DESIGN.md: known limits of the fixed format)',
                       'the matrix shim is a model; counterexamples are replayed through real files on the real build']
    return common.finish(ev, violations, sorted(dict(known_hits).items()), herr, inconc)

if __name__ == '__main__':
    if len(sys.argv) >= 3 and sys.argv[1] == '--replay-conc':
        print(json.dumps(replay(json.load(open(sys.argv[2])))))
