#!/bin/bash
# try_seed.sh <patch.diff> <command...> : apply patch to /repo, run command (under timeout
# $SEED_TIMEOUT, default 1500 s), always revert - also when interrupted.
P="$1"; shift
git -C /repo diff --quiet || { echo "refusing: /repo has uncommitted changes" >&2; exit 8; }
trap 'git -C /repo checkout -- .' EXIT INT TERM
git -C /repo apply "$P" || exit 9
timeout ${SEED_TIMEOUT:-1500} "$@"; RC=$?
exit $RC
