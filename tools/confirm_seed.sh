#!/bin/bash
# confirm_seed.sh <dir with patch.diff demo.py> : verifies in a scratch worktree that
#  clean: tests pass, demo passes;  mutated: builds, tests pass, demo fails.  Prints a JSON line.
D="$1"; WT=$(mktemp -d /tmp/vpseed.XXXXXX); OV=$WT.ov
git -C /repo worktree add --detach "$WT" HEAD >/dev/null 2>&1 || { echo '{"error":"worktree"}'; exit 2; }
cleanup() { git -C /repo worktree remove --force "$WT" >/dev/null 2>&1; rm -rf "$OV" "$WT"; }
trap cleanup EXIT
run_tests() { (cd "$WT" && PYTHONPATH="$OV" timeout 900 /venv/bin/python -m pytest -o addopts="" -q -p no:cacheprovider tests 2>&1 | grep -E "passed|failed|error" | tail -1); }
run_demo() { (cd "$D" && PYTHONPATH="$OV" timeout 600 /venv/bin/python demo.py >/dev/null 2>&1; echo $?); }
/verif/tools/build_overlay.sh "$OV" "$WT" >/dev/null 2>&1 || { echo '{"error":"clean build"}'; exit 2; }
CT=$(run_tests); CD=$(run_demo)
git -C "$WT" apply "$D/patch.diff" || { echo '{"error":"patch does not apply"}'; exit 2; }
rm -rf "$OV"
/verif/tools/build_overlay.sh "$OV" "$WT" >/dev/null 2>&1 || { echo '{"error":"mutated build fails"}'; exit 2; }
MT=$(run_tests); MD=$(run_demo)
echo "{\"clean_tests\":\"$CT\",\"clean_demo_rc\":$CD,\"mut_tests\":\"$MT\",\"mut_demo_rc\":$MD}"
