"""C15 - index arithmetic of dense matrices (engine L on dense.c): matrix_subscr and matrix_ass_subscr.

The two functions are executed from their IR on a symbolic 'd' matrix (nrows, ncols <= 3, contents a z3 array) with
index arguments of every kind the functions distinguish - Python int, slice, integer matrix (index list), list - as
symbolic objects: ints carry an arbitrary value, slices an arbitrary (start, step, length) that PySlice_GetIndicesEx
may legally return for the dimension, index matrices up to 2 arbitrary entries, and right-hand sides a number or a
dense 'd' matrix of arbitrary shape <= 2 x 2.  z3 decides against Python sequence semantics on column-major storage:
accepted iff every index i satisfies -dim <= i < dim (IndexError otherwise) and the shapes agree (TypeError
otherwise); element (i, j) lives in cell (i mod nrows) + (j mod ncols)*nrows; reads return exactly the addressed
cells in index order; assignments write exactly the addressed cells (later writes win) and nothing else; every buffer
access is in bounds.  CPython API functions are contract stubs (type tests by object kind, PyLong_AsLong = the value,
PySlice_GetIndicesEx = any legal triple, Matrix_NewFromSequence = an index matrix with arbitrary entries)."""
import os, sys, json, time, tempfile, shutil, subprocess, re, re
import z3

MAXLEN = 2          # entries of an index list / slice length
FLAG_LONG, FLAG_LIST, FLAG_TUPLE = 1 << 24, 1 << 25, 1 << 26

class Obj(object):
    def __init__(self, name, kind, **kw):
        self.name, self.kind = name, kind
        self.__dict__.update(kw)

class IndexScenario(object):
    """objects: 'int' (value), 'slice' (start, step, lgt), 'imat' (len, entries array), 'list' (converted to an imat),
    'float' (value), 'dmat' (nrows, ncols, array), 'tuple' (items), 'self' (the indexed matrix)"""
    def __init__(self, mod):
        self.mod = mod; self.pre = []; self.arrays = {}; self.objs = {}
        mt = mod.structs['%struct.matrix']
        self.mo = [mod.field_offset(mt, k) for k in range(8)]
        self.nnew = 0
        self.new_mats = []
        self.results = []
    def array(self, name, kind, length):
        srt = z3.RealSort() if kind == 'real' else z3.IntSort()
        self.arrays[name] = {'esz': 8, 'kind': kind, 'len': length, 'init': z3.Array('mem_' + name, z3.IntSort(), srt)}
    def add(self, o):
        self.objs[o.name] = o
        from vp.llsym.exec import Ptr
        return Ptr('obj:' + o.name, 0)
    def mk_self(self, nrows, ncols):
        self.array('self', 'real', nrows*ncols)
        return self.add(Obj('self', 'dmat', nrows=nrows, ncols=ncols, arr='self', id=1))
    def mk_int(self, name):
        v = z3.Int(name + '_v'); self.pre += [v >= -8, v <= 8]
        return self.add(Obj(name, 'int', value=v))
    def mk_slice(self, name):
        st, sp, lg = z3.Int(name + '_start'), z3.Int(name + '_step'), z3.Int(name + '_lgt')
        self.pre += [lg >= 0, lg <= MAXLEN, sp != 0, sp >= -3, sp <= 3, st >= -1, st <= 3]
        return self.add(Obj(name, 'slice', start=st, step=sp, lgt=lg))
    def mk_imat(self, name, kind='imat'):
        ln = z3.Int(name + '_len'); self.pre += [ln >= 0, ln <= MAXLEN]
        self.array(name, 'int', ln)
        a = self.arrays[name]['init']
        for k in range(MAXLEN): self.pre += [z3.Select(a, k) >= -8, z3.Select(a, k) <= 8]
        if kind == 'imat' and not name.endswith('_conv'):
            # an index matrix given by the caller may have any shape: column (len x 1) or row (1 x len), chosen by the solver
            rv = z3.Int(name + '_rowvec'); self.pre += [rv >= 0, rv <= 1]
            return self.add(Obj(name, kind, nrows=z3.If(rv == 1, z3.IntVal(1), ln), ncols=z3.If(rv == 1, ln, z3.IntVal(1)), arr=name, id=0))
        return self.add(Obj(name, kind, nrows=ln, ncols=z3.IntVal(1), arr=name, id=0))
    def mk_float(self, name):
        return self.add(Obj(name, 'float', value=z3.Real(name + '_v')))
    def mk_dmat(self, name):
        nr, nc = z3.Int(name + '_nrows'), z3.Int(name + '_ncols')
        self.pre += [nr >= 0, nc >= 0, nr <= MAXLEN, nc <= MAXLEN]
        self.array(name, 'real', nr*nc)
        return self.add(Obj(name, 'dmat', nrows=nr, ncols=nc, arr=name, id=1))
    def mk_tuple(self, name, items):
        return self.add(Obj(name, 'tuple', items=items))
    # ---- executor interface
    def obj_of(self, p):
        from vp.llsym.exec import Ptr, Unsupported
        if isinstance(p, Ptr) and str(p.region).startswith('obj:') and p.region[4:] in self.objs: return self.objs[p.region[4:]]
        return None
    def initial_value(self, ex, st, region, off, ty):
        from vp.llsym.exec import Ptr
        if region.startswith('obj:'):
            o = self.objs.get(region[4:])
            if o is None: return None
            if off == 0:            # reference count: neither immortal nor about to be deallocated
                r = ex.fresh('refcnt'); ex.assume(st, r >= 2); ex.assume(st, r < 2**20); return r
            if o.kind == 'tuple' and off >= 24 and (off - 24) % 8 == 0 and (off - 24)//8 < len(o.items): return o.items[(off - 24)//8]
            if o.kind in ('dmat', 'imat'):
                mo = self.mo
                if off == mo[1]: return Ptr('arr:' + o.arr, 0)
                if off == mo[2]: return o.nrows
                if off == mo[3]: return o.ncols
                if off == mo[4]: return o.id
            return None
        return None
    def external_load(self, ex, st, region, off, ty):
        from vp.llsym.exec import is_conc, Unsupported, Ptr
        g = region[3:]
        if g in ('write_num', 'convert_num', 'num2PyObject'):
            if not is_conc(off): raise Unsupported('symbolic index into table %s' % g)
            return Ptr('fn:%s#%d' % (g, off//8), 0)
        if g == 'E_SIZE':
            if not is_conc(off): raise Unsupported('symbolic index into E_SIZE')
            return [8, 8, 16][off//4]
        raise Unsupported('load from external global %s' % g)
    def call(self, ex, st, name, args, rt):
        from vp.llsym.exec import Ptr, NULL, Unsupported, Event, is_conc, T
        vals = [v for _, v in args]
        if name.startswith('llvm.'): return None
        o = self.obj_of(vals[0]) if vals else None
        if name == 'Py_TYPE':
            if o is None: raise Unsupported('Py_TYPE of %r' % (vals[0],))
            return Ptr('type:' + o.kind, 0)
        if name == 'PyType_HasFeature':
            k = vals[0].region[5:]
            return 1 if {FLAG_LONG: 'int', FLAG_LIST: 'list', FLAG_TUPLE: 'tuple'}.get(vals[1]) == k else 0
        if name in ('PyObject_TypeCheck', 'Py_IS_TYPE'):
            tp = vals[1].region[3:] if isinstance(vals[1], Ptr) and str(vals[1].region).startswith('g:@') else None
            if o is None: raise Unsupported('%s of %r' % (name, vals[0]))
            want = {'matrix_tp': ('dmat', 'imat'), 'spmatrix_tp': (), 'PySlice_Type': ('slice',), 'PyFloat_Type': ('float',), 'PyComplex_Type': (), 'PyBool_Type': ()}.get(tp)
            if want is None: raise Unsupported('type test against %s' % tp)
            return 1 if o.kind in want else 0
        if name == 'PyObject_CheckBuffer': return 0
        if name == 'PyTuple_Size': return len(o.items) if (o is not None and o.kind == 'tuple') else -1
        if name == 'PyLong_AsLong':
            if o is None or o.kind != 'int': raise Unsupported('PyLong_AsLong on %r' % (vals[0],))
            return o.value
        if name == 'PySlice_GetIndicesEx':
            # contract: any (start, stop, step, length) CPython may return for this length: every selected index is in [0, dim)
            if o is None or o.kind != 'slice': raise Unsupported('slice contract on %r' % (vals[0],))
            dim = vals[1]
            for k in range(MAXLEN):
                ex.assume(st, z3.Implies(k < o.lgt, z3.And(o.start + k*o.step >= 0, o.start + k*o.step < dim)))
            i64 = T('int', bits=64)
            ex.store(st, i64, o.start, vals[2]); ex.store(st, i64, ex.fresh('stop'), vals[3]); ex.store(st, i64, o.step, vals[4]); ex.store(st, i64, o.lgt, vals[5])
            return 0
        if name == 'PySlice_Unpack':
            if o is None or o.kind != 'slice': raise Unsupported('slice contract on %r' % (vals[0],))
            i64 = T('int', bits=64)
            ex.store(st, i64, ex.fresh('rawstart'), vals[1]); ex.store(st, i64, ex.fresh('rawstop'), vals[2]); ex.store(st, i64, o.step, vals[3])
            self.slice_of = getattr(self, 'slice_of', {}); self.slice_of[(vals[1].region, vals[1].off)] = o
            return 0
        if name == 'PySlice_AdjustIndices':
            # contract: any (start, length) CPython may compute for this dimension and step: every selected index lies in [0, dim)
            dim, sp_, ep_, step = vals
            so = getattr(self, 'slice_of', {}).get((sp_.region, sp_.off))
            if so is None: raise Unsupported('PySlice_AdjustIndices without PySlice_Unpack')
            for k in range(MAXLEN):
                ex.assume(st, z3.Implies(k < so.lgt, z3.And(so.start + k*so.step >= 0, so.start + k*so.step < dim)))
            i64 = T('int', bits=64)
            ex.store(st, i64, so.start, sp_); ex.store(st, i64, ex.fresh('stop'), ep_)
            return so.lgt
        if name == 'PyArg_ParseTuple':
            if o is None or o.kind != 'tuple' or len(o.items) != 2: return 0
            ptr_t = T('ptr', to=T('int', bits=8))
            ex.store(st, ptr_t, o.items[0], vals[2]); ex.store(st, ptr_t, o.items[1], vals[3])
            return 1
        if name in ('PyErr_SetString', 'PyErr_Format'):
            exc = vals[0].region[4:] if isinstance(vals[0], Ptr) and str(vals[0].region).startswith('exc:') else str(vals[0])
            st.exc = (exc, ''); return None
        if name == 'Matrix_New':
            nr, nc, id_ = vals
            self.nnew += 1; nm = 'new%d' % self.nnew
            kind = 'int' if (is_conc(id_) and id_ == 0) else 'real'
            if not is_conc(id_): raise Unsupported('Matrix_New with symbolic id')
            self.array(nm, kind, nr*nc)
            ob = Obj(nm, 'imat' if kind == 'int' else 'dmat', nrows=nr, ncols=nc, arr=nm, id=id_)
            self.objs[nm] = ob; self.new_mats.append(nm)
            st.events.append(Event('Matrix_New', [nm, nr, nc, id_]))
            return Ptr('obj:' + nm, 0)
        if name == 'Matrix_NewFromSequence':
            # list -> integer matrix (conversion trusted): the list object carries its converted form
            if o is None or o.kind != 'list': raise Unsupported('Matrix_NewFromSequence on %r' % (vals[0],))
            return Ptr('obj:' + o.conv, 0)
        if name.startswith('write_num#'):
            dest, i, src, j = vals
            # generic element copy dest[i] = src[j]  (src may be a local `number`)
            if isinstance(src, Ptr) and str(src.region).startswith('arr:'):
                v = ex.load(st, T('double'), Ptr(src.region, src.off + 8*j))
            else:
                v = ex.load(st, T('double'), Ptr(src.region, src.off))
                if not (is_conc(j) and j == 0): raise Unsupported('write_num from a scalar with offset')
            ex.store(st, T('double'), v, Ptr(dest.region, dest.off + 8*i)); return None
        if name.startswith('convert_num#'):
            dest, val, scalar, off = vals
            vo = self.obj_of(val)
            if vo is None: raise Unsupported('convert_num of %r' % (val,))
            if vo.kind == 'float': v = vo.value
            elif vo.kind == 'int': v = z3.ToReal(vo.value)
            elif vo.kind == 'dmat': v = ex.load(st, T('double'), Ptr('arr:' + vo.arr, 8*off))
            else: raise Unsupported('convert_num of a %s' % vo.kind)
            ex.store(st, T('double'), v, dest); return 0
        if name.startswith('num2PyObject#'):
            buf, idx = vals
            v = ex.load(st, T('double'), Ptr(buf.region, buf.off + 8*idx))
            self.results.append(v); st.events.append(Event('number', [v, idx]))
            return Ptr('obj:scalar_result', 0)
        if name == 'get_id':
            vo = self.obj_of(vals[0])
            if vo is None: raise Unsupported('get_id of %r' % (vals[0],))
            return {'int': 0, 'float': 1, 'dmat': 1, 'imat': 0}[vo.kind]
        if name in ('_Py_Dealloc', 'Py_DecRef', 'Py_IncRef', 'free', 'Py_XDECREF', 'Py_DECREF', 'Py_INCREF', 'Py_XINCREF'): return None      # reference counting is outside the claim
        raise Unsupported('call to %s' % name)

# ------------------------------------------------------------------------------------------ reference semantics

def norm(i, dim): return z3.If(i < 0, i + dim, i)
def in_range(i, dim): return z3.And(i >= -dim, i < dim)

def index_list(sc, ptr):
    """(length term, [entry terms], validity of all entries for a dimension -> function(dim)) of an index argument"""
    o = sc.obj_of(ptr)
    if o.kind == 'int': return z3.IntVal(1), [o.value] + [z3.IntVal(0)]*(MAXLEN - 1), 'int'
    if o.kind == 'slice': return o.lgt, [o.start + k*o.step for k in range(MAXLEN)], 'slice'
    if o.kind == 'imat':
        a = sc.arrays[o.arr]['init']; return o.nrows*o.ncols, [z3.Select(a, k) for k in range(MAXLEN)], 'imat'
    if o.kind == 'list':
        c = sc.objs[o.conv]; a = sc.arrays[c.arr]['init']; return c.nrows*c.ncols, [z3.Select(a, k) for k in range(MAXLEN)], 'imat'
    raise KeyError(o.kind)

# ------------------------------------------------------------------------------------------ job

KINDS_IDX = ('int', 'slice', 'imat', 'list')

def mk_index(sc, name, kind):
    if kind == 'int': return sc.mk_int(name)
    if kind == 'slice': return sc.mk_slice(name)
    if kind == 'imat': return sc.mk_imat(name)
    if kind == 'list':
        sc.mk_imat(name + '_conv'); sc.objs[name + '_conv'].kind = 'imat'
        return sc.add(Obj(name, 'list', conv=name + '_conv'))
    raise KeyError(kind)

def job_size(cfg, mod):
    """A.size = (m, n): accepted iff 0 <= m, n < 2^31 and m*n equals the number of elements (as Python integers); then the shape is (m, n)"""
    from vp.llsym import exec as X
    t0 = time.time()
    res = {'variant': cfg['variant'], 'paths': 0, 'kinds': {}, 'obl': {'total': 0, 'unsat': 0, 'sat': 0, 'unknown': 0}, 'solver_s': 0.0, 'findings': [], 'unsupported': [], 'sample': None}
    tmo = cfg.get('timeout_ms', 20000)
    sc = IndexScenario(mod)
    nrows, ncols = z3.Int('nrows'), z3.Int('ncols')
    sc.pre += [nrows >= 0, ncols >= 0, nrows < 2**31, ncols < 2**31, nrows*ncols < 2**31]
    selfp = sc.mk_self(nrows, ncols)
    mv, nv = z3.Int('m_v'), z3.Int('n_v')
    sc.pre += [mv >= -2**63, mv < 2**63, nv >= -2**63, nv < 2**63]
    M = sc.add(Obj('M', 'int', value=mv)); N = sc.add(Obj('N', 'int', value=nv))
    tup = sc.mk_tuple('value', [M, N])
    ex = X.Executor(mod, sc, max_paths=200, loop_bound=3, branch_timeout_ms=3000)       # machine integers with wrap-around (truncation of the long values matters here)
    st = X.State()
    for f in sc.pre: ex.assume(st, f)
    ex.run('matrix_set_size', [selfp, tup, X.NULL], st)
    def query(fs):
        t1 = time.time(); s = z3.Solver(); s.set('timeout', tmo)
        for f in fs: s.add(f)
        r = s.check(); res['solver_s'] += time.time() - t1
        v = str(r); res['obl']['total'] += 1; res['obl'][v if v in ('sat', 'unsat') else 'unknown'] += 1
        return v, (s.model() if r == z3.sat else None)
    def finding(key, text, m): res['findings'].append({'key': key, 'text': text, 'model': {str(n): str(m.eval(n, model_completion=True)) for n in (nrows, ncols, mv, nv)} if m is not None else {}, 'variant': cfg['variant']})
    acceptable = z3.And(mv >= 0, nv >= 0, mv < 2**31, nv < 2**31, mv*nv == nrows*ncols)      # dimensions are C ints
    mo = sc.mo
    for p in ex.paths:
        res['paths'] += 1; res['kinds'][p['kind']] = res['kinds'].get(p['kind'], 0) + 1
        if p['kind'] == 'infeasible': continue
        if p['kind'] != 'return': res['unsupported'].append('%s: %s' % (p['kind'], str(p['why'])[:220])); continue
        new_r = p['mem'].get(('obj:self', mo[2]), nrows); new_c = p['mem'].get(('obj:self', mo[3]), ncols)
        if X.is_conc(p['ret']) and p['ret'] == 0:
            small = [nrows <= 8, ncols <= 8, mv <= 2**33, nv <= 2**33]         # prefer an instance that is cheap to replay
            for label, f in (('a size with m*n different from the number of elements (or a negative dimension) is accepted', acceptable),
                             ('after the assignment the shape is (m, n)', z3.And(new_r == mv, new_c == nv))):
                r, m = query(p['pc'] + [z3.Not(f)])
                if r == 'sat':
                    r2, m2 = query(p['pc'] + [z3.Not(f)] + small)
                    finding('size:accepts-wrong-size', label, m2 if r2 == 'sat' else m); break
                elif r != 'unsat': res['unsupported'].append('undecided: ' + label)
        else:
            for label, f in (('a rejected size raises', z3.BoolVal(p['exc'] is not None)), ('a rejected size leaves the shape unchanged', z3.And(new_r == nrows, new_c == ncols)),
                             ('a size with m, n >= 0 and m*n = number of elements is accepted', z3.Not(acceptable))):
                r, m = query(p['pc'] + [z3.Not(f)])
                if r == 'sat': finding('size:' + '-'.join(label.split(' ')[:3]), label, m); break
                elif r != 'unsat': res['unsupported'].append('undecided: ' + label)
        if res['sample'] is None: res['sample'] = {'function': 'matrix_set_size', 'path_condition_size': len(p['pc'])}
    res['wall'] = round(time.time() - t0, 1)
    return res

def job(cfg):
    from vp.llsym import ir, exec as X
    t0 = time.time()
    mod = ir.Module(open(cfg['ll']).read())
    if cfg['variant'][0] == 'size': return job_size(cfg, mod)
    op, ki, kj, kv = cfg['variant']            # 'get'/'set', kind of I, kind of J or None (single argument), kind of the value
    res = {'variant': cfg['variant'], 'paths': 0, 'kinds': {}, 'obl': {'total': 0, 'unsat': 0, 'sat': 0, 'unknown': 0}, 'solver_s': 0.0, 'findings': [], 'unsupported': [], 'sample': None}
    tmo = cfg.get('timeout_ms', 20000)
    sc = IndexScenario(mod)
    nrows, ncols = z3.Int('nrows'), z3.Int('ncols')
    sc.pre += [nrows >= 0, ncols >= 0, nrows <= 3, ncols <= 3]
    selfp = sc.mk_self(nrows, ncols)
    I = mk_index(sc, 'I', ki)
    if kj is not None:
        J = mk_index(sc, 'J', kj); args = sc.mk_tuple('args', [I, J])
    else: J = None; args = I
    val = None
    if op == 'set': val = sc.mk_float('val') if kv == 'float' else sc.mk_dmat('val')
    ex = X.Executor(mod, sc, max_paths=4000, loop_bound=8, branch_timeout_ms=3000); ex.math_ints = True; ex.inline = {'create_indexlist'}
    st = X.State()
    for f in sc.pre: ex.assume(st, f)
    fname = 'matrix_subscr' if op == 'get' else 'matrix_ass_subscr'
    try: ex.run(fname, [selfp, args] + ([val] if op == 'set' else []), st)
    except X.PathEnd: res['unsupported'].append('path budget exhausted')
    def query(fs):
        t1 = time.time(); s = z3.Solver(); s.set('timeout', tmo)
        for f in fs: s.add(f)
        r = s.check(); res['solver_s'] += time.time() - t1
        v = str(r); res['obl']['total'] += 1; res['obl'][v if v in ('sat', 'unsat') else 'unknown'] += 1
        return v, (s.model() if r == z3.sat else None)
    names = [nrows, ncols] + [z3.Int(n) for n in ('I_v', 'J_v', 'I_start', 'I_step', 'I_lgt', 'J_start', 'J_step', 'J_lgt', 'I_len', 'J_len', 'I_conv_len', 'J_conv_len', 'val_nrows', 'val_ncols', 'I_rowvec', 'J_rowvec')]
    def render(m):
        d = {str(n): str(m.eval(n, model_completion=True)) for n in names}
        for an in ('I', 'J', 'I_conv', 'J_conv'):
            if an in sc.arrays: d[an + '_entries'] = [str(m.eval(z3.Select(sc.arrays[an]['init'], k), model_completion=True)) for k in range(MAXLEN)]
        return d
    def finding(key, text, m): res['findings'].append({'key': key, 'text': text, 'model': render(m) if m is not None else {}, 'variant': cfg['variant']})
    # ---- reference
    lenI, entI, _ = index_list(sc, I)
    if J is not None:
        lenJ, entJ, _ = index_list(sc, J)
        dimI, dimJ = nrows, ncols
    else:
        lenJ, entJ = z3.IntVal(1), [z3.IntVal(0)]*MAXLEN
        dimI, dimJ = nrows*ncols, z3.IntVal(1)
    okI = z3.And(*[z3.Implies(k < lenI, in_range(entI[k], dimI)) for k in range(MAXLEN)])
    okJ = z3.And(*[z3.Implies(k < lenJ, in_range(entJ[k], dimJ)) for k in range(MAXLEN)]) if J is not None else z3.BoolVal(True)
    def cell(a, b):
        if J is not None: return norm(entI[a], nrows) + norm(entJ[b], ncols)*nrows
        return norm(entI[a], nrows*ncols)
    S0 = sc.arrays['self']['init']
    shape_ok = z3.BoolVal(True)
    if op == 'set' and kv == 'dmat':
        vo = sc.objs['val']
        if J is not None: shape_ok = z3.Or(vo.nrows*vo.ncols == 1, z3.And(vo.nrows == lenI, vo.ncols == lenJ))
        else: shape_ok = z3.Or(vo.nrows*vo.ncols == 1, z3.And(vo.nrows*vo.ncols == lenI, vo.ncols <= 1))
    for p in ex.paths:
        res['paths'] += 1; res['kinds'][p['kind']] = res['kinds'].get(p['kind'], 0) + 1
        if p['kind'] == 'infeasible': continue
        if p['kind'] != 'return': res['unsupported'].append('%s: %s' % (p['kind'], str(p['why'])[:220])); continue
        ret = p['ret']
        failed = (isinstance(ret, X.Ptr) and ret.region is None) if op == 'get' else (X.is_conc(ret) and ret == -1)
        # memory safety of every array access on the path
        bad = []
        for a in p['acc']:
            ln = sc.arrays[a[0]]['len']; g = a[4] if len(a) > 4 else z3.BoolVal(True)
            bad.append(z3.And(g, z3.Or(a[1] < 0, a[1] >= ln)))
        if bad:
            r, m = query(p['pc'] + [z3.Or(*bad)])
            if r == 'sat': finding('index:out-of-bounds', 'a buffer access outside its matrix', m)
            elif r != 'unsat': res['unsupported'].append('memory obligation undecided')
        if p['ovf']:
            r, m = query(p['pc'] + [z3.Or(*p['ovf'])])
            if r == 'sat': finding('index:int-overflow', 'C integer overflow within the bounds', m)
        if failed:
            exc = p['exc'][0] if p['exc'] else None
            if exc is None: finding('index:null-without-exception', 'failure without an exception', None); continue
            if 'IndexError' in exc: cond, label = z3.Not(z3.And(okI, okJ)), 'IndexError only for an index outside [-dim, dim)'
            elif 'TypeError' in exc: cond, label = z3.Not(shape_ok), 'TypeError only for a right-hand side of the wrong size'
            else: cond, label = z3.BoolVal(False), 'unexpected exception %s' % exc
            r, m = query(p['pc'] + [z3.Not(cond)])
            if r == 'sat': finding('index:spurious-' + exc.replace('PyExc_', ''), label, m)
            elif r != 'unsat': res['unsupported'].append('undecided: ' + label)
            # a failed assignment leaves the matrix unchanged
            if op == 'set' and ('arr', 'self') in p['mem']:
                Sf = p['mem'][('arr', 'self')]
                for c in range(9):
                    r, m = query(p['pc'] + [c < nrows*ncols, z3.Select(Sf, c) != z3.Select(S0, c)])
                    if r == 'sat': finding('index:partial-write', 'a rejected assignment has already modified the matrix', m); break
            continue
        # success: must have been acceptable
        r, m = query(p['pc'] + [z3.Not(z3.And(okI, okJ, shape_ok))])
        if r == 'sat': finding('index:accepts-invalid', 'an index outside [-dim, dim) or a wrong-size right-hand side is accepted', m); continue
        elif r != 'unsat': res['unsupported'].append('undecided: acceptance')
        if op == 'get':
            both_int = ki == 'int' and (kj == 'int' or kj is None)
            if both_int:
                evs = [e for e in p['events'] if e.name == 'number']
                if len(evs) != 1: finding('index:result', 'no scalar result', None); continue
                r, m = query(p['pc'] + [evs[0].args[0] != z3.Select(S0, cell(0, 0))])
                if r == 'sat': finding('index:get-value', 'A[i,j] is not the element in cell (i mod nrows) + (j mod ncols)*nrows', m)
            else:
                if not (isinstance(ret, X.Ptr) and str(ret.region).startswith('obj:new')): finding('index:result', 'result is not a new matrix', None); continue
                ro = sc.objs[ret.region[4:]]
                Rf = p['mem'].get(('arr', ro.arr), sc.arrays[ro.arr]['init'])
                want_shape = z3.And(ro.nrows == lenI, ro.ncols == lenJ) if J is not None else z3.And(ro.nrows == lenI, ro.ncols == 1)
                r, m = query(p['pc'] + [z3.Not(want_shape)])
                if r == 'sat': finding('index:get-shape', 'shape of the result is not (len I, len J)', m); continue
                for a in range(MAXLEN):
                    for b in range(MAXLEN if J is not None else 1):
                        r, m = query(p['pc'] + [a < lenI, b < lenJ, z3.Select(Rf, a + b*lenI) != z3.Select(S0, cell(a, b))])
                        if r == 'sat': finding('index:get-value', 'result[%d,%d] is not A[I[%d], J[%d]]' % (a, b, a, b), m); break
                if ('arr', 'self') in p['mem']: finding('index:get-writes', 'indexing writes into the matrix', None)
        else:
            Sf = p['mem'].get(('arr', 'self'), S0)
            vo = sc.objs['val']
            def v_of(a, b):
                if vo.kind == 'float': return vo.value
                V = sc.arrays['val']['init']
                return z3.If(vo.nrows*vo.ncols == 1, z3.Select(V, 0), z3.Select(V, a + b*lenI))
            # sequential semantics: column index outer, row index inner; later writes win
            for c in range(9):
                want = z3.Select(S0, c)
                for b in range(MAXLEN if J is not None else 1):
                    for a in range(MAXLEN):
                        want = z3.If(z3.And(a < lenI, b < lenJ, cell(a, b) == c), v_of(a, b), want)
                r, m = query(p['pc'] + [c < nrows*ncols, z3.Select(Sf, c) != want])
                if r == 'sat': finding('index:set-value', 'after the assignment cell %d does not hold the value the index expression addresses to it' % c, m); break
                elif r != 'unsat': res['unsupported'].append('undecided: cell %d' % c)
        if res['sample'] is None: res['sample'] = {'function': fname, 'variant': list(cfg['variant']), 'path_condition_size': len(p['pc']), 'accesses': len(p['acc'])}
    res['wall'] = round(time.time() - t0, 1)
    return res

# ------------------------------------------------------------------------------------------ replay on the real build

REPLAY_PROG = r'''
import sys, json
from cvxopt import matrix
d = json.loads(sys.argv[1]); var = d['variant']; m = d['model']
if var[0] == 'size':
    nr, nc, mv, nv = int(m['nrows']), int(m['ncols']), int(m['m_v']), int(m['n_v'])
    A = matrix(0.0, (nr, nc))
    try: A.size = (mv, nv); got = ('ok', tuple(A.size))
    except Exception as e: got = (type(e).__name__, tuple(A.size))
    want = ('ok', (mv, nv)) if (0 <= mv < 2**31 and 0 <= nv < 2**31 and mv*nv == nr*nc) else ('TypeError', (nr, nc))
    out = {'bad': [], 'call': 'A = matrix(0.0, (%d, %d)); A.size = (%d, %d)' % (nr, nc, mv, nv)}
    if got != want: out['bad'].append('%s gives %r, the reference model gives %r' % (out['call'], got, want))
    print('RESULT ' + json.dumps(out)); sys.exit(0)
op, ki, kj, kv = var
nr, nc = int(m['nrows']), int(m['ncols'])
vals = [float(10*k + 1) for k in range(nr*nc)]
A = matrix(vals, (nr, nc), 'd') if nr*nc else matrix(0.0, (nr, nc))
def mk(pref, kind, dim):
    """(python index object, list of raw indices) for the model"""
    if kind == 'int': return int(m[pref + '_v']), [int(m[pref + '_v'])], True
    if kind == 'slice':
        st, sp, lg = int(m[pref + '_start']), int(m[pref + '_step']), int(m[pref + '_lgt'])
        idx = [st + k*sp for k in range(lg)]
        if lg == 0: return slice(0, 0, 1), [], False
        if sp > 0: return slice(st, idx[-1] + 1, sp), idx, False
        stop = idx[-1] - 1
        return slice(st, stop if stop >= 0 else None, sp), idx, False
    key = pref if kind == 'imat' else pref + '_conv'
    n = int(m[key + '_len']); ent = [int(t) for t in m[key + '_entries']][:n]
    if kind == 'imat':
        row = str(m.get(pref + '_rowvec', '0')) == '1'
        return (matrix(ent, (1, n) if row else (n, 1), 'i') if n else matrix(0, (1, 0) if row else (0, 1), 'i')), ent, False
    return ent, ent, False
def check(idx, dim):
    for i in idx:
        if not (-dim <= i < dim): return False
    return True
def norm(i, dim): return i + dim if i < 0 else i
out = {'bad': []}
if kj is None:
    I, li, scal = mk('I', ki, nr*nc); key = I; lj = [0]; two = False
else:
    I, li, s1 = mk('I', ki, nr); J, lj, s2 = mk('J', kj, nc); key = (I, J); scal = s1 and s2; two = True
valid = (check(li, nr) and check(lj, nc)) if two else check(li, nr*nc)
cells = [[(norm(i, nr) + norm(j, nc)*nr) if two else norm(i, nr*nc) for i in li] for j in lj] if valid else None
desc = 'A = matrix(%r, (%d, %d)); ' % (vals, nr, nc)
if op == 'get':
    desc += 'A[%r]' % (key,)
    try: R = A[key]; got = ('ok', R if isinstance(R, float) else (R.size, list(R)))
    except Exception as e: got = (type(e).__name__, None)
    if not valid: want = ('IndexError', None)
    elif scal: want = ('ok', vals[cells[0][0]])
    else: want = ('ok', ((len(li), len(lj) if two else 1), [vals[c] for col in cells for c in col]))
else:
    if kv == 'float': V = 2.5; vshape = None
    else:
        vr, vc = int(m['val_nrows']), int(m['val_ncols'])
        V = matrix([float(-(k + 1)) for k in range(vr*vc)], (vr, vc), 'd') if vr*vc else matrix(0.0, (vr, vc)); vshape = (vr, vc)
    desc += 'A[%r] = %s' % (key, 'matrix(%r, %r)' % (list(V), V.size) if vshape else V)
    before = list(A)
    try: A[key] = V; got = ('ok', list(A))
    except Exception as e: got = (type(e).__name__, list(A))
    if not valid: want = ('IndexError', before)
    else:
        bcast = vshape is None or vshape[0]*vshape[1] == 1
        okshape = bcast or ((vshape == (len(li), len(lj))) if two else (vshape[0]*vshape[1] == len(li) and vshape[1] <= 1))
        if not okshape: want = ('TypeError', before)
        else:
            exp = list(before); k = 0
            for col in cells:
                for c in col:
                    exp[c] = (V if vshape is None else V[0]) if bcast else V[k]
                    k += 1
            want = ('ok', exp)
if got != want: out['bad'].append('%s gives %r, the column-major reference model gives %r' % (desc, got, want))
out['call'] = desc
print('RESULT ' + json.dumps(out))
'''

def replay_model(variant, model, timeout=120):
    import subprocess
    from vp import common
    ov = common.overlay()
    env = dict(os.environ); env['PYTHONPATH'] = ov
    try: r = subprocess.run([common.VENV_PY, '-c', REPLAY_PROG, json.dumps({'variant': variant, 'model': model})], capture_output=True, text=True, timeout=timeout, env=env)
    except subprocess.TimeoutExpired: return None, 'replay timed out'
    if r.returncode < 0: return 'the interpreter dies with signal %d' % (-r.returncode), None
    for l in r.stdout.splitlines():
        if l.startswith('RESULT '):
            d = json.loads(l[7:])
            if d['bad']: return d['bad'][0], None
            return None, 'agrees with the reference model on this instance (%s)' % d.get('call')
    return None, 'replay failed: %s' % r.stderr[-300:]

def replay_main(path):
    d = json.load(open(path))
    if d.get('kind') == 'wrappers':
        from vp import common
        prog = 'from vp.xh.c15_props import wrappers_ok\nprint("RESULT", wrappers_ok(%d))\n' % d['code']
        r = common.run_conc(['-c', prog])
        ok = 'RESULT True' in r.stdout
        print('cvxopt.%s: %s' % (d['what'], 'holds' if ok else 'REPRODUCED on the real build: ' + (r.stdout + r.stderr)[-200:]))
        return 0 if ok else 1
    rep, why = replay_model(d['variant'], d['model'])
    if rep: print('REPRODUCED on the real build: %s' % rep); return 1
    print(why); return 0

def variants(tier):
    out = [('size', None, None, None)]
    for ki in KINDS_IDX:
        out.append(('get', ki, None, None))
        for kv in ('float', 'dmat'): out.append(('set', ki, None, kv))
        for kj in KINDS_IDX:
            out.append(('get', ki, kj, None))
            for kv in ('float', 'dmat'): out.append(('set', ki, kj, kv))
    return out

def wrappers_condition(tier, known):
    """CrossHair over the encoded call shape of cvxopt.max/min/mul/div (function x call form x number of operands x scalar
    position): value == elementwise reference, result is a new object, operands unchanged.  'Confirmed over all paths' required."""
    from vp import common
    from vp.checks.c13 import ensure_xh, run_condition
    from vp.xh import c15_props as P
    site = ensure_xh(); ov = common.overlay()
    work = tempfile.mkdtemp(prefix='vp.c15x.', dir='/var/tmp')
    try:
        src = ('from vp.xh.c15_props import wrappers_ok\n'
               'def wrappers(code: int) -> bool:\n    """\n    pre: 0 <= code < %d\n    post: _\n    """\n    return wrappers_ok(code)\n' % P.NCODES)
        pyfile = os.path.join(work, 'c15gen.py'); open(pyfile, 'w').write(src)
        env = dict(os.environ); env['PYTHONPATH'] = os.pathsep.join([ov, site, common.VERIF]); env['OMP_NUM_THREADS'] = '1'
        nm, out, dt = run_condition((pyfile, 'wrappers', 3, 300 if tier == 'quick' else 900, env))
        if 'Confirmed over all paths' in out: return [], [], [], [], 1
        m = re.search(r'error: (.*?) when calling wrappers\((.*?)\)', out)
        if m:
            code = int(re.search(r'-?\d+', m.group(2)).group(0))
            prog = 'from vp.xh.c15_props import wrappers_ok, decode\ntry:\n    print("RESULT", wrappers_ok(%d), decode(%d))\nexcept Exception as e:\n    print("RESULT EXC", type(e).__name__, e)\n' % (code, code)
            r = subprocess.run(['/venv/bin/python', '-c', prog], capture_output=True, text=True, timeout=120, env=env)
            native = [l for l in r.stdout.splitlines() if l.startswith('RESULT')]
            native = native[-1][7:] if native else 'no result ' + r.stderr[-200:]
            f, form, k, sp = P.decode(code)
            what = '%s(%s of %d operand(s)%s)' % (['max', 'min', 'mul', 'div'][f], ['arguments', 'list', 'tuple', 'generator'][form], k, '' if sp < 0 or sp >= k else ', operand %d a scalar' % sp)
            key = 'init:%s:%s' % (['max', 'min', 'mul', 'div'][f], ['args', 'list', 'tuple', 'generator'][form])
            rp = common.write_replay('C15', key, {'property': 'C15', 'kind': 'wrappers', 'code': code, 'what': what, 'native': native})
            if native.startswith('True'): return [], [], ['wrappers(%d): CrossHair counterexample does not reproduce natively' % code], [], 0
            if key in known: return [], [(key, known[key]['what'])], [], [], 0
            return [(key, rp, 'cvxopt.%s returns a wrong value, aliases an operand or modifies one -> %s' % (what, native))], [], [], [], 0
        return [], [], [], ['wrappers: %s' % (out.strip().splitlines() or ['no output'])[-1][:200]], 0
    finally:
        shutil.rmtree(work, True)

def main(tier):
    from vp import common
    from vp.llsym import ir
    pid = 'C15'
    ev = common.Evidence(pid, 'model_checking', tier)
    work = tempfile.mkdtemp(prefix='vp.ir.', dir='/var/tmp')
    try:
        cfile = os.path.join(common.REPO, 'src', 'C', 'dense.c')
        ll = ir.compile_to_ir(cfile, common.REPO, work)
        cfgs = [{'ll': ll, 'variant': v, 'timeout_ms': 20000 if tier == 'quick' else 60000} for v in variants(tier)]
        results = common.run_jobs('vp.checks.c15', 'job', cfgs)
        known = common.known_findings(pid)
        violations, known_hits, herr, inconc = [], [], [], []
        paths = 0; groups = {}
        for r in results:
            if not r['ok']: herr.append('%s: %s' % (r['cfg']['variant'], r['err'])); continue
            res = r['res']; paths += res['paths']
            for key in ('total', 'unsat', 'sat', 'unknown'): ev.obl[key] += res['obl'][key]
            ev.solver_s += res['solver_s']
            if res['sample']: ev.sample(res['sample'], cap=5)
            for u in res['unsupported']: herr.append('%s: %s' % (res['variant'], u))
            for f in res['findings']:
                v = f['variant']
                k = f['key'] if v[0] == 'size' else '%s:%s' % (f['key'], 'two-slices-same-type' if (v[0] == 'set' and v[1] == 'slice' and v[2] == 'slice' and v[3] == 'dmat') else '%s-%s-%s' % (v[0], v[1], v[2]))
                groups.setdefault(k, []).append(f)
        for k in sorted(groups):
            rep = why = rp = None
            for f in groups[k][:6]:
                rp = common.write_replay(pid, k + json.dumps(f['variant']) + json.dumps(f['model'], sort_keys=True)[:80], {'property': pid, 'key': k, 'variant': f['variant'], 'model': f['model'], 'text': f['text']})
                if not f['model']: why = 'no model'; continue
                rep, why = replay_model(f['variant'], f['model'])
                if rep: break
            if rep is None: herr.append('%s: counterexample not reproduced on the real build (%s) %s' % (k, why, rp)); continue
            if k in known: known_hits.append((k, known[k]['what'])); continue
            violations.append((k, rp, '%s -> %s' % (groups[k][0]['text'], rep)))
        # ---- engine X: the Python-level wrappers cvxopt.max / min / mul / div (src/python/__init__.py) on the real build
        try:
            xv, xk, xh, xi, nconf = wrappers_condition(tier, known)
            violations += xv; known_hits += xk; herr += xh; inconc += xi
            ev.obl['total'] += 1; ev.obl['unsat' if nconf else ('sat' if xv else 'unknown')] += 1
        except Exception as e:
            herr.append('wrappers condition: %s: %s' % (type(e).__name__, e))
        ev.cov.update({'states': max(1, paths), 'transitions': max(1, ev.obl['total']), 'traces_validated_against_impl': 0, 'configurations': len(cfgs),
                       'functions_encoded': ['dense.c: matrix_subscr, matrix_ass_subscr, create_indexlist, matrix_set_size', '__init__.py: max, min, mul, div (CrossHair, %d encoded call shapes)' % __import__('vp.xh.c15_props', fromlist=['x']).NCODES], 'source_hash': ir.src_hash(cfile),
                       'bounds': "'d' matrix with nrows, ncols <= 3 (symbolic, zero dimensions included), index kinds int / slice / integer matrix / list in every pairing and single-argument form, index lists and slices of length <= 2 with entries in [-8, 8], right-hand side a float or a 'd' matrix of any shape <= 2 x 2; loops unrolled accordingly"})
        ev.assumptions += ["CPython API functions are contract stubs: type tests by object kind, PyLong_AsLong = the int's value, PySlice_Unpack/AdjustIndices = any (start, step, length) whose selected indices lie in [0, dim), Matrix_NewFromSequence(list) = an integer matrix with arbitrary entries, Matrix_New succeeds",
                           'reference counting (Py_DECREF of temporaries) is not modelled; typecodes i and z, sparse right-hand sides, buffer / sequence right-hand sides and the other operations named in the property (constructors, arithmetic, promotion, in-place operators, iteration, elementwise functions) are not covered']
        return common.finish(ev, violations, sorted(dict(known_hits).items()), herr, inconc)
    finally:
        shutil.rmtree(work, True)
