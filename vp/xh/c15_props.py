"""C15 (Python-level part): cvxopt.max / min / mul / div of /repo/src/python/__init__.py.
One condition, checked by CrossHair on the real build: the symbolic integer `code` encodes
(function, call form, number of operands, which operand is a scalar); for every code the result
equals the elementwise reference on the operands' values, is a NEW object (no operand is returned,
in-place modification of the result leaves every operand unchanged) and the operands are unchanged."""
NF, NFORM, NK, NS = 4, 4, 3, 4          # functions, forms (args / list / tuple / generator), 1..3 operands, scalar position (none, 0, 1, 2)
NCODES = NF*NFORM*NK*NS

def decode(code):
    f = code % NF; code //= NF
    form = code % NFORM; code //= NFORM
    k = code % NK + 1; code //= NK
    sp = code % NS - 1
    return f, form, k, sp

def wrappers_ok(code):
    import cvxopt
    from cvxopt import matrix
    f, form, k, sp = decode(code)
    fn = [cvxopt.max, cvxopt.min, cvxopt.mul, cvxopt.div][f]
    ref = [max, min, lambda a, b: a*b, lambda a, b: a/b][f]
    vals = [[2.0, -3.0, 5.0, 7.0], [4.0, 1.0, -6.0, 0.5], [-1.0, 8.0, 2.5, 3.0]][:k]
    ops = []
    for i in range(k):
        if i == sp: ops.append(vals[i][0])
        else: ops.append(matrix(vals[i], (2, 2)))
    if all(not isinstance(o, matrix) for o in ops): return True      # a single scalar operand: outside (max(2.0) is not a matrix function)
    before = [list(o) if isinstance(o, matrix) else o for o in ops]
    arg = [lambda: fn(*ops), lambda: fn(list(ops)), lambda: fn(tuple(ops)), lambda: fn(o for o in ops)][form]
    if form == 0 and k == 1:
        # max(A) / min(A) with one matrix argument is the documented reduction to a number; mul(A) / div(A) return a copy
        if f in (0, 1):
            r = arg()
            return r == ref(*[[x] for x in [0]]) if False else (r == (max if f == 0 else min)(before[0]))
    r = arg()
    # reference
    exp = None
    for i, o in enumerate(ops):
        v = before[i] if isinstance(o, matrix) else [o]*4
        exp = list(v) if exp is None else [ref(a, b) for a, b in zip(exp, v)]
    if not isinstance(r, matrix): return False
    if list(r) != exp: return False
    if any(r is o for o in ops): return False
    for i in range(len(r)): r[i] = 99.0                      # in-place modification of the result
    after = [list(o) if isinstance(o, matrix) else o for o in ops]
    return after == before
