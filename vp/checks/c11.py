"""C11 - modeling expressions evaluate to what their formula says.

Engine P: the real /repo/src/python/modeling.py runs on the symbolic matrix shim.  Expression
*programs* (short statement sequences generated from the documented grammar) are executed
twice: by the real modeling layer with the variables' values symbolic (z3 reals), and by a
reference evaluator written from doc/source/modeling.rst.  For every program z3 decides
`len(f) == reference length` and `f.value()[i] == reference[i]` for ALL values of the
variables (QF_LRA with ite for max/min/abs); a program the reference rejects (dimension
mismatch / neither convex nor concave) must raise; accepted-as-convex (concave, affine)
results are checked for midpoint convexity (concavity, affinity) on symbolic points; operand
aliasing is exposed by in-place updates of the result inside the program.
Counterexamples are replayed on the real build.
"""
import json, sys, os, itertools, time, re

# ------------------------------------------------------------------------------------------ reference evaluator

class Reject(Exception):
    pass

class Ops(object):
    """number operations: z3 terms or python floats"""
    def __init__(self, sym):
        self.sym = sym
        if sym:
            import z3
            self.z3 = z3
    def const(self, v):
        if self.sym:
            import fractions
            return self.z3.RealVal(str(fractions.Fraction(v)))
        return float(v)
    def mx(self, a, b):
        return self.z3.If(a >= b, a, b) if self.sym else (a if a >= b else b)
    def mn(self, a, b):
        return self.z3.If(a <= b, a, b) if self.sym else (a if a <= b else b)

class Mat(object):
    """constant matrix of the reference world: rows x cols, column-major python floats"""
    def __init__(self, vals, size, sparse=False):
        self.v = [float(e) for e in vals]; self.size = size; self.sparse = sparse
    def col(self):
        return self.size[1] == 1
    # constant arithmetic (column vectors / scalars only; anything else is left to R)
    def __getitem__(self, key):
        if not self.col(): raise Reject('constant matrix indexing')
        if isinstance(key, slice):
            v = self.v[key]; return Mat(v, (len(v), 1))
        return self.v[key]
    def _el(self, o, f):
        if isinstance(o, (int, float)) and not isinstance(o, bool): return Mat([f(a, float(o)) for a in self.v], self.size, self.sparse)
        if isinstance(o, Mat) and o.size == self.size: return Mat([f(a, b) for a, b in zip(self.v, o.v)], self.size)
        return NotImplemented
    def __add__(self, o): return self._el(o, lambda a, b: a + b)
    def __radd__(self, o): return self._el(o, lambda a, b: b + a)
    def __sub__(self, o): return self._el(o, lambda a, b: a - b)
    def __rsub__(self, o): return self._el(o, lambda a, b: b - a)
    def __neg__(self): return Mat([-a for a in self.v], self.size, self.sparse)
    def __mul__(self, o):
        if isinstance(o, (int, float)) and not isinstance(o, bool): return Mat([a*float(o) for a in self.v], self.size, self.sparse)
        return NotImplemented
    def __rmul__(self, o):
        if isinstance(o, (int, float)) and not isinstance(o, bool): return Mat([a*float(o) for a in self.v], self.size, self.sparse)
        return NotImplemented

class R(object):
    """reference value of an expression: list of numbers + curvature"""
    def __init__(self, ops, v, curv='aff', isconst=False):
        self.ops, self.v, self.curv, self.isconst = ops, list(v), curv, isconst
    def __len__(self): return len(self.v)
    # ---- helpers
    @staticmethod
    def lift(ops, o):
        if isinstance(o, R): return o
        if isinstance(o, bool): raise Reject('bool')
        if isinstance(o, (int, float)): return R(ops, [ops.const(o)], 'aff', True)
        if isinstance(o, Mat):
            if not o.col(): raise Reject('constant term must have one column')
            return R(ops, [ops.const(e) for e in o.v], 'aff', True)
        raise Reject('unsupported operand')
    def _bin(self, o, f, curv):
        o = R.lift(self.ops, o)
        la, lb = len(self), len(o)
        if la == lb: pairs = zip(self.v, o.v)
        elif lb == 1: pairs = ((a, o.v[0]) for a in self.v)
        elif la == 1: pairs = ((self.v[0], b) for b in o.v)
        else: raise Reject('incompatible lengths')
        return R(self.ops, [f(a, b) for a, b in pairs], curv, self.isconst and o.isconst)
    @staticmethod
    def _addcurv(a, b):
        if a == 'aff': return b
        if b == 'aff': return a
        if a == b: return a
        raise Reject('neither convex nor concave')
    @staticmethod
    def _flip(c): return {'aff': 'aff', 'cvx': 'ccv', 'ccv': 'cvx'}[c]
    def __pos__(self): return R(self.ops, self.v, self.curv, self.isconst)
    def __neg__(self): return R(self.ops, [-a for a in self.v], R._flip(self.curv), self.isconst)
    def __add__(self, o):
        o = R.lift(self.ops, o); return self._bin(o, lambda a, b: a + b, R._addcurv(self.curv, o.curv))
    __radd__ = __add__
    def __sub__(self, o):
        o = R.lift(self.ops, o); return self._bin(o, lambda a, b: a - b, R._addcurv(self.curv, R._flip(o.curv)))
    def __rsub__(self, o):
        o = R.lift(self.ops, o); return o.__sub__(self)
    def _scal(self, a):
        a = float(a)
        c = self.curv if a >= 0 else R._flip(self.curv)
        return R(self.ops, [self.ops.const(a) * e for e in self.v], c, self.isconst)
    def __mul__(self, o):            # self * o
        if isinstance(o, (int, float)) and not isinstance(o, bool): return self._scal(o)
        if isinstance(o, Mat):
            if o.size == (1, 1): return self._scal(o.v[0])
            if self.curv != 'aff': raise Reject('matrix product with a piecewise-linear function')
            if len(self) == 1 and o.size[1] == 1:
                return R(self.ops, [self.ops.const(e) * self.v[0] for e in o.v], 'aff', self.isconst)
            raise Reject('v * a undefined')
        raise Reject('product of two functions')
    def __rmul__(self, o):           # o * self
        if isinstance(o, (int, float)) and not isinstance(o, bool): return self._scal(o)
        if isinstance(o, Mat):
            if o.size == (1, 1): return self._scal(o.v[0])
            if self.curv != 'aff': raise Reject('matrix product with a piecewise-linear function')
            m, n = o.size
            if n != len(self): raise Reject('a * v: a.size[1] != len(v)')
            out = []
            for i in range(m):
                acc = None
                for j in range(n):
                    t = self.ops.const(o.v[i + j*m]) * self.v[j]
                    acc = t if acc is None else acc + t
                out.append(acc)
            return R(self.ops, out, 'aff', self.isconst)
        raise Reject('product of two functions')
    def __truediv__(self, o):
        if isinstance(o, Mat) and o.size == (1, 1): o = o.v[0]
        if isinstance(o, (int, float)) and not isinstance(o, bool):
            if o == 0: raise Reject('division by zero')
            return self._scal(1.0/float(o)) if False else R(self.ops, [e / self.ops.const(o) for e in self.v],
                                                              self.curv if o > 0 else R._flip(self.curv), self.isconst)
        raise Reject('division by a non-scalar')
    # in-place forms: allowed only if they do not change the length of f; *=, /= only by scalars / 1x1
    def __iadd__(self, o):
        r = self.__add__(o)
        if len(r) != len(self): raise Reject('in-place operation would change the length')
        return r
    def __isub__(self, o):
        r = self.__sub__(o)
        if len(r) != len(self): raise Reject('in-place operation would change the length')
        return r
    def __imul__(self, o):
        if isinstance(o, Mat) and o.size != (1, 1): raise Reject('in-place product with a matrix')
        if isinstance(o, R): raise Reject('product of two functions')
        return self.__mul__(o)
    def __itruediv__(self, o):
        return self.__truediv__(o)
    def __abs__(self):
        if self.curv != 'aff': raise Reject('abs of a piecewise-linear function')
        return R(self.ops, [self.ops.mx(a, -a) for a in self.v], 'cvx', self.isconst)
    def __getitem__(self, key):
        n = len(self)
        if isinstance(key, int):
            if key < -n or key >= n: raise Reject('index out of range')
            return R(self.ops, [self.v[key]], self.curv, self.isconst)
        if isinstance(key, slice): idx = list(range(*key.indices(n)))
        elif isinstance(key, list):
            for k in key:
                if k < -n or k >= n: raise Reject('index out of range')
            idx = [k % n for k in key]
        else: raise Reject('index type')
        if not idx: raise Reject('empty index set')
        return R(self.ops, [self.v[i] for i in idx], self.curv, self.isconst)

def ref_sum(ops):
    def f(e):
        if isinstance(e, Mat): return sum(e.v)
        e = R.lift(ops, e)
        acc = e.v[0]
        for t in e.v[1:]: acc = acc + t
        return R(ops, [acc], e.curv, e.isconst)
    return f

def ref_dot(ops):
    def f(u, v):
        if isinstance(u, R) and isinstance(v, Mat): u, v = v, u
        if not (isinstance(u, Mat) and isinstance(v, R)): raise Reject('dot operands')
        if not u.col() or u.size[0] != len(v) or v.curv != 'aff': raise Reject('dot dimensions')
        acc = None
        for i in range(len(v)):
            t = ops.const(u.v[i]) * v.v[i]; acc = t if acc is None else acc + t
        return R(ops, [acc], 'aff', v.isconst)
    return f

def ref_minmax(ops, ismax):
    bad, good = ('ccv', 'cvx') if ismax else ('cvx', 'ccv')
    op2 = ops.mx if ismax else ops.mn
    def f(*args):
        if not any(isinstance(a, R) for a in args):
            raise Reject('no function argument')          # builtin max/min of constants: not generated
        rs = [R.lift(ops, a) for a in args]
        if len(rs) == 1 and len(rs[0]) == 1:
            return +rs[0]             # documented: max(s) with len(s) = 1 returns s[0]
        for r in rs:
            if r.curv == bad: raise Reject('max of concave / min of convex')
        if len(rs) == 1:
            acc = rs[0].v[0]
            for t in rs[0].v[1:]: acc = op2(acc, t)
            return R(ops, [acc], good, rs[0].isconst)
        n = max(len(r) for r in rs)
        for r in rs:
            if len(r) not in (1, n): raise Reject('incompatible lengths')
        out = []
        for k in range(n):
            acc = None
            for r in rs:
                t = r.v[k] if len(r) == n else r.v[0]
                acc = t if acc is None else op2(acc, t)
            out.append(acc)
        return R(ops, out, good, all(r.isconst for r in rs))
    return f

# ------------------------------------------------------------------------------------------ programs

CONSTS = {
    'b3': ([1.5, -2.0, 4.0], (3, 1), False), 'b1': ([2.5], (1, 1), False), 'r3': ([2.0, -3.0, 5.0], (1, 3), False),
    'A33': ([1.0, 2.0, -1.0, 0.0, 3.0, 7.0, -4.0, 5.0, 11.0], (3, 3), False),
    'A23': ([2.0, -1.0, 3.0, 5.0, 0.0, -7.0], (2, 3), False), 'A31': ([3.0, -2.0, 6.0], (3, 1), False),
    'S33': ([2.0, 0.0, -3.0, 0.0, 0.0, 4.0, 5.0, 0.0, 0.0], (3, 3), True),
    'D33': ([2.0, 0.0, 0.0, 0.0, -3.0, 0.0, 0.0, 0.0, 5.0], (3, 3), True),
}
VARS = {'x': 3, 'y': 1, 'z': 3}

UNARY = ['-{e}', '+{e}', 'abs({e})', 'sum({e})', 'max({e})', 'min({e})', '{e}[0]', '{e}[1:]', '{e}[[2, 0]]', '{e}[-1]',
         '{e}/2.0', '{e}/(-4.0)', '2.0*{e}', '{e}*(-1.5)', 'A33*{e}', 'A23*{e}', 'r3*{e}', 'S33*{e}', 'D33*{e}', 'b1*{e}', '{e}*b1',
         'dot(b3, {e})', '{e}*A31', 'A31*{e}', '{e} + 1.0', '3.0 - {e}', '{e} + b3', 'b3 - {e}', 'max({e}, 0.0)', 'min({e}, b3)', 'max({e}, -{e})']
BINARY = ['{a} + {b}', '{a} - {b}', 'max({a}, {b})', 'min({a}, {b})']

def gen_programs(tier):
    """list of programs; a program = list of statements, the last one assigns RESULT"""
    atoms = list(VARS)
    lvl1 = []
    for a in atoms:
        for u in UNARY: lvl1.append(u.format(e=a))
    for a in atoms:
        for b in atoms:
            for bi in BINARY: lvl1.append(bi.format(a=a, b=b))
    progs = [['RESULT = ' + e] for e in atoms + lvl1]
    # level 2: unary over level 1, binary level1 x (atoms + a few level-1 terms)
    seen = set(lvl1)
    lvl2 = []
    partners = atoms + ['2.0*x', 'A33*x', 'r3*x', 'r3*z', 'abs(x)', 'max(x, z)', 'min(x, z)', 'x[0]', 'sum(x)', 'S33*x', '-y', 'y*A31', 'D33*z']
    for e in lvl1:
        pe = '(%s)' % e
        for u in UNARY:
            lvl2.append(u.format(e=pe))
        for b in partners:
            for bi in BINARY[:2] + ([BINARY[2]] if tier == 'thorough' else []):
                lvl2.append(bi.format(a=pe, b=b)); lvl2.append(bi.format(a=b, b=pe))
    if tier == 'quick':
        # quick: every 3rd level-2 program (deterministic), all level-1; thorough: all
        lvl2 = [e for i, e in enumerate(lvl2) if i % 3 == 0]
    progs += [['RESULT = ' + e] for e in lvl2]
    # in-place forms and aliasing probes
    bases = ['2.0*x', 'x + y', 'A33*x', 'r3*x', 'abs(x)', 'x', 'S33*z', 'A33*x + 1.0', 'y', 'max(x, z)', 'D33*x + z']
    adds = ['y', 'x', 'z', '1.0', 'b3', 'r3*z', 'A33*z', 'abs(z)', 'S33*x', '2.0*y', 'D33*x', 'x[0]']
    for b in bases:
        for a in adds:
            for op in ('+=', '-='):
                progs.append(['f = +(%s)' % b, 'f %s %s' % (op, a), 'RESULT = f'])
        for op, a in (('*=', '3.0'), ('/=', '4.0'), ('*=', '(-2.0)'), ('*=', 'b1')):
            progs.append(['f = +(%s)' % b, 'f %s %s' % (op, a), 'RESULT = f'])
    for g in ['A33*y' if False else 'A33*z', 'r3*z', 'S33*z', '2.0*z', 'z', 'D33*z', 'abs(z)', 'A33*z + b3']:
        for lhs in ['2.0*x + 1.0', 'x', 'y', 'A33*x', 'max(x, 1.0)']:
            for upd in ('h *= 3.0', 'h /= 2.0', 'h += y', 'h -= x', 'h += 1.0'):
                progs.append(['g = %s' % g, 'h = (%s) + g' % lhs, upd, 'RESULT = g'])
                progs.append(['g = %s' % g, 'h = +g', upd, 'RESULT = g'])
                progs.append(['g = %s' % g, 'h = %s' % lhs if False else 'h = (%s) - g' % lhs, upd, 'RESULT = g'])
                progs.append(['g = %s' % g, 'h = +(%s)' % lhs, 'h += g', upd, 'RESULT = g'])
    # dedupe
    out, seenp = [], set()
    for p in progs:
        k = '; '.join(p)
        if k not in seenp: seenp.add(k); out.append(p)
    return out

# ------------------------------------------------------------------------------------------ running a program in both worlds

def ref_namespace(ops, values):
    ns = {nm: R(ops, values[nm], 'aff') for nm in VARS}
    for nm, (vals, size, sp) in CONSTS.items(): ns[nm] = Mat(vals, size, sp)
    ns.update(sum=ref_sum(ops), dot=ref_dot(ops), max=ref_minmax(ops, True), min=ref_minmax(ops, False), abs=abs)
    return ns

def real_namespace(Wd, values):
    """values: name -> list of numbers (SymReal or float)"""
    M = Wd.modeling; matrix = Wd.matrix
    ns = {}
    for nm, n in VARS.items():
        v = M.variable(n, nm); v.value = matrix(list(values[nm]), (n, 1), 'd'); ns[nm] = v
    for nm, (vals, size, sp) in CONSTS.items():
        m = matrix(list(vals), size, 'd')
        if sp:
            if Wd.mode == 'sym':
                m = Wd.spmatrix._from_dense(m, [e != 0.0 for e in vals])
            else:
                from cvxopt import sparse
                m = sparse(m)
        ns[nm] = m
    ns.update(sum=M.sum, dot=M.dot, max=M.max, min=M.min, abs=abs)
    return ns

def run_prog(prog, ns):
    for st in prog: exec(st, {'__builtins__': {}}, ns)
    return ns['RESULT']

def set_values(ns, Wd, values):
    for nm, n in VARS.items():
        ns[nm].value = Wd.matrix(list(values[nm]), (n, 1), 'd')

def curvature_of(f, M):
    if type(f) is M.variable: return 'aff'
    if f._isaffine(): return 'aff'
    if f._isconvex(): return 'cvx'
    if f._isconcave(): return 'ccv'
    return 'none'

# ------------------------------------------------------------------------------------------ symbolic job (a batch of programs)

_WORLD = None
def _world():
    global _WORLD
    if _WORLD is None:
        from vp.pysym import loader, sym
        import types, builtins
        W = loader.load('sym', modules=('misc', 'coneprog', 'cvxprog', 'solvers', 'modeling'))
        # modeling.py evaluates max/min through its `builtins` module reference: merge them into ite terms
        proxy = types.ModuleType('builtins'); proxy.__dict__.update(builtins.__dict__)
        proxy.max = sym.sym_max; proxy.min = sym.sym_min
        W.modeling.builtins = proxy
        # modeling.py recognises python scalars by `type(a) is float`: let symbolic scalars pass that
        # test (module-level `type` shadowing; everything else is the builtin)
        def vp_type(*a):
            if len(a) == 1:
                if isinstance(a[0], sym.SymReal): return float
                if isinstance(a[0], sym.SymInt): return int
            return builtins.type(*a)
        W.modeling.type = vp_type
        _WORLD = W
    return _WORLD

def job(cfg):
    import z3
    from vp.pysym import sym, prove
    Wd = _world()
    M = Wd.modeling
    ops = Ops(True)
    progs = cfg['progs']
    tmo = int(cfg.get('_timeout_ms', 10000))
    res = {'n': 0, 'obl': {'total': 0, 'unsat': 0, 'sat': 0, 'unknown': 0}, 'solver_s': 0.0, 'sat': [], 'unknown': [], 'errors': [],
           'accepted': 0, 'rejected_both': 0, 'sample': None, 'curv_checked': 0}
    def count(v, secs=0.0):
        res['obl']['total'] += 1; res['obl'][v] += 1; res['solver_s'] += secs
    def symvals(tag):
        return {nm: [sym.SymReal(z3.Real('%s%s%d' % (tag, nm, i))) for i in range(n)] for nm, n in VARS.items()}
    for prog in progs:
        res['n'] += 1
        sym.CTX.reset_all(); sym.CTX.start_path([])
        vals = symvals('')
        refvals = {nm: [sym.T(e) for e in v] for nm, v in vals.items()}
        key = '; '.join(prog)
        # reference
        try:
            rr = run_prog(prog, ref_namespace(ops, refvals)); rej = None
            if not isinstance(rr, R): rej = 'reference result is not a function'
        except Reject as e:
            rr, rej = None, str(e)
        except (TypeError, AttributeError, IndexError, ZeroDivisionError) as e:
            rr, rej = None, 'reference: %s' % type(e).__name__
        # real code
        ns = real_namespace(Wd, vals)
        try:
            f = run_prog(prog, ns); exc = None
        except (TypeError, ValueError, IndexError, ZeroDivisionError, AttributeError, NotImplementedError) as e:
            f, exc = None, e
        except Exception as e:
            res['errors'].append('%s: unexpected %s: %s' % (key, type(e).__name__, str(e)[:100])); continue
        if isinstance(exc, NotImplementedError) and str(exc):     # modeling.py's own refusals carry no message
            res['errors'].append('%s: shim does not model: %s' % (key, exc)); continue
        if rej is not None and exc is not None:
            res['rejected_both'] += 1; count('unsat'); continue
        if rej is not None and exc is None:
            # the code accepts something the documentation does not define: not a violation of the
            # statement ("refused where not convex/concave or dimensions do not match") unless the
            # reference rejection is one of those two reasons
            if any(t in rej for t in ('neither convex', 'incompatible lengths', 'max of concave', 'a.size[1]', 'change the length')):
                count('sat'); res['sat'].append({'prog': prog, 'label': 'accepted although the documentation refuses it (%s)' % rej, 'model': {}})
            else:
                res['rejected_both'] += 1
            continue
        if rej is None and exc is not None:
            count('sat'); res['sat'].append({'prog': prog, 'label': 'raises %s: %s although the formula is well defined' % (type(exc).__name__, str(exc)[:60]), 'model': {}})
            continue
        res['accepted'] += 1
        try:
            val = f.value if type(f) is M.variable else f.value()
            n_real = len(f)
        except Exception as e:
            count('sat'); res['sat'].append({'prog': prog, 'label': 'value()/len() raises %s: %s' % (type(e).__name__, str(e)[:60]), 'model': {}}); continue
        pc = list(sym.CTX.pc)
        if n_real != len(rr) or len(val) != len(rr):
            count('sat'); res['sat'].append({'prog': prog, 'label': 'len(f) = %d, value length %d, formula length %d' % (n_real, len(val), len(rr)), 'model': {}}); continue
        goal = z3.And(*[sym.T(val[i]) == rr.v[i] for i in range(len(rr))]) if len(rr) else z3.BoolVal(True)
        r = prove.prove(goal, pc, (), tmo, slice_first=False)
        count(r['verdict'], r['secs'])
        if r['verdict'] == 'sat':
            res['sat'].append({'prog': prog, 'label': 'f.value() differs from the formula', 'model': r['model']})
        elif r['verdict'] == 'unknown': res['unknown'].append(key)
        if res['sample'] is None:
            res['sample'] = {'program': prog, 'length': len(rr), 'smt': z3.Not(goal).sexpr()[:300]}
        # curvature actually claimed by the object
        cv = curvature_of(f, M)
        if cv in ('aff', 'cvx', 'ccv') and len(rr) > 0 and ('max' in key or 'min' in key or 'abs' in key or cfg.get('all_curv')):
            U, V = symvals('u!'), symvals('v!')
            mid = {nm: [sym.SymReal((sym.T(U[nm][i]) + sym.T(V[nm][i]))/2) for i in range(n)] for nm, n in VARS.items()}
            outs = []
            for pt in (U, V, mid):
                ns2 = real_namespace(Wd, pt)
                try:
                    f2 = run_prog(prog, ns2); outs.append([sym.T(e) for e in (f2.value if type(f2) is M.variable else f2.value())])
                except Exception as e:
                    outs = None; break
            if outs is not None:
                fu, fv, fm = outs
                if cv == 'aff': g2 = z3.And(*[fm[i]*2 == fu[i] + fv[i] for i in range(len(fm))])
                elif cv == 'cvx': g2 = z3.And(*[fm[i]*2 <= fu[i] + fv[i] for i in range(len(fm))])
                else: g2 = z3.And(*[fm[i]*2 >= fu[i] + fv[i] for i in range(len(fm))])
                r2 = prove.prove(g2, list(sym.CTX.pc), (), tmo, slice_first=False)
                count(r2['verdict'], r2['secs']); res['curv_checked'] += 1
                if r2['verdict'] == 'sat':
                    res['sat'].append({'prog': prog, 'label': 'object claims to be %s but violates midpoint %s' % (cv, cv), 'model': r2['model']})
                elif r2['verdict'] == 'unknown': res['unknown'].append(key + ' [curvature]')
    return res

# ------------------------------------------------------------------------------------------ concrete replay

def replay(prog, model):
    import fractions
    from vp.pysym import loader
    Wd = loader.load('conc', modules=('modeling',), transform_solvers=False)
    ops = Ops(False)
    def val(name, default):
        v = model.get(name)
        if v is None: return default
        try: return float(fractions.Fraction(v))
        except Exception: return float(v)
    vals = {nm: [val('%s%d' % (nm, i), 1.0 + 0.37*i + 0.11*len(nm)) for i in range(n)] for nm, n in VARS.items()}
    try:
        rr = run_prog(prog, ref_namespace(ops, vals)); rej = None
    except Reject as e:
        rr, rej = None, str(e)
    ns = real_namespace(Wd, vals)
    try:
        f = run_prog(prog, ns); exc = None
    except Exception as e:
        f, exc = None, e
    if rej is not None:
        return {'violated': [] if exc is not None else ['accepted although the documentation refuses it (%s)' % rej]}
    if exc is not None:
        return {'violated': ['raises %s: %s although the formula is well defined' % (type(exc).__name__, str(exc)[:60])]}
    try:
        v = list(f.value if type(f) is Wd.modeling.variable else f.value()); n = len(f)
    except Exception as e:
        return {'violated': ['value()/len() raises %s' % type(e).__name__]}
    if n != len(rr) or len(v) != len(rr):
        return {'violated': ['len(f) = %d, value length %d, formula length %d' % (n, len(v), len(rr))]}
    bad = [i for i in range(len(rr)) if abs(v[i] - rr.v[i]) > 1e-9*(1 + abs(v[i]) + abs(rr.v[i]))]
    if bad:
        return {'violated': ['f.value() differs from the formula'], 'got': v, 'expected': rr.v, 'at': vals}
    # curvature at the recorded points
    cv = curvature_of(f, Wd.modeling)
    if any(k.startswith('u!') for k in model):
        U = {nm: [val('u!%s%d' % (nm, i), 0.0) for i in range(n_)] for nm, n_ in VARS.items()}
        V = {nm: [val('v!%s%d' % (nm, i), 0.0) for i in range(n_)] for nm, n_ in VARS.items()}
        Mi = {nm: [(U[nm][i] + V[nm][i])/2 for i in range(n_)] for nm, n_ in VARS.items()}
        o = []
        for pt in (U, V, Mi):
            f3 = run_prog(prog, real_namespace(Wd, pt))
            o.append(list(f3.value if type(f3) is Wd.modeling.variable else f3.value()))
        for i in range(len(o[0])):
            d = 2*o[2][i] - o[0][i] - o[1][i]
            if (cv == 'cvx' and d > 1e-9) or (cv == 'ccv' and d < -1e-9) or (cv == 'aff' and abs(d) > 1e-9):
                return {'violated': ['object claims to be %s but violates midpoint %s' % (cv, cv)]}
    return {'violated': []}

def replay_on_build(path):
    from vp import common
    r = common.run_conc(['-m', 'vp.checks.c11', '--replay-conc', path])
    if r.returncode != 0: return None, 'replay process failed: ' + r.stderr[-300:]
    try: d = json.loads(r.stdout.strip().splitlines()[-1])
    except Exception: return None, 'unparsable replay output'
    if d.get('violated'): return json.dumps(d)[:300], None
    return None, 'not reproduced'

def replay_main(path):
    rep, why = replay_on_build(path)
    if rep: print('REPRODUCED on the real build: %s' % rep); return 1
    print(why); return 0

def finding_key(prog, label):
    """coarse key: which _addterm / operator shape fails"""
    body = '; '.join(prog)
    return re.sub(r'\s+', ' ', body)[:120] + ' :: ' + label.split(':')[0][:60]

def main(tier):
    from vp import common
    from vp.pysym import loader
    ev = common.Evidence('C11', 'model_checking', tier)
    progs = gen_programs(tier)
    nb = 64
    batches = [progs[i::nb] for i in range(nb)]
    cfgs = [{'progs': b, '_timeout_ms': 10000 if tier == 'quick' else 60000} for b in batches if b]
    results = common.run_jobs('vp.checks.c11', 'job', cfgs)
    known = common.known_findings('C11')
    violations, known_hits, herr, inconc = [], [], [], []
    acc = rej = curv = 0
    sats = []
    for r in results:
        if not r['ok']:
            herr.append(r['err']); continue
        res = r['res']
        for key in ('total', 'unsat', 'sat', 'unknown'): ev.obl[key] += res['obl'][key]
        ev.solver_s += res['solver_s']; acc += res['accepted']; rej += res['rejected_both']; curv += res['curv_checked']
        if res['sample']: ev.sample(res['sample'], cap=6)
        for e in res['errors']: herr.append(e)
        for u in res['unknown']: inconc.append(u)
        sats += res['sat']
    # group counterexamples by root cause: replay the shortest program of each group
    sats.sort(key=lambda s: len('; '.join(s['prog'])))
    groups = {}
    for s in sats:
        groups.setdefault(classify(s), []).append(s)
    for gkey, items in sorted(groups.items()):
        s = items[0]
        rp = common.write_replay('C11', '; '.join(s['prog']) + s['label'], {'property': 'C11', 'prog': s['prog'], 'label': s['label'], 'model': s['model'], 'group': gkey, 'group_size': len(items)})
        rep, why = replay_on_build(rp)
        if rep is None:
            herr.append('%s: counterexample "%s" %s (%s)' % ('; '.join(s['prog']), s['label'], why, rp))
        elif gkey in known: known_hits.append((gkey, known[gkey]['what'] + ' (%d programs, e.g. %s)' % (len(items), '; '.join(s['prog']))))
        else: violations.append((gkey, rp, '%d programs, shortest: %s -> %s' % (len(items), '; '.join(s['prog']), rep)))
    ev.extra['counterexample_groups'] = {k: len(v) for k, v in groups.items()}
    ev.cov.update({'states': len(progs), 'transitions': max(1, ev.obl['total']), 'traces_validated_against_impl': 0,
                   'programs': len(progs), 'accepted_and_compared': acc, 'rejected_by_both': rej, 'curvature_obligations': curv,
                   'functions_encoded': ['modeling.variable/_function/_lin/_minmax/_sum_minmax operators, _lin._addterm, max, min, sum, dot, abs, indexing, in-place forms, value()'],
                   'source_hash': loader.src_hash(['modeling']),
                   'bounds': 'expression programs of depth <= 2 over variables x(3), y(1), z(3) and 8 constant operands (scalars, column, 1x1, row, dense/sparse/diagonal matrices); quick takes every 3rd depth-2 program; variable values are symbolic reals, constants concrete'})
    ev.assumptions += ['constants (matrix entries, scalars) are concrete; only the variables\' values are symbolic',
                       'the matrix/BLAS shim is a model; every counterexample is replayed on the real build',
                       'programs whose meaning the documentation does not fix (e.g. abs of a piecewise-linear function) are counted as agreement when the code accepts them']
    return common.finish(ev, violations, sorted(dict(known_hits).items()), herr, inconc)

def classify(s):
    """root-cause bucket of a counterexample (coarse; used to report one violation per cause)"""
    body = '; '.join(s['prog']); lab = s['label']
    if lab.startswith('f.value() differs'):
        feats = []
        if 'r3*' in body: feats.append('row-coefficient')
        if re.search(r'\bg\b', body) and 'RESULT = g' in body: feats.append('aliasing')
        if '+=' in body or '-=' in body or '*=' in body or '/=' in body: feats.append('inplace')
        return 'value-mismatch:' + ('+'.join(feats) if feats else 'other')
    if lab.startswith('raises'): return 'spurious-exception:' + lab.split(' ')[1].rstrip(':')
    if lab.startswith('accepted although'): return 'accepted-undefined'
    if lab.startswith('object claims'): return 'curvature'
    if lab.startswith('len(f)'): return 'length'
    return 'other:' + lab[:30]

if __name__ == '__main__':
    if len(sys.argv) >= 3 and sys.argv[1] == '--replay-conc':
        dd = json.load(open(sys.argv[2]))
        print(json.dumps(replay(dd['prog'], dd['model'])))
