"""C04 - 'optimal' from cpl satisfies the nonlinear KKT conditions in-domain.

Engine P on the generic exit-block engine (vp/checks/c01.py): the real cvxprog.cpl source is
executed from the loop head of an arbitrary iteration with an arbitrary iterate.  The user
function F is a memoised symbolic stub: F(x) / F(x,z) return fresh symbolic f (mnl), Df
(mnl x n) [and H] per distinct argument x, so "evaluating F independently at the returned x"
is literally the same stub value.  For iteration k >= 1 the starting-point normalisers
(pres0, dres0, ...) are arbitrary values >= 1 (as the code guarantees at iteration 0); for
k == 0 they are the ones the code computes.  Oracle: doc/source/solvers.rst - stationarity and
primal residuals relative to those normalisers within feastol, snl, sl, znl, zl in the cone,
gap criterion, every reported field equal to its recomputation.
cp/gp (epigraph reduction, log-sum-exp) and the line search / domain backtracking are NOT
covered by this check.
"""
import json, sys, os, re, time
from vp.checks import conelp_h as H
from vp.oracles import cone as O
from vp.pysym.cut import Cut

DATA_RE = re.compile(r'^(c\d+|G\d+_\d+|h\d+|A\d+_\d+|b\d+|f\d+|Df\d+_\d+)$')

DIMS_QUICK = [{'l': 1, 'q': [], 's': []}, {'l': 0, 'q': [2], 's': []}, {'l': 0, 'q': [], 's': [2, 2]}, {'l': 1, 'q': [], 's': [2]}, {'l': 0, 'q': [], 's': []}]
DIMS_THOROUGH = DIMS_QUICK + [{'l': 2, 'q': [2], 's': []}, {'l': 1, 'q': [1, 2], 's': [2, 2]}]

def configs(tier):
    out = []
    for d in (DIMS_QUICK if tier == 'quick' else DIMS_THOROUGH):
        for mnl in (1, 0, 2) if tier == 'thorough' else (1, 0):
            if mnl == 0 and H.N_of(d) == 0: continue
            for (n, p) in ((2, 1), (1, 0)):
                for kc in ('k0', 'k1'):
                    if (n, p) == (1, 0) and kc == 'k0': continue
                    out.append({'solver': 'cpl', 'dims': d, 'mnl': mnl, 'n': n, 'p': p, 'kclass': kc, 'sparse': False})
    out.append({'solver': 'cpl', 'dims': DIMS_QUICK[0], 'mnl': 1, 'n': 2, 'p': 1, 'kclass': 'ge', 'sparse': False})
    return out

def make_data(cfg, mk):
    d = H.make_data(cfg, mk)
    return d

def run_cpl(cfg, Wd, A, mk, assume, cap):
    dims, n, p, mnl = cfg['dims'], cfg['n'], cfg['p'], cfg['mnl']
    N = H.N_of(dims)
    num = A.num
    d = make_data(cfg, mk)
    c, G, h, Am, b = H.to_matrices(Wd, cfg, d)
    M = Wd.matrix
    feastol, abstol, reltol = mk('feastol'), mk('abstol'), mk('reltol')
    assume(A.gt(num(feastol), A.const(0)))
    assume(A.or_(A.gt(num(abstol), A.const(0)), A.gt(num(reltol), A.const(0))))
    cap['opts'] = {'feastol': num(feastol), 'abstol': num(abstol), 'reltol': num(reltol)}
    maxiters = cfg.get('maxiters', 7); cap['maxiters'] = maxiters
    opts = {'show_progress': False, 'feastol': feastol, 'abstol': abstol, 'reltol': reltol, 'maxiters': maxiters, 'refinement': 0}
    # ---- memoised symbolic F
    memo = {}
    cap['F'] = memo
    d['f'] = []; d['Df'] = []
    def Fstub(x=None, z=None):
        if x is None: return mnl, M(0.0, (n, 1))
        key = tuple(str(num(x[i])) if Wd.mode == 'sym' else repr(float(x[i])) for i in range(n))
        if key not in memo:
            tag = 'F%d' % len(memo)
            fv = [mk('f%d' % i) for i in range(mnl)] if len(memo) == 0 else [mk('%s_f%d' % (tag, i)) for i in range(mnl)]
            Dv = [mk('Df%d_%d' % (i, j)) for j in range(n) for i in range(mnl)] if len(memo) == 0 else [mk('%s_Df%d_%d' % (tag, i, j)) for j in range(n) for i in range(mnl)]
            memo[key] = (fv, Dv)
            if len(memo) == 1: d['f'], d['Df'] = fv, Dv
        fv, Dv = memo[key]
        f = M(list(fv), (mnl, 1), 'd') if mnl else M(0.0, (0, 1))
        Df = M(list(Dv), (mnl, n), 'd') if mnl else M(0.0, (0, n))
        if z is None: return f, Df
        return f, Df, M(0.0, (n, n))
    mod = Wd.cvxprog
    from vp.pysym.loader import havoc_result
    def vp_iters(stop):
        k = mk('k', 'int')
        assume(A.ge(num(k), A.const(0))); assume(A.lt(num(k), num(stop)))
        kc = cfg.get('kclass')
        if kc == 'k0': assume(A.eq(num(k), A.const(0)))
        elif kc == 'k1': assume(A.ge(num(k), A.const(1))); assume(A.lt(num(k), A.const(maxiters)))
        elif kc == 'ge': assume(A.ge(num(k), A.const(maxiters)))
        cap['k'] = k
        yield k
        raise Cut('second iteration')
    def vp_havoc(which, loc, names):
        if which != 'cpl': raise RuntimeError('unexpected havoc site ' + which)
        for nm in ('x', 'y', 's', 'z'):
            m = loc[nm]
            for i in range(len(m)): m[i] = mk('h%s%d' % (nm, i))
        s = [num(loc['s'][i]) for i in range(len(loc['s']))]
        z = [num(loc['z'][i]) for i in range(len(loc['z']))]
        assume(O.in_cone(A, s, dims, mnl, strict=True)); assume(O.in_cone(A, z, dims, mnl, strict=True))   # I3
        # lemma used as an assumption: <s,z> > 0 for strictly interior s, z of a self-dual cone (z3 cannot
        # derive it for 's' blocks); the code divides by gap0 = <s,z> at iteration 0
        if len(s): assume(A.gt(O.sdot(A, s, z, dims, mnl), A.const(0)))
        vals = {}
        if cfg.get('kclass') != 'k0':
            for nm in ('pres0', 'dres0', 'resx0', 'resznl0'):
                v = mk(nm); assume(A.ge(num(v), A.const(1))); vals[nm] = v                               # I4
            g0 = mk('gap0'); assume(A.gt(num(g0), A.const(0))); vals['gap0'] = g0
            for nm in ('theta1', 'theta2', 'theta3'):
                v = mk(nm); assume(A.gt(num(v), A.const(0))); vals[nm] = v
        return havoc_result(loc, names, vals)
    def vp_ret(val, loc):
        cap['locals'] = dict(loc); return val
    mod.__dict__['__vp_iters__'] = vp_iters; mod.__dict__['__vp_havoc__'] = vp_havoc; mod.__dict__['__vp_ret__'] = vp_ret
    misc = Wd.misc
    saved = (misc.compute_scaling, misc.ssqr)
    def kkt(x, z, W): raise Cut('kktsolver reached')
    def _cut(*a, **k): raise Cut('past the exit block')
    misc.compute_scaling = _cut; misc.ssqr = _cut
    try:
        sol = mod.cpl(c, Fstub, G, h, dims, Am, b, kktsolver=kkt, options=opts)
    finally:
        misc.compute_scaling, misc.ssqr = saved
    return d, sol

# ------------------------------------------------------------------------------ oracle

def _vecs(A, cfg, sol):
    mnl = cfg['mnl']
    x, y = H.vec_of(A, sol['x']), H.vec_of(A, sol['y'])
    snl, sl, znl, zl = (H.vec_of(A, sol[k]) for k in ('snl', 'sl', 'znl', 'zl'))
    return x, y, snl, sl, znl, zl

def residuals(A, cfg, d, sol):
    dims, n, p, mnl = cfg['dims'], cfg['n'], cfg['p'], cfg['mnl']
    N = H.N_of(dims); lw = H.lower_weights(dims); zero = A.const(0)
    x, y, snl, sl, znl, zl = _vecs(A, cfg, sol)
    G, Am, f, Df = d['G'], d['A'], d['f'], d['Df']
    rx = [d['c'][j] + O._sum((Df[i + j*mnl]*znl[i] for i in range(mnl)), zero) + O._sum((w*G[i + j*N]*zl[i] for i, w in lw), zero) +
          O._sum((Am[i + j*p]*y[i] for i in range(p)), zero) for j in range(n)]
    ry = [O._sum((Am[i + j*p]*x[j] for j in range(n)), zero) - d['b'][i] for i in range(p)]
    rznl = [f[i] + snl[i] for i in range(mnl)]
    rzl = {i: O._sum((G[i + j*N]*x[j] for j in range(n)), zero) + sl[i] - d['h'][i] for i, w in lw}
    return {'rx': rx, 'ry': ry, 'rznl': rznl, 'rzl': rzl}

def norms_from_res(A, cfg, d, res, status, scale=None):
    lw = H.lower_weights(cfg['dims']); zero = A.const(0)
    ss = lambda v: O._sum((e*e for e in v), zero)
    nm = {'Rx': ss(res['rx']), 'Ry': ss(res['ry']), 'Rznl': ss(res['rznl']), 'Rzl': O._sum((w*res['rzl'][i]*res['rzl'][i] for i, w in lw), zero)}
    nm['P'] = nm['Ry'] + nm['Rznl'] + nm['Rzl']
    return nm

def claims(A, cfg, d, sol, nm, opts, k, maxiters):
    dims, n, p, mnl = cfg['dims'], cfg['n'], cfg['p'], cfg['mnl']
    N = H.N_of(dims); lw = H.lower_weights(dims); zero = A.const(0)
    num = A.num
    st = sol['status']
    if st not in ('optimal', 'unknown'):
        return [('C04', 'status is one of the documented strings', A.not_(A.true()), 'direct')]
    tag = 'C04' if st == 'optimal' else 'C10'
    out = []
    def fld(name): return num(sol[name])
    x, y, snl, sl, znl, zl = _vecs(A, cfg, sol)
    f, G, Am = d['f'], d['G'], d['A']
    loc = sol.get('__locals__') or {}
    pres0, dres0 = num(sol['__pres0__']), num(sol['__dres0__'])
    Fp, Fd = fld('primal infeasibility'), fld('dual infeasibility')
    out.append((tag, "%s: 'primal infeasibility' * pres0 == ||(Ax-b, f(x)+snl, Gx+sl-h)||" % st, A.and_(A.ge(Fp, zero), A.eq(Fp*pres0*Fp*pres0, nm['P'])), 'abstract'))
    out.append((tag, "%s: 'dual infeasibility' * dres0 == ||c+Df'znl+G'zl+A'y||" % st, A.and_(A.ge(Fd, zero), A.eq(Fd*dres0*Fd*dres0, nm['Rx'])), 'abstract'))
    out.append((tag, "%s: normalisers pres0, dres0 >= 1" % st, A.and_(A.ge(pres0, A.const(1)), A.ge(dres0, A.const(1))), 'abstract'))
    pc_ = O._sum((d['c'][j]*x[j] for j in range(n)), zero)
    Axb = [O._sum((Am[i + j*p]*x[j] for j in range(n)), zero) - d['b'][i] for i in range(p)]
    Gxh = {i: O._sum((G[i + j*N]*x[j] for j in range(n)), zero) - d['h'][i] for i, w in lw}
    dc_ = pc_ + O._sum((y[i]*Axb[i] for i in range(p)), zero) + O._sum((znl[i]*f[i] for i in range(mnl)), zero) + O._sum((w*zl[i]*Gxh[i] for i, w in lw), zero)
    gap_ = O._sum((snl[i]*znl[i] for i in range(mnl)), zero) + O._sum((w*sl[i]*zl[i] for i, w in lw), zero)
    out.append((tag, "%s: 'primal objective' == c'x" % st, A.eq(fld('primal objective'), pc_), 'direct'))
    out.append((tag, "%s: 'dual objective' == L(x,y,znl,zl)" % st, A.eq(fld('dual objective'), dc_), 'direct'))
    out.append((tag, "%s: 'gap' == snl'znl + sl'zl" % st, A.eq(fld('gap'), gap_), 'direct'))
    rg = sol['relative gap']
    if rg is None:
        out.append((tag, "%s: 'relative gap' None only if pcost>=0 and dcost<=0" % st, A.and_(A.ge(pc_, zero), A.le(dc_, zero)), 'direct'))
    else:
        out.append((tag, "%s: 'relative gap' == recomputed" % st,
                    A.or_(A.and_(A.lt(pc_, zero), A.eq(num(rg)*(-pc_), gap_)), A.and_(A.ge(pc_, zero), A.gt(dc_, zero), A.eq(num(rg)*dc_, gap_))), 'direct'))
    s_full = snl + sl; z_full = znl + zl
    out.append((tag, "%s: 'primal slack' == -max_step(s)" % st, A.eq(fld('primal slack'), -O.max_step(A, s_full, dims, mnl)), 'direct'))
    out.append((tag, "%s: 'dual slack' == -max_step(z)" % st, A.eq(fld('dual slack'), -O.max_step(A, z_full, dims, mnl)), 'direct'))
    def symmetric(v):
        cs = []
        for (stt, m) in O.layout(dims, 0)[2]:
            for j in range(m):
                for i in range(j + 1, m): cs.append(A.eq(v[stt + i + j*m], v[stt + j + i*m]))
        return A.and_(*cs)
    out.append((tag, "%s: sl symmetric" % st, symmetric(sl), 'direct'))
    out.append((tag, "%s: zl symmetric" % st, symmetric(zl), 'direct'))
    out.append((tag, "%s: snl, sl in the cone" % st, O.in_cone(A, s_full, dims, mnl), 'direct'))
    out.append((tag, "%s: znl, zl in the cone" % st, O.in_cone(A, z_full, dims, mnl), 'direct'))
    if st == 'optimal':
        ft = opts['feastol']
        out.append(('C04', 'optimal: primal residual <= feastol (relative to pres0)', A.le(Fp, ft), 'direct'))
        out.append(('C04', 'optimal: dual residual <= feastol (relative to dres0)', A.le(Fd, ft), 'direct'))
        out.append(('C04', 'optimal: gap<=abstol or relgap<=reltol',
                    A.or_(A.le(gap_, opts['abstol']), A.and_(A.lt(pc_, zero), A.le(gap_, opts['reltol']*(-pc_))),
                          A.and_(A.ge(pc_, zero), A.gt(dc_, zero), A.le(gap_, opts['reltol']*dc_))), 'direct'))
    return out

def _with_norms(sol, cap):
    s2 = dict(sol); loc = cap['locals']
    s2['__pres0__'], s2['__dres0__'] = loc['pres0'], loc['dres0']
    return s2

def _links(st, cap, res, sol):
    import z3
    from vp.pysym.sym import T
    loc = cap['locals']
    def cells(name):
        m = loc[name]; return [T(m[i]) for i in range(len(m))]
    one = z3.RealVal(1)
    L = []
    for j, t in enumerate(cells('rx')): L.append(('rx[%d]' % j, res['rx'][j], one, 1, t, ('rx', j)))
    for i, t in enumerate(cells('ry')): L.append(('ry[%d]' % i, res['ry'][i], one, 1, t, ('ry', i)))
    for i, t in enumerate(cells('rznl')): L.append(('rznl[%d]' % i, res['rznl'][i], one, 1, t, ('rznl', i)))
    rzl = cells('rzl')
    for i in res['rzl']: L.append(('rzl[%d]' % i, res['rzl'][i], one, 1, rzl[i], ('rzl', i)))
    return L, one

def witnesses(st, cfg, maxiters, count=3):
    import random
    from fractions import Fraction as Fr
    dims, n, p, mnl = cfg['dims'], cfg['n'], cfg['p'], cfg['mnl']
    N = H.N_of(dims)
    if st not in ('optimal', 'unknown'): return []
    lw = H.lower_weights(dims); lowpos = set(i for i, _ in lw)
    out = []
    for t in range(count):
        rnd = random.Random(911*t + 5*N + n + p + mnl)
        ri = lambda: Fr(rnd.choice([-2, -1, 1, 2, 3]))
        def interior(shift):
            v = [Fr(1 + shift + i) for i in range(dims['l'])]
            for m in dims['q']: v += [Fr(m + 1 + shift)] + [Fr(1)]*(m - 1)
            for m in dims['s']:
                for j in range(m):
                    for i in range(m): v.append(Fr(m + 1 + shift + i) if i == j else Fr(1))
            return v
        sl = interior(1); zl = interior(t)
        junk = [i for i in range(N) if i not in lowpos]
        for i in junk: sl[i] = Fr(7); zl[i] = Fr(5)
        snl = [Fr(2 + i) for i in range(mnl)]; znl = [Fr(1 + t + i) for i in range(mnl)]
        G = [[ri() for j in range(n)] for i in range(N)]; Am = [[ri() for j in range(n)] for i in range(p)]
        Df = [[ri() for j in range(n)] for i in range(mnl)]
        x = [ri() for j in range(n)]; y = [ri() for i in range(p)]
        f = [-snl[i] for i in range(mnl)]
        c = [-(sum(Df[i][j]*znl[i] for i in range(mnl)) + sum(w*G[i][j]*zl[i] for i, w in lw) + sum(Am[i][j]*y[i] for i in range(p))) for j in range(n)]
        b = [sum(Am[i][j]*x[j] for j in range(n)) for i in range(p)]
        h = [sum(G[i][j]*x[j] for j in range(n)) + sl[i] for i in range(N)]
        for i in junk: h[i] = Fr(3)
        kc = cfg.get('kclass')
        pins = {'feastol': 1000, 'abstol': 1000, 'reltol': 1000, 'k': (maxiters if (st == 'unknown' or kc == 'ge') else (0 if kc == 'k0' else 1)),
                'pres0': 1, 'dres0': 2, 'resx0': 1, 'resznl0': 1, 'gap0': 1, 'theta1': 1, 'theta2': 1, 'theta3': 1}
        for i in range(mnl):
            pins['hs%d' % i] = snl[i]; pins['hz%d' % i] = znl[i]; pins['f%d' % i] = f[i]
            for j in range(n): pins['Df%d_%d' % (i, j)] = Df[i][j]
        for i in range(N):
            pins['hs%d' % (mnl + i)] = sl[i]; pins['hz%d' % (mnl + i)] = zl[i]; pins['h%d' % i] = h[i]
            for j in range(n): pins['G%d_%d' % (i, j)] = G[i][j]
        for i in range(p):
            pins['hy%d' % i] = y[i]; pins['b%d' % i] = b[i]
            for j in range(n): pins['A%d_%d' % (i, j)] = Am[i][j]
        for j in range(n):
            pins['c%d' % j] = c[j]; pins['hx%d' % j] = x[j]
        out.append(pins)
    return out

class CplSpec(object):
    name = 'cpl'
    norm_data_keys = ()
    abs_fields = ('primal infeasibility', 'dual infeasibility', '__pres0__', '__dres0__')
    option_names = ('feastol', 'abstol', 'reltol')
    @staticmethod
    def run(cfg, Wd, A, mk, assume, cap):
        d, sol = run_cpl(cfg, Wd, A, mk, assume, cap)
        return d, _with_norms(sol, cap)
    residuals = staticmethod(residuals)
    links = staticmethod(_links)
    claims = staticmethod(claims)
    norms_from_res = staticmethod(norms_from_res)
    witnesses = staticmethod(witnesses)
    @staticmethod
    def data_re(): return DATA_RE
    @staticmethod
    def prop_of(st): return 'C04' if st == 'optimal' else 'C10'
    @staticmethod
    def factor(st, loc, absvar):
        import z3
        return z3.RealVal(1)
    @staticmethod
    def U(st, A2, cfg, dn, ares):
        lw_ = H.lower_weights(cfg['dims']); zero_ = A2.const(0)
        def ssq(dct, weights=None):
            if weights is None: return O._sum((dct[i]*dct[i] for i in sorted(dct)), zero_)
            return O._sum((w*dct[i]*dct[i] for i, w in weights if i in dct), zero_)
        U = {'Rx': ssq(ares.get('rx', {})), 'Ry': ssq(ares.get('ry', {})), 'Rznl': ssq(ares.get('rznl', {})), 'Rzl': ssq(ares.get('rzl', {}), lw_)}
        U['P'] = lambda vv: vv['Ry'] + vv['Rznl'] + vv['Rzl']
        return U, set()

def main(tier):
    from vp.checks import c01
    return c01.main(tier, 'C04')

def replay_main(path):
    from vp.checks import c01
    return c01.replay_main(path)
