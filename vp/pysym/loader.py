"""Loads the repository's real Python sources (read from REPO on every run) for engine P.

Two worlds share this loader:
  * 'sym'  - python3-vt process: a fake `cvxopt` package whose base/blas/lapack are the shim
             (vp.pysym.shim) with symbolic cells; `math` is replaced by the symbolic math shim.
  * 'conc' - /venv/bin/python process with a real overlay build of /repo on sys.path: the real
             `cvxopt` package; only the transformed solver modules replace their originals.
             Used to replay counterexamples and to validate the shim.

Load-time AST transforms (each located by pattern; a pattern that does not match exactly
as expected raises HarnessError):
  T1 misc.py:  module-level `use_C = True`  ->  `use_C = <flag>`
  T2 in the named solver functions: `for iters in range(E):` -> `for iters in __vp_iters__(E):`
     and a havoc assignment statement inserted as first statement of the loop body
  T3 in the same functions every `return e` -> `return __vp_ret__(e, locals())`
"""
import ast, sys, types, os, hashlib

REPO = os.environ.get('VP_REPO', '/repo')

class HarnessError(Exception):
    pass

def src_path(name):
    return os.path.join(REPO, 'src', 'python', name + '.py')

def read_src(name):
    with open(src_path(name)) as f:
        return f.read()

def src_hash(names):
    h = hashlib.sha256()
    for n in names:
        h.update(read_src(n).encode())
    return h.hexdigest()[:16]

# ----------------------------------------------------------------------------- transforms

def t_use_c(tree, flag):
    hits = 0
    for node in tree.body:
        if isinstance(node, ast.Assign) and len(node.targets) == 1 and \
                isinstance(node.targets[0], ast.Name) and node.targets[0].id == 'use_C':
            node.value = ast.Constant(bool(flag)); hits += 1
    if hits != 1:
        raise HarnessError('misc.py: expected exactly one module-level use_C assignment, found %d' % hits)
    return tree

class _LoopRet(ast.NodeTransformer):
    def __init__(self, havoc_stmt, do_loop=True):
        self.havoc_stmt = havoc_stmt; self.loops = 0; self.rets = 0; self.depth = 0
        self.do_loop = do_loop
    def visit_FunctionDef(self, node):
        # do not descend into nested function definitions for `return` wrapping
        self.depth += 1
        if self.depth == 1:
            self.generic_visit(node)
        self.depth -= 1
        return node
    def visit_Lambda(self, node): return node
    def visit_For(self, node):
        self.generic_visit(node)
        if self.do_loop and isinstance(node.target, ast.Name) and node.target.id == 'iters':
            it = node.iter
            if not (isinstance(it, ast.Call) and isinstance(it.func, ast.Name) and it.func.id == 'range'
                    and len(it.args) == 1 and not it.keywords):
                raise HarnessError('main loop is not `for iters in range(E)`')
            node.iter = ast.Call(func=ast.Name('__vp_iters__', ast.Load()), args=[it.args[0]], keywords=[])
            if self.havoc_stmt:
                hv = ast.parse(self.havoc_stmt).body[0]
                node.body.insert(0, hv)
            self.loops += 1
        return node
    def visit_Return(self, node):
        if node.value is None: return node
        self.rets += 1
        node.value = ast.Call(func=ast.Name('__vp_ret__', ast.Load()),
                              args=[node.value, ast.Call(func=ast.Name('locals', ast.Load()), args=[], keywords=[])],
                              keywords=[])
        return node

def t_solver(tree, specs):
    """specs: {funcname: havoc_stmt or None or False}.  False => only wrap returns."""
    found = set()
    for node in tree.body:
        if isinstance(node, ast.FunctionDef) and node.name in specs:
            sp = specs[node.name]
            tr = _LoopRet(sp if isinstance(sp, str) else None, do_loop=(sp is not False))
            tr.visit(node)
            if sp is not False and tr.loops != 1:
                raise HarnessError('%s: expected exactly one `for iters in range(...)` loop, found %d'
                                   % (node.name, tr.loops))
            found.add(node.name)
    missing = set(specs) - found
    if missing:
        raise HarnessError('functions not found: %s' % sorted(missing))
    return tree

def _havoc_stmt(which, names):
    return "%s = __vp_havoc__(%r, locals(), %r)" % (', '.join(names), which, tuple(names))

# locals (re)bound by the havoc statement at the loop head; the first ones are the iterate
# scalars, the others are per-solve work objects that the code allocates at iteration 0 and
# that must exist when the body is entered at an arbitrary iteration k >= 1 (fault harness)
HAVOC_NAMES = {
    'conelp': ('tau', 'kappa', 'gap', 'W', 'dg', 'dgi', 'x1', 'y1', 'z1', 'th'),
    'coneqp': ('gap', 'W'),
    'cpl': ('gap', 'pres0', 'dres0', 'resx0', 'resznl0', 'gap0', 'theta1', 'theta2', 'theta3', 'W', 'relaxed_iters', 'phi0'),
}
CONEPROG_SPECS = {
    'conelp': _havoc_stmt('conelp', HAVOC_NAMES['conelp']),
    'coneqp': _havoc_stmt('coneqp', HAVOC_NAMES['coneqp']),
}
CVXPROG_SPECS = {
    'cpl': _havoc_stmt('cpl', HAVOC_NAMES['cpl']),
}

# default hook implementations: behave exactly like the untransformed code
def _iters_default(stop):
    return iter(range(stop))
def _havoc_default(which, loc, names):
    return tuple(loc.get(n) for n in names)
def havoc_result(loc, names, values):
    """tuple for the havoc statement: `values` overrides, everything else keeps its current
    binding (None if not yet bound)"""
    return tuple(values[n] if n in values else loc.get(n) for n in names)
def _ret_default(val, loc):
    return val

def t_conelp_tail(tree):
    """T5 (variant 'tail'): in conelp the main loop body becomes
         <havoc statement>; <the statements after `lmbda[-1] *= ...`  (unscaling of s, z, tau, kappa and the gap)>;
         __vp_tail__(locals())
    i.e. the last statements of an iteration executed from an arbitrary scaled state.  Located by pattern:
    the AugAssign whose target is lmbda[-1]; exactly one must exist in the loop body."""
    hits = 0
    for node in tree.body:
        if isinstance(node, ast.FunctionDef) and node.name == 'conelp':
            for loop in ast.walk(node):
                if isinstance(loop, ast.For) and isinstance(loop.target, ast.Name) and loop.target.id == 'iters':
                    idx = [i for i, st in enumerate(loop.body) if isinstance(st, ast.AugAssign) and isinstance(st.target, ast.Subscript)
                           and isinstance(st.target.value, ast.Name) and st.target.value.id == 'lmbda']
                    if len(idx) != 1: raise HarnessError('conelp: expected exactly one `lmbda[-1] *= ...` in the loop body, found %d' % len(idx))
                    it = loop.iter
                    loop.iter = ast.Call(func=ast.Name('__vp_iters__', ast.Load()), args=[it.args[0]], keywords=[])
                    hv = ast.parse("tau, kappa, gap, W, dgi = __vp_havoc__('conelp-tail', locals(), ('tau', 'kappa', 'gap', 'W', 'dgi'))").body[0]
                    tl = ast.parse("__vp_tail__(locals())").body[0]
                    loop.body = [hv] + loop.body[idx[0] + 1:] + [tl]
                    hits += 1
    if hits != 1: raise HarnessError('conelp main loop not found for the tail variant')
    return tree

def t_fromfile_float(tree):
    """T4 modeling.py: inside op.fromfile every call float(...) becomes __vp_float__(...) (default:
    the builtin), so that a harness can feed symbolic numeric fields to the real MPS reader"""
    hits = 0
    for node in ast.walk(tree):
        if isinstance(node, ast.FunctionDef) and node.name == 'fromfile':
            for n in ast.walk(node):
                if isinstance(n, ast.Call) and isinstance(n.func, ast.Name) and n.func.id == 'float':
                    n.func = ast.Name('__vp_float__', ast.Load()); hits += 1
    if hits < 5:
        raise HarnessError('modeling.py: expected the float(...) field conversions in op.fromfile, found %d' % hits)
    return tree

def _exec_module(fullname, path, tree, inject):
    ast.fix_missing_locations(tree)
    mod = types.ModuleType(fullname)
    mod.__file__ = path
    mod.__dict__.update(inject)
    mod.__dict__['__vp_iters__'] = _iters_default
    mod.__dict__['__vp_havoc__'] = _havoc_default
    mod.__dict__['__vp_ret__'] = _ret_default
    mod.__dict__['__vp_float__'] = float
    mod.__dict__['__vp_tail__'] = lambda loc: None
    sys.modules[fullname] = mod
    exec(compile(tree, path, 'exec'), mod.__dict__)
    return mod

class World(object):
    pass

_IR_MISC = None
def _ir_misc_solvers(shim, sym):
    global _IR_MISC
    if _IR_MISC is not None: return _IR_MISC
    import tempfile, shutil, z3
    from vp.llsym import ir, scen_misc
    work = tempfile.mkdtemp(prefix='vp.irms.', dir='/var/tmp')
    try:
        ll = ir.compile_to_ir(os.path.join(REPO, 'src', 'C', 'misc_solvers.c'), REPO, work)
        irmod = ir.Module(open(ll).read())
    finally:
        shutil.rmtree(work, True)
    def set_cell(o, i, new):
        o._w(); o.v[i] = sym.SymReal(new)
    hooks = {'T': sym.T, 'wrap': lambda t: sym.SymReal(t) if z3.is_expr(t) else float(t),
             'sqrt': lambda t: sym.T(sym.sym_sqrt(sym.SymReal(t) if z3.is_expr(t) else t)),
             'is_matrix': lambda o: isinstance(o, shim.matrix), 'set': set_cell,
             'decide': lambda c: sym.CTX.decide(c)}
    _IR_MISC = scen_misc.make_module(irmod, hooks)
    return _IR_MISC

def load(mode, use_c=None, transform_solvers=True, modules=('misc', 'coneprog', 'cvxprog', 'solvers', 'modeling'),
         inject_builtins=True, conelp_tail=False):
    """Returns a World with attributes matrix, spmatrix, base, blas, lapack, misc, coneprog,
    cvxprog, solvers, modeling (those requested)."""
    W = World(); W.mode = mode
    inject = {}
    if mode == 'sym':
        from . import shim, sym
        pkg = types.ModuleType('cvxopt'); pkg.__path__ = []
        W.base = shim.make_base(); W.blas = shim.make_blas(); W.lapack = shim.make_lapack()
        W.matrix, W.spmatrix = shim.matrix, shim.spmatrix
        dummies = {}
        for nm in ('cholmod', 'umfpack', 'amd', 'misc_solvers', 'glpk', 'dsdp'):
            dummies[nm] = types.ModuleType('cvxopt.' + nm)
        for nm, m in [('base', W.base), ('blas', W.blas), ('lapack', W.lapack)] + list(dummies.items()):
            setattr(pkg, nm, m); sys.modules['cvxopt.' + nm] = m
        pkg.matrix, pkg.spmatrix = shim.matrix, shim.spmatrix
        pkg.sparse, pkg.spdiag, pkg.sqrt = W.base.sparse, W.base.spdiag, W.base.sqrt
        pkg.mul, pkg.div = W.base.mul, W.base.div
        sys.modules['cvxopt'] = pkg
        W.math = sym.make_math_module()
        sys.modules['math'] = W.math
        if inject_builtins:
            inject = {'max': sym.sym_max, 'min': sym.sym_min}
        if use_c is None: use_c = False
        if use_c == 'ir':
            # the compiled kernels of misc_solvers.c, executed from their LLVM IR on the shim's symbolic cells (engine L inside engine P)
            ms = _ir_misc_solvers(shim, sym)
            dummies['misc_solvers'] = ms; pkg.misc_solvers = ms; sys.modules['cvxopt.misc_solvers'] = ms
            use_c = True
        elif use_c: raise HarnessError('compiled kernels are available in the symbolic world only as use_c="ir"')
        W.pkg = pkg
    else:
        import cvxopt
        from cvxopt import base, blas, lapack
        W.pkg = cvxopt; W.base, W.blas, W.lapack = base, blas, lapack
        W.matrix, W.spmatrix = cvxopt.matrix, cvxopt.spmatrix
        import math; W.math = math
        if use_c is None: use_c = True
    pkg = W.pkg
    W.hashes = {}
    for name in modules:
        tree = ast.parse(read_src(name), src_path(name))
        if name == 'misc':
            tree = t_use_c(tree, use_c)
        elif name == 'coneprog' and transform_solvers and conelp_tail:
            tree = t_conelp_tail(tree)
        elif name == 'coneprog' and transform_solvers:
            tree = t_solver(tree, CONEPROG_SPECS)
        elif name == 'cvxprog' and transform_solvers:
            tree = t_solver(tree, CVXPROG_SPECS)
        elif name == 'modeling':
            tree = t_fromfile_float(tree)
        mod = _exec_module('cvxopt.' + name, src_path(name), tree, inject if name != 'solvers' else {})
        setattr(pkg, name, mod)
        setattr(W, name, mod)
        W.hashes[name] = src_hash([name])
    return W
