"""C08 - cone-algebra kernels of cvxopt.misc against their written-down definition.

Engine P part: every Python fallback kernel of /repo/src/python/misc.py (loaded with
use_C=False) is executed on symbolic vectors; for each configuration the solver decides
`kernel result == definition` cell by cell for all real data, plus the frame condition.
Counterexamples are replayed on the real build (both the Python fallback and the compiled
kernel) before a VIOLATION is printed.
"""
import itertools, json, sys, os

KERNELS = ['scale', 'scale2', 'pack', 'unpack', 'pack2', 'sdot', 'snrm2', 'jdot', 'jnrm2', 'sgemv',
           'trisc', 'triusc', 'symm', 'sprod', 'ssqr', 'sinv', 'max_step', 'sdot2']

DIMS_QUICK = [
    {'l': 1, 'q': [], 's': []}, {'l': 2, 'q': [], 's': []}, {'l': 0, 'q': [2], 's': []},
    {'l': 0, 'q': [3], 's': []}, {'l': 0, 'q': [1], 's': []}, {'l': 0, 'q': [], 's': [1]},
    {'l': 0, 'q': [], 's': [2]}, {'l': 0, 'q': [], 's': [0]}, {'l': 0, 'q': [], 's': []},
    {'l': 1, 'q': [2], 's': [2]}, {'l': 0, 'q': [2, 3], 's': []}, {'l': 0, 'q': [], 's': [2, 1]},
    {'l': 1, 'q': [1, 2], 's': [2, 2]},
]
DIMS_THOROUGH = DIMS_QUICK + [
    {'l': 2, 'q': [2, 3], 's': [1, 2]}, {'l': 0, 'q': [], 's': [3]}, {'l': 1, 'q': [3], 's': [2, 1]},
    {'l': 0, 'q': [4], 's': []}, {'l': 1, 'q': [], 's': [3, 2]},
]

DBL_MAX = 1.7976931348623157e308

def N_of(dims, mnl=0):
    return mnl + dims['l'] + sum(dims['q']) + sum(k*k for k in dims['s'])
def Ndiag_of(dims, mnl=0):
    return mnl + dims['l'] + sum(dims['q']) + sum(dims['s'])
def Npack_of(dims, mnl=0):
    return mnl + dims['l'] + sum(dims['q']) + sum(k*(k+1)//2 for k in dims['s'])

def configs(tier):
    box = DIMS_QUICK if tier == 'quick' else DIMS_THOROUGH
    out = []
    def maxs(d): return max([0] + d['s'])
    for d in box:
        for mnl in (0, 1):
            for ncols in (1, 2):
                for trans in 'NT':
                    for inv in 'NI':
                        if maxs(d) >= 3 and (ncols == 2 or mnl == 1): continue
                        out.append({'kernel': 'scale', 'dims': d, 'mnl': mnl, 'ncols': ncols, 'trans': trans, 'inverse': inv})
            for inv in 'NI':
                # ('q' blocks of dimension 4 in scale2: the hyperbolic-Householder identity is not decided within the budget - outside)
                if maxs(d) <= 2 and max([0] + d['q']) <= 3:
                    out.append({'kernel': 'scale2', 'dims': d, 'mnl': mnl, 'inverse': inv})
            for off in ((0, 0), (1, 2)):
                out.append({'kernel': 'pack', 'dims': d, 'mnl': mnl, 'offsetx': off[0], 'offsety': off[1]})
                out.append({'kernel': 'unpack', 'dims': d, 'mnl': mnl, 'offsetx': off[0], 'offsety': off[1]})
            for ncols in (1, 2):
                out.append({'kernel': 'pack2', 'dims': d, 'mnl': mnl, 'ncols': ncols})
            out.append({'kernel': 'sdot', 'dims': d, 'mnl': mnl})
            out.append({'kernel': 'snrm2', 'dims': d, 'mnl': mnl})
            for diag in 'ND':
                out.append({'kernel': 'sprod', 'dims': d, 'mnl': mnl, 'diag': diag})
            out.append({'kernel': 'ssqr', 'dims': d, 'mnl': mnl})
            if maxs(d) <= 2:
                out.append({'kernel': 'sinv', 'dims': d, 'mnl': mnl})
                out.append({'kernel': 'max_step', 'dims': d, 'mnl': mnl})
        for trans in 'NT':
            for n in (1, 2):
                out.append({'kernel': 'sgemv', 'dims': d, 'trans': trans, 'n': n, 'sparse': False})
            out.append({'kernel': 'sgemv', 'dims': d, 'trans': trans, 'n': 2, 'sparse': True})
            out.append({'kernel': 'sgemv', 'dims': d, 'trans': trans, 'n': 2, 'sparse': False, 'offsetx': 2, 'offsety': 1})
        for off in (0, 1):
            out.append({'kernel': 'trisc', 'dims': d, 'offset': off})
            out.append({'kernel': 'triusc', 'dims': d, 'offset': off})
    for n in (0, 1, 2, 3) + ((4,) if tier == 'thorough' else ()):
        for off in (0, 2):
            out.append({'kernel': 'symm', 'n': n, 'offset': off})
        out.append({'kernel': 'sdot2', 'n': n, 'aslist': False})
    out.append({'kernel': 'sdot2', 'n': 2, 'aslist': True})
    for n in (1, 2, 3):
        for off in ((0, 0), (1, 2)):
            out.append({'kernel': 'jdot', 'n': n, 'offsetx': off[0], 'offsety': off[1], 'default_n': False})
        out.append({'kernel': 'jdot', 'n': n, 'offsetx': 0, 'offsety': 0, 'default_n': True})
        for off in (0, 1):
            out.append({'kernel': 'jnrm2', 'n': n, 'offset': off, 'default_n': (off == 0)})
    # every configuration twice: the pure-Python kernels of misc.py, and misc.py with use_C = True on top of the compiled
    # kernels of misc_solvers.c executed from their LLVM IR (vp/llsym/scen_misc.py); jdot/jnrm2/sdot2 exist in Python only
    both = []
    for c in out:
        both.append(dict(c, impl='py'))
        if c['kernel'] in ('jdot', 'jnrm2', 'sdot2'): continue
        if tier == 'quick' and c['kernel'] == 'scale2' and c['dims']['q'] == [2, 3] and c['mnl'] == 0 and c['inverse'] == 'I':
            continue      # compiled scale2, two 'q' blocks (2, 3), inverse: the hyperbolic identity takes z3 3 minutes (erratic) - thorough tier only
        both.append(dict(c, impl='c'))
    return both

# ------------------------------------------------------------------------------------
# One case, written once for both worlds.  `mk(name)` gives a world number (SymReal/float),
# `assume(pred)` takes an algebra predicate over A.num(...) values.

def run_case(cfg, Wd, A, mk, assume):
    """Runs the real kernel; returns list of (label, predicate) obligations."""
    from vp.oracles import cone as O
    misc, matrix = Wd.misc, Wd.matrix
    k = cfg['kernel']
    num = A.num
    obl = []
    def vec(prefix, n):
        return [mk('%s%d' % (prefix, i)) for i in range(n)]
    def M(vals, size=None):
        return matrix(list(vals), size if size is not None else (len(vals), 1), 'd') if len(vals) else matrix(0.0, size if size is not None else (0, 1))
    def cells(m): return [m[i] for i in range(len(m))]
    def compare(tag, got, before, expected, free=()):
        """got/before: lists of world numbers; expected: dict idx->alg number."""
        for i in range(len(got)):
            if i in expected:
                obl.append(('%s[%d]==definition' % (tag, i), A.eq(num(got[i]), expected[i])))
            elif i in free:
                continue
            else:
                obl.append(('%s[%d] untouched' % (tag, i), A.eq(num(got[i]), num(before[i]))))

    if k == 'scale':
        dims, mnl, nc = cfg['dims'], cfg['mnl'], cfg['ncols']
        N = O.layout(dims, mnl)[3]
        xv = vec('x', N*nc)
        Wv = {'d': vec('d', dims['l']), 'di': vec('di', dims['l']),
              'v': [vec('v%d_' % j, m) for j, m in enumerate(dims['q'])],
              'beta': [mk('beta%d' % j) for j in range(len(dims['q']))],
              'r': [vec('r%d_' % j, m*m) for j, m in enumerate(dims['s'])],
              'rti': [vec('rti%d_' % j, m*m) for j, m in enumerate(dims['s'])]}
        for b in Wv['beta']: assume(A.gt(num(b), A.const(0)))
        W = {'d': M(Wv['d']), 'di': M(Wv['di']), 'v': [M(v) for v in Wv['v']], 'beta': list(Wv['beta']),
             'r': [M(r, (m, m)) for r, m in zip(Wv['r'], dims['s'])],
             'rti': [M(r, (m, m)) for r, m in zip(Wv['rti'], dims['s'])]}
        if mnl:
            Wv['dnl'], Wv['dnli'] = vec('dnl', mnl), vec('dnli', mnl)
            W['dnl'], W['dnli'] = M(Wv['dnl']), M(Wv['dnli'])
        x = M(xv, (N, nc))
        Wn = {key: ([[num(e) for e in blk] for blk in val] if key in ('v', 'r', 'rti') else [num(e) for e in val])
              for key, val in Wv.items()}
        exp = O.scale(A, [num(e) for e in xv], nc, Wn, dims, mnl, cfg['trans'], cfg['inverse'])
        misc.scale(x, W, trans=cfg['trans'], inverse=cfg['inverse'])
        compare('x', cells(x), xv, exp, O.scale_frame(dims, mnl, nc))
        # W itself must be untouched
        for key in ('d', 'di'):
            for i, e in enumerate(cells(W[key])): obl.append(('W[%s][%d] untouched' % (key, i), A.eq(num(e), num(Wv[key][i]))))
        for key in ('v', 'r', 'rti'):
            for j, blk in enumerate(W[key]):
                for i, e in enumerate(cells(blk)):
                    obl.append(('W[%s][%d][%d] untouched' % (key, j, i), A.eq(num(e), num(Wv[key][j][i]))))

    elif k == 'scale2':
        dims, mnl = cfg['dims'], cfg['mnl']
        N, Nd = O.layout(dims, mnl)[3], Ndiag_of(dims, mnl)
        lv, xv = vec('lm', Nd), vec('x', N)
        ln = [num(e) for e in lv]
        nl, q, s, _ = O.layout(dims, mnl)
        for i in range(nl): assume(A.gt(ln[i], A.const(0)))
        for (st, m) in q:
            assume(A.gt(ln[st], A.const(0)))
            n2 = O._sum((ln[st+i]*ln[st+i] for i in range(1, m)), A.const(0))
            assume(A.gt(ln[st]*ln[st], n2))
        for i in range(nl + sum(dims['q']), Nd): assume(A.gt(ln[i], A.const(0)))
        lm, x = M(lv), M(xv)
        exp = O.scale2(A, ln, [num(e) for e in xv], dims, mnl, cfg['inverse'])
        misc.scale2(lm, x, dims, mnl, inverse=cfg['inverse'])
        compare('x', cells(x), xv, exp)
        compare('lmbda', cells(lm), lv, {})

    elif k in ('pack', 'unpack'):
        dims, mnl, ox, oy = cfg['dims'], cfg['mnl'], cfg['offsetx'], cfg['offsety']
        N, Np = O.layout(dims, mnl)[3], Npack_of(dims, mnl)
        sqrt2 = A.sqrt(A.const(2))
        if k == 'pack':
            xv, yv = vec('x', ox + N + 1), vec('y', oy + Np + 1)
            x, y = M(xv), M(yv)
            e = O.pack(A, [num(t) for t in xv], dims, mnl, ox, sqrt2)
            exp = {oy + i: e[i] for i in range(Np)}
            misc.pack(x, y, dims, mnl, offsetx=ox, offsety=oy)
        else:
            xv, yv = vec('x', ox + Np + 1), vec('y', oy + N + 1)
            x, y = M(xv), M(yv)
            e = O.unpack(A, [num(t) for t in xv], dims, mnl, ox, sqrt2)
            exp = {oy + i: val for i, val in e.items()}
            misc.unpack(x, y, dims, mnl, offsetx=ox, offsety=oy)
        free = set()
        if k == 'unpack':
            for (st, m) in O.layout(dims, mnl)[2]:
                for j in range(m):
                    for i in range(j): free.add(oy + st + i + j*m)
        compare('y', cells(y), yv, exp, free)
        compare('x', cells(x), xv, {})

    elif k == 'pack2':
        dims, mnl, nc = cfg['dims'], cfg['mnl'], cfg['ncols']
        N, Np = O.layout(dims, mnl)[3], Npack_of(dims, mnl)
        xv = vec('x', N*nc)
        x = M(xv, (N, nc))
        sqrt2 = A.sqrt(A.const(2))
        exp = {}
        for c in range(nc):
            e = O.pack(A, [num(t) for t in xv[c*N:(c+1)*N]], dims, mnl, 0, sqrt2)
            for i in range(Np): exp[c*N + i] = e[i]
        misc.pack2(x, dims, mnl)
        free = set(c*N + i for c in range(nc) for i in range(Np, N))   # rows below the packed part are unspecified
        compare('x', cells(x), xv, exp, free)

    elif k in ('sdot', 'snrm2'):
        dims, mnl = cfg['dims'], cfg['mnl']
        N = O.layout(dims, mnl)[3]
        xv, yv = vec('x', N), vec('y', N)
        x, y = M(xv), M(yv)
        if k == 'sdot':
            r = misc.sdot(x, y, dims, mnl)
            obl.append(('sdot==definition', A.eq(num(r), O.sdot(A, [num(e) for e in xv], [num(e) for e in yv], dims, mnl))))
            compare('y', cells(y), yv, {})
        else:
            r = misc.snrm2(x, dims, mnl)
            d = O.sdot(A, [num(e) for e in xv], [num(e) for e in xv], dims, mnl)
            obl.append(('snrm2>=0', A.ge(num(r), A.const(0))))
            obl.append(('snrm2^2==sdot(x,x)', A.eq(num(r)*num(r), d)))
        compare('x', cells(x), xv, {})

    elif k == 'sdot2':
        n = cfg['n']
        if cfg['aslist']:
            xs = [vec('x%d_' % b, n*n) for b in range(2)]; ys = [vec('y%d_' % b, n*n) for b in range(2)]
            r = misc.sdot2([M(v, (n, n)) for v in xs], [M(v, (n, n)) for v in ys])
            d = O._sum((O.sdot(A, [num(e) for e in xs[b]], [num(e) for e in ys[b]], {'l': 0, 'q': [], 's': [n]}, 0) for b in range(2)), A.const(0))
        else:
            xv, yv = vec('x', n*n), vec('y', n*n)
            r = misc.sdot2(M(xv, (n, n)), M(yv, (n, n)))
            d = O.sdot(A, [num(e) for e in xv], [num(e) for e in yv], {'l': 0, 'q': [], 's': [n]}, 0)
        obl.append(('sdot2==definition', A.eq(num(r), d)))

    elif k == 'jdot':
        n, ox, oy = cfg['n'], cfg['offsetx'], cfg['offsety']
        xv, yv = vec('x', ox + n + (0 if cfg['default_n'] else 1)), vec('y', oy + n + (0 if cfg['default_n'] else 1))
        x, y = M(xv), M(yv)
        r = misc.jdot(x, y) if cfg['default_n'] else misc.jdot(x, y, n=n, offsetx=ox, offsety=oy)
        obl.append(('jdot==definition', A.eq(num(r), O.jdot(A, [num(e) for e in xv], [num(e) for e in yv], n, ox, oy))))

    elif k == 'jnrm2':
        n, off = cfg['n'], cfg['offset']
        xv = vec('x', off + n + (0 if cfg['default_n'] else 1))
        xn = [num(e) for e in xv]
        n2 = O._sum((xn[off+i]*xn[off+i] for i in range(1, n)), A.const(0))
        assume(A.gt(xn[off], A.const(0))); assume(A.gt(xn[off]*xn[off], n2))
        x = M(xv)
        r = misc.jnrm2(x) if cfg['default_n'] else misc.jnrm2(x, n=n, offset=off)
        obl.append(('jnrm2>=0', A.ge(num(r), A.const(0))))
        obl.append(('jnrm2^2==x\'Jx', A.eq(num(r)*num(r), xn[off]*xn[off] - n2)))

    elif k == 'sgemv':
        dims, n, tr = cfg['dims'], cfg['n'], cfg['trans']
        N = O.layout(dims, 0)[3]
        Gv = vec('G', N*n)
        alpha, beta = mk('alpha'), mk('beta')
        lx, ly = (n, N) if tr == 'N' else (N, n)
        ox, oy = cfg.get('offsetx', 0), cfg.get('offsety', 0)
        xv, yv = vec('x', ox + lx + (1 if ox else 0)), vec('y', oy + ly + (1 if oy else 0))
        G = M(Gv, (N, n))
        if cfg['sparse']:
            G = Wd.base.sparse(G) if Wd.mode == 'conc' else Wd.spmatrix._from_dense(G)
        x, y = M(xv), M(yv)
        exp = O.sgemv(A, [num(e) for e in Gv], n, [num(e) for e in xv[ox:ox + lx]], [num(e) for e in yv[oy:oy + ly]], dims, tr, num(alpha), num(beta))
        if ox or oy: misc.sgemv(G, x, y, dims, trans=tr, alpha=alpha, beta=beta, offsetx=ox, offsety=oy)
        else: misc.sgemv(G, x, y, dims, trans=tr, alpha=alpha, beta=beta)
        compare('y', cells(y), yv, {oy + i: exp[i] for i in range(ly)})
        # trans='T': x is an element of S in 'L' storage; the kernel temporarily rescales the
        # lower triangles (must be restored exactly) and zeroes the unreferenced strict upper
        # triangles of x's 's' blocks (inside the addressed block, no defined content).
        compare('x', cells(x), xv, {}, set(ox + i for i in O.scale_frame(dims, 0, 1)) if tr == 'T' else ())

    elif k in ('trisc', 'triusc'):
        dims, off = cfg['dims'], cfg['offset']
        N = O.layout(dims, 0)[3]
        xv = vec('x', off + N + 1)
        x = M(xv)
        exp = getattr(O, k)(A, [num(e) for e in xv], dims, off)
        getattr(misc, k)(x, dims, off)
        compare('x', cells(x), xv, exp)

    elif k == 'symm':
        n, off = cfg['n'], cfg['offset']
        xv = vec('x', off + n*n + 1)
        x = M(xv)
        exp = O.symm(A, [num(e) for e in xv], n, off)
        misc.symm(x, n, off)
        compare('x', cells(x), xv, exp)

    elif k == 'sprod':
        dims, mnl, diag = cfg['dims'], cfg['mnl'], cfg['diag']
        N = O.layout(dims, mnl)[3]
        Ny = N if diag == 'N' else Ndiag_of(dims, mnl)
        xv, yv = vec('x', N), vec('y', Ny)
        x, y = M(xv), M(yv)
        exp = O.sprod(A, [num(e) for e in xv], [num(e) for e in yv], dims, mnl, diag)
        misc.sprod(x, y, dims, mnl, diag=diag)
        free = O.scale_frame(dims, mnl, 1)
        compare('x', cells(x), xv, exp, free)
        if diag == 'N':
            # y's 's' blocks may be symmetrised in place (documented side effect of the kernel); everything else untouched
            compare('y', cells(y), yv, {}, free)
        else:
            compare('y', cells(y), yv, {})

    elif k == 'ssqr':
        dims, mnl = cfg['dims'], cfg['mnl']
        Nd = Ndiag_of(dims, mnl)
        yv, xv = vec('y', Nd), vec('x', Nd)
        x, y = M(xv), M(yv)
        exp = O.ssqr(A, [num(e) for e in yv], dims, mnl)
        misc.ssqr(x, y, dims, mnl)
        compare('x', cells(x), xv, exp)
        compare('y', cells(y), yv, {})

    elif k == 'sinv':
        dims, mnl = cfg['dims'], cfg['mnl']
        N, Nd = O.layout(dims, mnl)[3], Ndiag_of(dims, mnl)
        xv, yv = vec('x', N), vec('y', Nd)
        yn = [num(e) for e in yv]
        nl, q, s, _ = O.layout(dims, mnl)
        for i in range(nl): assume(A.gt(yn[i], A.const(0)))
        for (st, m) in q:
            assume(A.gt(yn[st], A.const(0)))
            assume(A.gt(yn[st]*yn[st], O._sum((yn[st+i]*yn[st+i] for i in range(1, m)), A.const(0))))
        for i in range(nl + sum(dims['q']), Nd): assume(A.gt(yn[i], A.const(0)))
        x, y = M(xv), M(yv)
        misc.sinv(x, y, dims, mnl)
        got = cells(x)
        # definition: the result u satisfies  y o u = x  (diag storage of y), lower triangles
        back = O.sprod(A, [num(e) for e in got], yn, dims, mnl, 'D')
        for i, val in back.items():
            obl.append(('(y o sinv(x,y))[%d]==x' % i, A.eq(val, num(xv[i]))))
        compare('x', got, xv, {i: num(got[i]) for i in back}, O.scale_frame(dims, mnl, 1))
        compare('y', cells(y), yv, {})

    elif k == 'max_step':
        dims, mnl = cfg['dims'], cfg['mnl']
        N = O.layout(dims, mnl)[3]
        xv = vec('x', N)
        for e in xv:       # finite doubles (the compiled kernel starts its running maximum at -DBL_MAX)
            assume(A.le(num(e), A.const(DBL_MAX))); assume(A.ge(num(e), A.const(-DBL_MAX)))
        x = M(xv)
        t = misc.max_step(x, dims, mnl)
        exp = O.max_step(A, [num(e) for e in xv], dims, mnl)
        obl.append(('max_step==definition', A.eq(num(t), exp)))
        compare('x', cells(x), xv, {})
    else:
        raise ValueError(k)
    return obl

# ------------------------------------------------------------------------------------ symbolic job

_WORLD = {}
def _world(impl='py'):
    if impl not in _WORLD:
        from vp.pysym import loader
        _WORLD[impl] = loader.load('sym', modules=('misc',), use_c=('ir' if impl == 'c' else None))
    # the two worlds share sys.modules['cvxopt.*']: re-install the one asked for
    import sys
    W = _WORLD[impl]
    sys.modules['cvxopt.misc'] = W.misc
    return W

def job(cfg):
    """Symbolic job for one configuration: explores the kernel, proves every obligation."""
    import z3
    from vp.pysym import sym, prove, alg
    Wd = _world(cfg.get('impl', 'py'))
    tmo = int(cfg.get('_timeout_ms', 10000))
    res = {'paths': 0, 'obl': {'total': 0, 'unsat': 0, 'sat': 0, 'unknown': 0}, 'solver_s': 0.0,
           'sat': [], 'unknown': [], 'errors': [], 'reach': 0, 'sample': None, 'relax_q': 0}
    state = {}
    def run_one():
        A = alg.SymAlg()
        def mk(name): return sym.SymReal(z3.Real(name))
        def assume(p): sym.CTX.assume(p)
        state['A'] = A
        return run_case(cfg, Wd, A, mk, assume)
    def on_path(kind, val, ctx):
        res['paths'] += 1
        A = state['A']
        pc = list(ctx.pc)
        if kind == 'exception':
            # an exception path is legitimate only if infeasible under the exact path condition
            v = prove.feasible(pc + A.side, tmo)
            res['obl']['total'] += 1
            if v == 'unsat': res['obl']['unsat'] += 1; return
            if v == 'sat':
                res['obl']['sat'] += 1
                _, m, _ = sym.check(pc + A.side, tmo, want_model=True)
                res['sat'].append({'label': 'kernel raised %s: %s' % (type(val).__name__, val), 'model': sym.model_to_dict(m) if m is not None else {}})
            else:
                res['obl']['unknown'] += 1
                res['unknown'].append('exception path %s: %s (feasibility undecided)' % (type(val).__name__, val))
            return
        if kind != 'return':
            res['errors'].append('path ended with %s: %s' % (kind, val)); return
        res['reach'] += 1
        obl = val
        # batch: one query for the conjunction, split only if it is not unsat
        goals = [g for _, g in obl]
        if not goals: return
        r = prove.prove(z3.And(*goals) if len(goals) > 1 else goals[0], pc, A.side, tmo)
        res['solver_s'] += r['secs']
        if r['verdict'] == 'unsat':
            res['obl']['total'] += len(goals); res['obl']['unsat'] += len(goals)
        else:
            for label, g in obl:
                r1 = prove.prove(g, pc, A.side, tmo)
                res['solver_s'] += r1['secs']
                res['obl']['total'] += 1; res['obl'][r1['verdict']] += 1
                if r1['verdict'] == 'sat':
                    model = r1['model']
                    if z3.is_eq(g) and g.num_args() == 2 and g.arg(0).sort() == z3.RealSort():
                        # prefer a counterexample with a clear margin (the replay compares floating-point results with a tolerance)
                        l_, r_ = g.arg(0), g.arg(1)
                        ab = lambda t: z3.If(t >= 0, t, -t)
                        far = ab(l_ - r_) > (ab(l_) + ab(r_))/1000 + z3.RealVal('1/1000')
                        v2, m2, _ = sym.check(pc + list(A.side) + [far], tmo, want_model=True)
                        if v2 == 'sat': model = sym.model_to_dict(m2)
                    res['sat'].append({'label': label, 'model': model})
                elif r1['verdict'] == 'unknown': res['unknown'].append(label)
        if res['sample'] is None:
            res['sample'] = {'cfg': cfg, 'n_obligations': len(obl), 'first': str(obl[0][0]),
                             'smt': z3.Not(obl[0][1]).sexpr()[:400]}
    st = sym.explore(run_one, on_path=on_path, max_paths=400)
    res['relax_q'] = st['relax_queries']
    if st['budget']: res['errors'].append('path budget exhausted')
    # reachability twin: at least one path must have reached the assertion point with an
    # exactly satisfiable path condition
    return res

# ------------------------------------------------------------------------------------ concrete replay (runs under /venv/bin/python)

def replay(cfg, model, use_c):
    """Re-run one configuration on the real build with the solver's values; returns list of
    violated obligation labels (empty = not reproduced)."""
    import fractions
    from vp.pysym import loader, alg
    Wd = loader.load('conc', use_c=use_c, modules=('misc',))
    A = alg.ConcAlg()
    def mk(name):
        v = model.get(name)
        if v is None: return 0.0
        try: return float(fractions.Fraction(v))
        except Exception: return float(v)
    pre = []
    def assume(p): pre.append(bool(p))
    try:
        obl = run_case(cfg, Wd, A, mk, assume)
    except Exception as e:
        return {'precond_ok': all(pre), 'violated': ['kernel raised %s: %s' % (type(e).__name__, e)]}
    return {'precond_ok': all(pre), 'violated': [l for l, p in obl if not p]}

# ------------------------------------------------------------------------------------ driver

def main(tier):
    from vp import common
    from vp.pysym import loader
    ev = common.Evidence('C08', 'translation_validation', tier)
    cfgs = configs(tier)
    for c in cfgs: c['_timeout_ms'] = 10000 if tier == 'quick' else 60000
    results = common.run_jobs('vp.checks.c08', 'job', cfgs)
    # configurations with an undecided obligation (nonlinear identities of the 'q' blocks are decided erratically, in particular
    # when the machine is loaded) are re-run once, a few at a time, with a 12-fold budget; what stays undecided is reported
    again = [i for i, r in enumerate(results) if r['ok'] and r['res']['unknown'] and not r['res']['sat']]
    if again:
        cf2 = [dict(cfgs[i], _timeout_ms=12*cfgs[i]['_timeout_ms']) for i in again]
        for i, r2 in zip(again, common.run_jobs('vp.checks.c08', 'job', cf2, workers=4)):
            if r2['ok']: results[i] = r2
    known = common.known_findings('C08')
    violations, known_hits, herr, inconc = [], [], [], []
    paths = reach = 0
    kernels_done = set(); seen_keys = {}
    for r in results:
        cfg = {k: v for k, v in r['cfg'].items() if not k.startswith('_')}
        if not r['ok']:
            herr.append('%s: %s' % (json.dumps(cfg), r['err'])); continue
        res = r['res']
        paths += res['paths']; reach += res['reach']
        for key in ('total', 'unsat', 'sat', 'unknown'): ev.obl[key] += res['obl'][key]
        ev.solver_s += res['solver_s']
        if res['sample']: ev.sample(res['sample'])
        for e in res['errors']: herr.append('%s: %s' % (json.dumps(cfg), e))
        for u in res['unknown']: inconc.append('%s: %s' % (json.dumps(cfg), u))
        if res['reach'] == 0 and not res['sat']: herr.append('%s: assertion point never reached (vacuous)' % json.dumps(cfg))
        kernels_done.add(cfg['kernel'])
        for s in res['sat']:
            key = '%s:%s:%s' % (cfg.get('impl', 'py'), cfg['kernel'], s['label'].split('[')[0])
            if key in seen_keys:
                seen_keys[key] += 1; continue
            seen_keys[key] = 1
            rp = common.write_replay('C08', json.dumps(cfg, sort_keys=True) + s['label'],
                                     {'property': 'C08', 'cfg': cfg, 'label': s['label'], 'model': s['model']})
            rep = replay_on_build(rp)
            if rep is None:
                herr.append('%s: counterexample for "%s" did not reproduce on the real build (%s)' % (json.dumps(cfg), s['label'], rp))
            elif key in known:
                known_hits.append((key, known[key]['what']))
            else:
                violations.append((key, rp, '%s %s -> %s' % (json.dumps(cfg), s['label'], rep)))
    ev.extra['sat_by_key'] = seen_keys
    ev.cov.update({'programs': len(cfgs), 'disagreements_checked': ev.obl['sat'],
                   'states': paths, 'transitions': ev.obl['total'],
                   'kernels': sorted(kernels_done), 'implementations': ['misc.py fallbacks (use_C=False), symbolic (engine P)', 'misc_solvers.c kernels from LLVM IR on the same symbolic cells, below misc.py with use_C=True (engine L inside engine P)'],
                   'c_kernels_encoded': ['scale', 'scale2', 'pack', 'pack2', 'unpack', 'symm', 'trisc', 'triusc', 'sdot', 'sprod', 'sinv', 'max_step (without sigma)'],
                   'paths_reaching_assertions': reach,
                   'source_hash': loader.src_hash(['misc']),
                   'bounds': 'dims box of %d cone structures (orders: l<=2, q dims<=3(4), s orders<=2(3)), mnl in {0,1}, 1-2 columns, offsets in {0,1,2}; all data symbolic reals; exact real arithmetic (sqrt(2) an algebraic symbol)' % len(DIMS_QUICK if tier == 'quick' else DIMS_THOROUGH)})
    ev.assumptions += ['floats modelled as reals (no rounding claim)', 'blas/base shim = reference model validated against the real build',
                       'compiled kernels: every integer is concrete per configuration; CPython API, calloc and the BLAS/LAPACK routines called by misc_solvers.c are reference-semantics stubs (vp/llsym/scen_misc.py); every access is checked against the extent of its buffer; max_step: finite doubles, eigenvalues in closed form for orders <= 2, the sigma (eigenvector) variant is not encoded',
                       'scale: W[beta] > 0; scale2/sinv/jnrm2: argument strictly inside the cone',
                       "'s' blocks: only lower triangles compared; strict upper triangles of addressed 's' blocks may change"]
    return common.finish(ev, violations, known_hits, herr, inconc)

def replay_on_build(path):
    """returns description string if the counterexample reproduces on the real build (either
    implementation), else None."""
    from vp import common
    out = []
    for use_c in (False, True):
        r = common.run_conc(['-m', 'vp.checks.c08', '--replay-conc', path, '1' if use_c else '0'])
        if r.returncode != 0:
            continue
        try: d = json.loads(r.stdout.strip().splitlines()[-1])
        except Exception: continue
        if d.get('violated') and d.get('precond_ok'):
            out.append('%s: %s' % ('compiled' if use_c else 'python-fallback', d['violated'][:3]))
    return '; '.join(out) if out else None

if __name__ == '__main__':
    if len(sys.argv) >= 4 and sys.argv[1] == '--replay-conc':
        d = json.load(open(sys.argv[2]))
        print(json.dumps(replay(d['cfg'], d['model'], sys.argv[3] == '1')))

def replay_main(path):
    rep = replay_on_build(path)
    if rep:
        print('REPRODUCED on the real build: %s' % rep); return 1
    print('not reproduced'); return 0
