"""Kernel scenario for engine L: a C function of sparse.c / dense.c is called directly on symbolic data.
Memory objects:
  * typed array regions ('arr:<name>'): z3 Array Int -> Int/Real with a (symbolic) element count; every access is
    logged (st.acc) and becomes a bounds obligation;
  * ccs structs ('ccs:<name>'): fields values/colptr/rowind point to array regions, nrows/ncols/id are terms;
  * small by-value unions ('num:<name>'): a real at offset 0.
External BLAS level-1 routines reached through the function-pointer tables of base.c (scal, axpy) are modelled by
their reference semantics on the array regions (dscal: no operation when incx <= 0 or n <= 0)."""
import z3, re
from . import exec as X
from .exec import Ptr, Unsupported, is_conc

FM = z3.Function('fmul', z3.RealSort(), z3.RealSort(), z3.RealSort())
def fm(a, b):
    """real multiplication as an uninterpreted function with a canonical argument order (commutativity) and the
    numeral cases evaluated: 'unsat' with fm is 'unsat' with the real product (which is one interpretation of fm);
    anything else is re-decided on the real-arithmetic form (real_form)"""
    if not z3.is_expr(a): a = z3.RealVal(a)
    if not z3.is_expr(b): b = z3.RealVal(b)
    for u, v in ((a, b), (b, a)):
        if z3.is_rational_value(u):
            if u.numerator_as_long() == 0: return z3.RealVal(0)
            if u.numerator_as_long() == u.denominator_as_long(): return v
            return u*v
    if a.hash() > b.hash() or (a.hash() == b.hash() and str(a) > str(b)): a, b = b, a
    return FM(a, b)
def real_form(t):
    return z3.substitute_funs(t, (FM, z3.Var(0, z3.RealSort())*z3.Var(1, z3.RealSort())))

class Ccs(object):
    def __init__(self, name, nrows, ncols, nnz_cap, id_=1):
        self.name, self.nrows, self.ncols, self.id = name, nrows, ncols, id_
        self.nnz_cap = nnz_cap

class KernelScenario(object):
    def __init__(self, mod, nmax_scal=4):
        self.mod = mod
        self.arrays = {}       # name -> dict(esz, kind, len, init)
        self.ccs = {}          # name -> Ccs
        self.nums = {}         # name -> z3 Real
        self.pre = []
        self.heap = {}
        self.nmax_scal = nmax_scal
        self.allocs = 0
        self.frees = []

    # ---- construction helpers
    def array(self, name, kind, length, esz=8):
        srt = z3.RealSort() if kind == 'real' else z3.IntSort()
        self.arrays[name] = {'esz': esz, 'kind': kind, 'len': length, 'init': z3.Array('mem_' + name, z3.IntSort(), srt)}
        return Ptr('arr:' + name, 0)
    def elem(self, name, i):
        return z3.Select(self.arrays[name]['init'], i)
    def new_ccs(self, name, nrows, ncols, nnz_cap, ncols_max, valid=True):
        """arbitrary valid CCS with at most nnz_cap stored entries and (concretely) at most ncols_max columns"""
        c = Ccs(name, nrows, ncols, nnz_cap)
        self.ccs[name] = c
        self.array(name + '.colptr', 'int', ncols + 1); self.arrays[name + '.colptr']['concretize'] = nnz_cap + 2
        self.array(name + '.rowind', 'int', z3.Int(name + '_cap')); self.arrays[name + '.rowind']['concretize'] = 8
        self.array(name + '.values', 'real', z3.Int(name + '_cap'))
        cp = lambda j: self.elem(name + '.colptr', j)
        ri = lambda k: self.elem(name + '.rowind', k)
        cap = z3.Int(name + '_cap')
        P = [nrows >= 0, ncols >= 0, ncols <= ncols_max, cp(0) == 0, cap >= 0, cap <= nnz_cap]
        for j in range(ncols_max):
            P.append(z3.Implies(j < ncols, z3.And(cp(j) <= cp(j + 1))))
        # nnz = colptr[ncols] <= allocated capacity
        nnz = cp(ncols)
        P.append(nnz <= cap); P.append(nnz >= 0)
        if valid:
            for k in range(nnz_cap):
                P.append(z3.Implies(k < nnz, z3.And(ri(k) >= 0, ri(k) < nrows)))
            for k in range(nnz_cap - 1):
                # strictly increasing inside a column: k and k+1 in the same column  <=>  no column pointer equals k+1
                same = z3.And(k + 1 < nnz, *[z3.Implies(j <= ncols, cp(j) != k + 1) for j in range(ncols_max + 1)])
                P.append(z3.Implies(same, ri(k) < ri(k + 1)))
        self.pre += P
        c.nnz = nnz
        return Ptr('ccs:' + name, 0)
    def num(self, name, val):
        self.nums[name] = val
        return Ptr('num:' + name, 0)

    # ---- dense image of a ccs (finite expansion)
    def dense_entry(self, name, i, j, ncols_max, arr_vals=None, arr_ri=None, arr_cp=None, times=None):
        c = self.ccs[name]
        V = arr_vals if arr_vals is not None else self.arrays[name + '.values']['init']
        R = arr_ri if arr_ri is not None else self.arrays[name + '.rowind']['init']
        C = arr_cp if arr_cp is not None else self.arrays[name + '.colptr']['init']
        tot = z3.RealVal(0)
        for k in range(c.nnz_cap):
            incol = z3.And(z3.Select(C, j) <= k, k < z3.Select(C, j + 1))
            term = z3.Select(V, k) if times is None else times(z3.Select(V, k))
            tot = tot + z3.If(z3.And(incol, z3.Select(R, k) == i), term, z3.RealVal(0))
        return tot

    # ---- executor interface
    def initial_value(self, ex, st, region, off, ty):
        if region.startswith('ccs:'):
            c = self.ccs[region[4:]]
            t = ex.mod.structs['%struct.ccs']
            fo = [ex.mod.field_offset(t, k) for k in range(6)]
            if off == fo[0]: return Ptr('arr:' + c.name + '.values', 0)
            if off == fo[1]: return Ptr('arr:' + c.name + '.colptr', 0)
            if off == fo[2]: return Ptr('arr:' + c.name + '.rowind', 0)
            if off == fo[3]: return c.nrows
            if off == fo[4]: return c.ncols
            if off == fo[5]: return c.id
            raise Unsupported('ccs field at %d' % off)
        if region.startswith('spm:'):
            t = ex.mod.structs['%struct.spmatrix']
            if off == ex.mod.field_offset(t, 1): return Ptr('ccs:' + region[4:], 0)
            return None
        if region.startswith('num:'):
            if off == 0: return self.nums[region[4:]]
            raise Unsupported('union number read at offset %d' % off)
        if region.startswith('g:@intOne'): return 1
        return None

    def external_load(self, ex, st, region, off, ty):
        """loads from globals defined in other translation units (function-pointer tables, constants of base.c)"""
        g = region[3:]
        if g in ('scal', 'axpy', 'gemm', 'syrk', 'gemv', 'symv', 'write_num', 'convert_num'):
            if not is_conc(off): raise Unsupported('symbolic index into table %s' % g)
            return Ptr('fn:%s#%d' % (g, off//8), 0)
        if g == 'intOne': return 1
        if g == 'E_SIZE':
            if not is_conc(off): raise Unsupported('symbolic index into E_SIZE')
            return [8, 8, 16][off//4]
        if g in ('One', 'Zero', 'MinusOne') and ty.kind in ('double', 'float'):
            if not is_conc(off): raise Unsupported('symbolic index into %s' % g)
            if off % 16 == 0 and off//16 == 1: return z3.RealVal({'One': 1, 'Zero': 0, 'MinusOne': -1}[g])
        raise Unsupported('load from external global %s+%s' % (g, off))

    def _arr_of(self, p):
        if not isinstance(p, Ptr) or not str(p.region).startswith('arr:'): raise Unsupported('BLAS-1 call on %r' % (p,))
        return p.region[4:]

    def call(self, ex, st, name, args, rt):
        vals = [a for _, a in args]
        if name.startswith('llvm.dbg') or name.startswith('llvm.lifetime'): return None
        if name == 'llvm.fmuladd.f64': return (ex.fmul(vals[0], vals[1]) if ex.fmul else vals[0]*vals[1]) + vals[2]
        if name == 'abs':
            v = vals[0]; return abs(v) if is_conc(v) else z3.If(v >= 0, v, -v)
        if name == 'scal#1':
            # dscal(n, alpha, x, incx): reference BLAS - returns at once when n <= 0 or incx <= 0
            n = ex.load(st, X.T('int', bits=32), vals[0]); al = ex.load(st, X.T('double'), vals[1]); inc = ex.load(st, X.T('int', bits=32), vals[3])
            nm = self._arr_of(vals[2]); base = ex.arr_index(nm, vals[2].off)
            a = self.arrays[nm]; cur = st.mem.get(('arr', nm), a['init'])
            st.events.append(X.Event('dscal', [n, al, nm, base, inc]))
            if not is_conc(n): ex.assume(st, n <= self.nmax_scal) if False else None
            for i in range(self.nmax_scal):
                act = z3.And(i < n, inc > 0) if not (is_conc(n) and is_conc(inc)) else (i < n and inc > 0)
                if act is False: continue
                idx = X.simp_int(base + i*inc)
                st.acc.append((nm, idx, 'w', len(st.pc), act if not isinstance(act, bool) else z3.BoolVal(True)))
                old = z3.Select(cur, idx)
                prod = ex.fmul(al, old) if ex.fmul else al*old
                cur = z3.Store(cur, idx, z3.If(act, prod, old) if not isinstance(act, bool) else prod)
            st.mem[('arr', nm)] = cur
            st.scal_n = getattr(st, 'scal_n', []) + [n]
            return None
        if name.startswith('write_num#'):
            # dest[i] = src[j] (element copy of the typecode)
            dest, i, src, j = vals
            if isinstance(src, Ptr) and str(src.region).startswith('arr:'): v = ex.load(st, X.T('double'), Ptr(src.region, src.off + 8*j))
            elif isinstance(src, Ptr) and src.region == 'g:@Zero': v = z3.RealVal(0)
            else: v = ex.load(st, X.T('double'), Ptr(src.region, src.off))
            if isinstance(dest, Ptr) and str(dest.region).startswith('arr:'): ex.store(st, X.T('double'), v, Ptr(dest.region, dest.off + 8*i))
            else: st.mem[(dest.region, dest.off if is_conc(dest.off) else 0)] = v
            return None
        if name in ('malloc', 'calloc'):
            raise Unsupported('allocation in a kernel scenario: %s' % name)
        if name == 'free':
            self.frees.append(vals[0]); return None
        raise Unsupported('call to %s' % name)
